"""Demonstration (not a check): settings given to tatsu.compile() configure the parse of the GRAMMAR TEXT and
never reach the compiled model. exit 1 = defect present."""
import sys
import tatsu

bad = []
g = "start: 'hello' 'world' $\n"
m = tatsu.compile(g, name='A', ignorecase=True)
try:
    m.parse('HELLO World')
    print('1. compile(ignorecase=True): model matches case-insensitively')
except tatsu.exceptions.FailedParse:
    print('1. compile(ignorecase=True) has NO effect on the model (HELLO World rejected); model.config.ignorecase =', m.config.ignorecase)
    bad.append('ignorecase not applied')
print('   same setting at parse time:', tatsu.compile(g, name='A2').parse('HELLO World', ignorecase=True))
try:
    tatsu.compile(g, name='B', whitespace='')
    print("2. compile(whitespace='') compiles")
except Exception as e:  # noqa
    print("2. compile(whitespace='') fails to parse the grammar text itself:", type(e).__name__)
    bad.append("whitespace='' breaks grammar parsing")
print('FAIL' if bad else 'PASS', bad)
sys.exit(1 if bad else 0)
