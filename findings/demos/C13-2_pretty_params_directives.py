"""C13 (fixed): (a) string rule parameters that look like numbers/booleans changed type through pretty();
(b) pretty() raised TypeError for `@@whitespace :: //`.  Exits 0 when both round trips hold, 1 otherwise."""
import sys

import tatsu

bad = 0
m = tatsu.compile("start['123', 'True', k='7', n=5, w=Node] = 'a' ;")
m2 = tatsu.compile(m.pretty())
if (m2.rules[0].params, m2.rules[0].kwparams) != (m.rules[0].params, m.rules[0].kwparams) or m2.pretty() != m.pretty():
    bad += 1
    print('DEFECT: parameters', m.rules[0].params, m.rules[0].kwparams, '->', m2.rules[0].params, m2.rules[0].kwparams)
else:
    print('ok: parameters keep their types:', m2.rules[0].params, m2.rules[0].kwparams)
try:
    g = tatsu.compile("@@whitespace :: //\nstart = 'a' 'b' $ ;")
    p1 = g.pretty()
    ok = tatsu.compile(p1).pretty() == p1
    print('ok: empty-regex directive prints as', repr(p1.splitlines()[0]), 'fixpoint:', ok)
    bad += not ok
except TypeError as e:
    bad += 1
    print('DEFECT: pretty() raised', e)
sys.exit(1 if bad else 0)
