"""C13: ANTLR `x=~'a'` was translated to Named(x, Sequence[!'a', .]) without a group; it printed as x=!'a' /./, which binds
x to the lookahead only. Before c95ace5 the recompiled text gave {'x': None} where the translated model gave {'x': 'c'}."""
import sys

import tatsu
from tatsu.g2e import translate
from tatsu.util import asjson

m = translate(text="grammar T;\nr : x=~'a' 'b' ;\n", name='T')
m2 = tatsu.compile(m.pretty())
a, b = asjson(m.parse('cb')), asjson(m2.parse('cb'))
print(m.pretty().strip(), a, b)
sys.exit(0 if a == b else 1)
