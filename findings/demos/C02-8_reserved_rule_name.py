"""C02: a rule named like a Python reserved word (`if`) becomes the method `if_` of a generated parser; RuleInfo.new took the method
name, so ParseInfo.rule (part of the AST when parseinfo is on) and the traces said `if_` where the model says `if`.  Repaired in 52a36cb."""
import sys

import tatsu

g = "start = if $ ;\n\nif = x:'a' ;\n"
model = tatsu.compile(g)
ns: dict = {}
exec(compile(tatsu.to_python_sourcecode(g, name='T'), 'gen', 'exec'), ns)  # noqa: S102
a = model.parse('a', parseinfo=True, start='if').parseinfo.rule
b = ns['TParser']().parse('a', parseinfo=True, start='if').parseinfo.rule
print('model:', a, 'generated:', b)
sys.exit(0 if a == b else 1)
