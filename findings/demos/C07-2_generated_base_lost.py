"""C07: `start::A::B::C` declares B(C); a later rule `second::D::B` ends its chain at B.  Before 1c582e1 the generated model module
declared `class B(ModelBase)` (the last mention won), so nodes of class A were no instances of C with the generated classes, while the
builder's synthesized classes keep B(C)."""
import sys

import tatsu

src = tatsu.to_python_model("start::A::B::C = x:'a' second ;\n\nsecond::D::B = y:'b' ;\n", name='M')
classes = [ln for ln in src.splitlines() if ln.startswith('class ') and 'Semantics' not in ln]
print(classes)
sys.exit(0 if 'class B(C):' in classes else 1)
