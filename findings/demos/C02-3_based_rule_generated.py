"""C02 (fixed): the generated parser of a based rule `b < a = ...` dropped the expression of the base rule, the model parses
`a`'s expression followed by `b`'s own (docs/syntax.rst, Based Rules).  Exits 0 when model and generated parser agree."""
import sys

import tatsu

G = """
start = b $ ;
a = [x:'q'] 'k' ;
b < a = y:'z' ;
"""
model = tatsu.compile(G)
ns: dict = {}
exec(compile(tatsu.to_python_sourcecode(G, name='T'), 'generated', 'exec'), ns)  # noqa: S102
ok = True
for text in ('k z', 'q k z'):
    want = model.parse(text)
    try:
        got = ns['TParser']().parse(text)
    except Exception as e:  # noqa: BLE001
        got = f'{type(e).__name__}'
    print(repr(text), 'model:', want, 'generated:', got)
    ok = ok and got == want
sys.exit(0 if ok else 1)
