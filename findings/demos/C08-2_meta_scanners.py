"""C08 (fixed): `@uint` on '_1' and `@float` on '1.-2' let a ValueError escape from parse().
Exits 0 when both are reported as TatSu parse failures, 1 otherwise."""
import sys

import tatsu
from tatsu.exceptions import FailedParse

bad = 0
for g, text in (("start = @uint $ ;", '_1'), ("start = @float $ ;", '1.-2'), ("start = 'x' @uint $ ;", 'x_1')):
    try:
        tatsu.compile(g).parse(text)
        print('accepted', g, repr(text))
    except FailedParse as e:
        print('ok: FailedParse', type(e).__name__, repr(text))
    except Exception as e:  # noqa: BLE001
        bad += 1
        print('DEFECT:', type(e).__name__, e, 'for', g, repr(text))
sys.exit(1 if bad else 0)
