"""C08 (fixed): grammar texts and inputs that made tatsu.compile()/parse() raise foreign exceptions or hang.
Exits 0 when every case ends in a result or a TatSu exception within the time limit, 1 otherwise."""
import signal
import sys

import tatsu
from tatsu.exceptions import ParseException, TatSuException


def alarm(*_a):
    raise TimeoutError('HANG')


cases = [
    ("@uint on superscript two", lambda: tatsu.compile('start = @uint $ ;').parse('²')),
    ("@float on circled one", lambda: tatsu.compile('start = @float $ ;').parse('①')),
    ("pattern with a huge repetition count", lambda: tatsu.compile('start = /a{99999999999999999999}/ ;')),
    ("token with a truncated \\x escape", lambda: tatsu.compile("start = '\\xZZ' ;")),
    ("token with an unknown \\N{name}", lambda: tatsu.compile("start = '\\N{bogus}' ;")),
    ("@@whitespace given as a string that is no regex", lambda: tatsu.compile('@@whitespace :: "("\nstart = \'a\' ;')),
    ("@@whitespace matching the empty string", lambda: tatsu.compile('@@whitespace :: /\\s*/\nstart = \'a\' \'b\' $ ;').parse('a b')),
    ("undefined rule used only as a join separator", lambda: tatsu.compile("start = sepx.{'a'} ;")),
    ("rule parameter with 5000 digits", lambda: tatsu.compile("start(" + "1" * 5000 + ") = 'a' ;")),
]
bad = 0
signal.signal(signal.SIGALRM, alarm)
for what, f in cases:
    signal.alarm(5)
    try:
        f()
        print('ok  (result)      ', what)
    except (ParseException, TatSuException) as e:
        print('ok  (TatSu error) ', what, '-', type(e).__name__)
    except BaseException as e:  # noqa: BLE001
        bad += 1
        print('DEFECT            ', what, '-', type(e).__name__, str(e)[:60])
    finally:
        signal.alarm(0)
sys.exit(1 if bad else 0)
