"""C14 (fixed): Python model source of a grammar with ONE rule / ONE keyword did not load back.
Exits 0 when the generated source loads and gives the same keywords and rules, 1 otherwise."""
import sys

from tatsu.api.api import to_parsermodel_sourcecode

ns: dict = {}
try:
    exec(to_parsermodel_sourcecode("@@grammar :: O\n@@keyword :: if\n\nstart = 'a' $ ;"), ns)
    m = ns['GRAMMAR_MODEL']
    ok = m.keywords == ('if',) and len(m.rules) == 1 and m.parse('a') == 'a'
    print('loaded:', m.keywords, len(m.rules), 'rule(s)')
except Exception as e:  # noqa: BLE001
    ok = False
    print('DEFECT:', type(e).__name__, str(e)[:80])
sys.exit(0 if ok else 1)
