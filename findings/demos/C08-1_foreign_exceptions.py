"""Demonstration (not a check): inputs/grammars that make the pinned tree raise non-TatSu exceptions or mis-scan.
exit 1 = defect present."""
import sys
import tatsu
from tatsu.exceptions import ParseException
from tatsu.input.buffer import Buffer

bad = []


def attempt(label, fn):
    try:
        r = fn()
        print(f'{label}: returned {r!r}')
        return r
    except ParseException as e:
        print(f'{label}: TatSu error {type(e).__name__}')
        return e
    except Exception as e:  # noqa
        print(f'{label}: FOREIGN {type(e).__name__}: {e}')
        bad.append(f'{label}: {type(e).__name__}')
        return e


m = tatsu.compile("start: 'a' @uint $\n")
attempt("1. `'a' @uint` on 'a +'", lambda: m.parse('a +'))
mb = tatsu.compile("start: @bool $\n")
r = attempt("2. `@bool` on 'maybe'", lambda: mb.parse('maybe'))
if not isinstance(r, ParseException):
    bad.append('@bool accepted a non-boolean')
r = attempt("3. `@bool` on 'false'", lambda: mb.parse('false'))
if r is not False:
    bad.append(f'@bool false -> {r!r}')
attempt('4. unknown rule inside {...}+', lambda: tatsu.compile("start: {undefined}+ 'x' $\n"))
me = tatsu.compile("start: () $\n")
attempt('5. empty text, parseinfo on, legacy Buffer', lambda: me.parse(Buffer(''), parseinfo=True))
print('FAIL' if bad else 'PASS', bad)
sys.exit(1 if bad else 0)
