"""Demonstration (not a check): a cut inside iteration >= 2 of a closure is lost.
docs/syntax.rst: A -> {x} == A -> B, B -> xB | e, so a failure after the cut in any iteration fails the closure.
exit 1 = defect present."""
import sys
import tatsu

g = "start: {'a' ~ 'b'} 'a' 'c' $\n"
m = tatsu.compile(g)
bad = []
for text, want_ok in [('a c', False), ('a b a c', False), ('a b a b a c', False), ('a b', False), ('a b a b', False)]:
    try:
        r = m.parse(text)
        ok = True
    except tatsu.exceptions.FailedParse:
        r, ok = None, False
    print(f'{text!r:14} accepted={ok} result={r}')
    if ok != want_ok:
        bad.append(text)
# iteration 1 and iteration n must agree: 'a c' fails after the cut of iteration 1, 'a b a c' after the cut of iteration 2
m2 = tatsu.compile("start: {'a' ~ 'b'} 'c' $\n")
for text in ['c', 'a b c', 'a b a b c']:
    try:
        print(f'{text!r:14} committed path parses:', m2.parse(text))
    except tatsu.exceptions.FailedParse:
        bad.append('committed path ' + text)
print('FAIL' if bad else 'PASS', bad)
sys.exit(1 if bad else 0)
