"""C13, candidate reported in passing by the round-9 C13 seeding agent, reproduced; rule C13.R7 reports it; recorded as a known finding, not repaired (see DESIGN 11.18):
an @override rule is stored at the position of the rule it overrides; when its body includes (or extends) a rule that was defined AFTER that
position, the pretty-printed text refers to a rule "not yet defined" and does not recompile.  A repair has to choose where an overriding rule
is printed (moving it changes the default start rule when the first rule is the one overridden), so it is a design decision, not a patch.
exit 0 = the pretty text recompiles; exit 1 = the defect shows (expected on this tree)."""
import sys

import tatsu

g = "start: a b $\n\na: 'a'\n\nb: 'b'\n\n@override\na: >b 'x'\n"
model = tatsu.compile(g)
text = model.pretty()
try:
    tatsu.compile(text)
except Exception as e:  # noqa: BLE001
    print('FAIL: the pretty-printed grammar does not recompile:', type(e).__name__, str(e).splitlines()[0])
    print(text)
    sys.exit(1)
print('PASS')
