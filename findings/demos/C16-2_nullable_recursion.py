"""C16/C08 (fixed): compiling `a = {a}+ '+' | '-'` raised RecursionError (is_nullable followed the call back into the rule).
Exits 0 when the grammar compiles, is marked left recursive and parses, 1 otherwise."""
import sys

import tatsu

try:
    m = tatsu.compile("a = {a}+ '+' | '-' ;")
    ok = m.rules[0].is_lrec and m.parse('- +') == [['-'], '+']
    print('compiled; a.is_lrec =', m.rules[0].is_lrec, '; parse:', m.parse('- +'))
except RecursionError:
    ok = False
    print('DEFECT: RecursionError from tatsu.compile()')
sys.exit(0 if ok else 1)
