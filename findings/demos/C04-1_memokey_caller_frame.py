"""Demonstration (not a check): the memo key of a rule that is not pushed on the call stack (no_stak)
names the CALLER's rule, so it hits the caller's left-recursion guard / memo entries.
exit 1 = defect present."""
import json
import sys
import tatsu
from tatsu.peg import Grammar

g = "start: x $\n\nx: 'k'\n"
model = tatsu.compile(g)
data = json.loads(json.dumps(model.asjson()))
for r in data['rules']:
    if r['name'] == 'x':
        r['no_stak'] = True
m2 = Grammar.load(data)
assert [r.no_stak for r in m2.rules] == [False, True]
out = {}
for memo in (True, False):
    try:
        out[memo] = m2.parse('k', memoization=memo)
    except Exception as e:  # noqa
        out[memo] = f'{type(e).__name__}'
print('memoization on :', out[True])
print('memoization off:', out[False])
ok = out[True] == out[False] == 'k'
print('PASS' if ok else 'FAIL: outcome depends on memoization (key taken from the caller\'s frame)')
sys.exit(0 if ok else 1)
