"""C14 (known finding): the JSON class registry is keyed by bare class name and the last class defined wins - also classes
synthesized at run time.  After a parse with a typed rule `start::Token = ...` (asmodel=True) the JSON form of ANY grammar fails to
reload, because its Token nodes are rebuilt as the synthesized Node subclass.  Exits 1 while the defect is present."""
import sys

import tatsu
from tatsu.peg import Grammar

g = tatsu.compile("start = 'a' $ ;")
js = g.asjsons()
assert Grammar.loads(js).parse('a') == 'a'          # reloads fine in a fresh registry
tatsu.compile("start::Token = v:'x' $ ;", asmodel=True).parse('x')   # synthesizes a class named Token
try:
    print('reload after the typed parse:', Grammar.loads(js).parse('a'))
    sys.exit(0)
except Exception as e:  # noqa: BLE001
    print('DEFECT: reload after the typed parse fails:', type(e).__name__, str(e)[:80])
    sys.exit(1)
