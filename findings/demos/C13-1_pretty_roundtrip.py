"""Demonstration (not a check): node printers whose output the grammar language cannot read back.
exit 1 = defect present."""
import sys
import tatsu
from tatsu import peg as g

bad = []


def roundtrip(label, grammar_text=None, model=None):
    try:
        m = model or tatsu.compile(grammar_text, name='RT' + label.replace(' ', ''))
        text = m.pretty()
        m2 = tatsu.compile(text, name='RT2' + label.replace(' ', ''))
        same = m2.pretty() == text
        print(f'{label}: pretty -> recompiles, fixpoint={same}')
        if not same:
            bad.append(label + ' (no fixpoint)')
    except Exception as e:  # noqa
        print(f'{label}: pretty text does not recompile: {type(e).__name__}: {str(e).splitlines()[0][:70]}')
        bad.append(label)


roundtrip('end of line', "start: 'a' $-> 'b' $\n")
both = g.Grammar('Both', [g.Rule(name='start', exp=g.Sequence(sequence=[g.Token('a\'b"c'), g.EOF()]))])
roundtrip('token with both quote kinds', model=both)
pat = g.Grammar('Pat', [g.Rule(name='start', exp=g.Sequence(sequence=[g.Pattern('a/"b'), g.EOF()]))])
roundtrip('pattern with slash and double quote', model=pat)
print('FAIL' if bad else 'PASS', bad)
sys.exit(1 if bad else 0)
