"""C11 (known finding): keywords are upper-cased when the grammar is built; a parse-time ignorecase=False then compares the
candidate as written against the upper-cased table.  Exits 1 while the defect is present."""
import sys

import tatsu
from tatsu.exceptions import FailedParse

m = tatsu.compile("@@ignorecase :: True\n@@keyword :: if\nstart = id $ ;\n\n@name\nid = /\\w+/ ;")
bad = 0
for text, must_fail in (('if', True), ('IF', False)):
    try:
        m.parse(text, ignorecase=False)
        failed = False
    except FailedParse:
        failed = True
    ok = failed == must_fail
    bad += not ok
    print(('ok    ' if ok else 'DEFECT'), f'parse({text!r}, ignorecase=False):', 'rejected' if failed else 'accepted',
          '(keyword `if`, case-sensitive comparison: must be', 'rejected)' if must_fail else 'accepted)')
sys.exit(1 if bad else 0)
