"""Demonstration (not a check) of three C06 defects of the pinned tree:
 1. Call._parse wraps the whole rule invocation in `except KeyError` -> a KeyError raised by a user action
    comes out as a FailedRef parse error;
 2. expcall catches TypeError whose text contains "arguments" and re-invokes the expression -> the action runs twice
    and the error is rewritten;
 3. @nomemo is parsed and then ignored (Rule.no_memo stays False): the body/action is replayed from the memo.
exit 1 = at least one defect present."""
import sys
import tatsu

bad = []
g = "start: b $\n\nb: 'b'\n"


class KeySem:
    def b(self, ast):
        raise KeyError('user lookup failed')


try:
    tatsu.compile(g).parse('b', semantics=KeySem())
    bad.append('KeyError swallowed')
except KeyError:
    print('1. KeyError reaches the caller unchanged')
except Exception as e:  # noqa
    print('1. KeyError came out as', type(e).__name__)
    bad.append(f'KeyError -> {type(e).__name__}')


class TypeSem:
    calls = 0

    def b(self, ast):
        TypeSem.calls += 1
        raise TypeError('b() got bad arguments from the user')


try:
    tatsu.compile(g).parse('b', semantics=TypeSem())
    bad.append('TypeError swallowed')
except TypeError as e:
    print(f'2. TypeError reaches the caller, action ran {TypeSem.calls}x:', str(e)[:60])
    if TypeSem.calls != 1 or 'bad arguments from the user' not in str(e):
        bad.append(f'TypeError path re-invoked the expression (action ran {TypeSem.calls}x)')
except Exception as e:  # noqa
    print('2. TypeError came out as', type(e).__name__, f'action ran {TypeSem.calls}x')
    bad.append(f'TypeError -> {type(e).__name__}')

g3 = "start: (x 'a' | x 'b') $\n\n@nomemo\nx: 'k'\n"


class Count:
    n = 0

    def x(self, ast):
        Count.n += 1
        return ast


m3 = tatsu.compile(g3)
print('3. Rule.no_memo for @nomemo rule:', [r.no_memo for r in m3.rules if r.name == 'x'])
m3.parse('k b', semantics=Count())
print('   action of @nomemo rule ran', Count.n, 'times for two invocations at the same position')
if Count.n != 2:
    bad.append(f'@nomemo ignored (action ran {Count.n}x, expected 2)')
print('FAIL' if bad else 'PASS', bad)
sys.exit(1 if bad else 0)
