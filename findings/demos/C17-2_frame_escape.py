"""C17 (fixed): a grammar constant reached the real builtins through a generator frame and opened a file.
Exits 0 when no file is opened and the expression stays uninterpreted text, 1 otherwise."""
import sys

import tatsu

opened = []
sys.addaudithook(lambda ev, args: opened.append(args[0]) if ev == 'open' and 'hostname' in str(args[0]) else None)
expr = ("max(['/etc/hostname'], key=max([[]], key=lambda hex, bin=next: [hex.append((hex[0].gi_frame.f_back.f_back.f_back.f_builtins "
        "for oct in [1])), hex.append(bin(hex[0]))])[1].get('open'))")
res = tatsu.compile("start = a:/\\w+/ r:`" + expr + "` $ ;").parse('hello')
print('result:', str(res)[:80], '...')
print('files opened by the constant:', opened)
assert tatsu.compile("start = a:/\\w+/ n:`len(a)` $ ;").parse('hello')['n'] == 5  # safe expressions still evaluate
sys.exit(1 if opened else 0)
