"""Demonstration (not a check): serialisation defects of the pinned tree.
 1. fromjson sniffs string prefixes: a token whose text starts with \\e[ or f{ reloads as a Style object with other text;
 2. ModelBuilder.__setstate__ reads '_registrt' where __getstate__ writes '__registry': the registry is lost by pickling.
exit 1 = defect present."""
import json
import pickle
import sys
import tatsu
from tatsu.peg import Grammar
from tatsu.objectmodel.builder import ModelBuilder

bad = []
g = "start: '\\\\e[1mX' 'f{y:>3}' $\n"
m = tatsu.compile(g, name='Sniff')
toks = [t.token for t in m.rules[0].exp.sequence[:2]]
print('1. tokens before:', [(type(t).__name__, str.__str__(t)) for t in toks])
try:
    m2 = Grammar.load(json.loads(json.dumps(m.asjson())))
    toks2 = [t.token for t in m2.rules[0].exp.sequence[:2]]
    print('   after reload :', [(type(t).__name__, str.__str__(t)) for t in toks2])
    if [(type(t), str.__str__(t)) for t in toks] != [(type(t), str.__str__(t)) for t in toks2]:
        bad.append('tokens altered by JSON reload')
except Exception as e:  # noqa
    print('   JSON reload raised', type(e).__name__, str(e)[:60])
    bad.append('JSON reload of a grammar with a style-looking token raises')


class Ty:
    pass


b = ModelBuilder()
b._registry['int'] = int
try:
    b2 = pickle.loads(pickle.dumps(b))
    print('2. registry before:', b._registry, '| after pickle:', b2._registry)
    if b2._registry != b._registry:
        bad.append('ModelBuilder registry lost by pickling')
except Exception as e:  # noqa
    print('2. pickling ModelBuilder raised', type(e).__name__, e)
    bad.append('ModelBuilder pickle raises')
print('FAIL' if bad else 'PASS', bad)
sys.exit(1 if bad else 0)
