"""Demonstration (not a check): the compile cache is visible.
 a. the key omits asmodel: compile(g) and compile(g, asmodel=True) return the SAME object, and the second call
    turns the first caller's model into a model-building one;
 b. the key omits **settings although they configure the parse of the grammar text: whether
    compile(g, whitespace='') fails depends on whether compile(g) ran before;
 c. synthesize() reuses a class registered under a name by an earlier grammar without comparing bases.
exit 1 = defect present."""
import sys
import tatsu

bad = []
g = "start::Thing = 'a' $\n"
m1 = tatsu.compile(g, name='CacheDemo')
before = type(m1.parse('a')).__name__
m2 = tatsu.compile(g, name='CacheDemo', asmodel=True)
after = type(m1.parse('a')).__name__
print(f'a. same object: {m1 is m2}; m1.parse before={before} after the second compile()={after}')
if before != after:
    bad.append('earlier model changed by a later compile(asmodel=True)')

g2 = "start: 'x' 'y' $\n"
try:
    tatsu.compile(g2, name='Fresh', whitespace='')
    fresh = 'ok'
except Exception as e:  # noqa
    fresh = type(e).__name__
tatsu.compile(g2, name='Warm')
try:
    tatsu.compile(g2, name='Warm', whitespace='')
    warm = 'ok'
except Exception as e:  # noqa
    warm = type(e).__name__
print(f"b. compile(g, whitespace='') in a fresh cache: {fresh}; after compile(g): {warm}")
if fresh != warm:
    bad.append('result of compile(**settings) depends on earlier calls')

ga = "start::Node::BaseA = 'a' $\n"
gb = "start::Node::BaseB = 'a' $\n"
na = tatsu.compile(ga, name='GA', asmodel=True).parse('a')
nb = tatsu.compile(gb, name='GB', asmodel=True).parse('a')
basesb = [c.__name__ for c in type(nb).__mro__]
print('c. bases of Node built for grammar B:', basesb[:4])
if 'BaseB' not in basesb:
    bad.append('synthesized class for grammar B has the bases declared by grammar A')
print('FAIL' if bad else 'PASS', bad)
sys.exit(1 if bad else 0)
