"""Demonstration (not a check): a left-call component whose cycles share no rule gets a single leader, the other
cycle has no marked rule and no runtime guard -> unbounded recursion. exit 1 = defect present."""
import sys
import tatsu

g = "start: a $\n\na: a 'x' | b 'y' | 'k'\n\nb: a 'x' | b 'y' | 'k'\n"
m = tatsu.compile(g)
print({r.name: (r.is_lrec, r.is_memo) for r in m.rules})
try:
    print(m.parse('k y x'))
    ok = True
except RecursionError:
    print('RecursionError')
    ok = False
except tatsu.exceptions.ParseException as e:
    print('parse failure', type(e).__name__)
    ok = True
print('PASS' if ok else 'FAIL: unbounded recursion')
sys.exit(0 if ok else 1)
