"""C20 (fixed): format(style, '>10') with colour on measured the width on the escaped string and styled twice.
Exits 0 when stripping the escapes leaves the formatted text and the reset appears once, 1 otherwise."""
import sys

from tatsu.util.tty import descape
from tatsu.ztyle import Color, Style

s = Style('héllo', fg=1, bold=True, color=Color.always())
out = format(s, '>10')
ok = descape(out) == format('héllo', '>10') and out.count('\x1b[0m') == 1 and f'{s}'.count('\x1b[0m') == 1
print(repr(out), '->', repr(descape(out)))
sys.exit(0 if ok else 1)
