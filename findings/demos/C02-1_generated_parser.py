"""Demonstration (not a check) of C02 defects of the pinned tree:
 1. a pattern containing a literal NEL/LS/FS character is emitted raw; the code printer splits the line -> SyntaxError;
 2. the generated configuration gets comments=r'None' / eol_comments=r'None' when the grammar defines none:
    the generated parser skips the text "None" as a comment, the model does not;
 3. @tatsu.rule drops the ::Base chain of a rule's type parameter: with the same ModelBuilderSemantics the generated
    parser builds Derived without its base.
exit 1 = defect present."""
import sys
import tatsu
from tatsu.objectmodel import ModelBuilderSemantics

bad = []


def gen(grammar, name):
    src = tatsu.to_python_sourcecode(grammar, name=name)
    ns = {}
    exec(compile(src, f'{name}.py', 'exec'), ns)
    return ns[f'{name}Parser'], src


for ch, label in (('\x85', 'NEL'), (' ', 'LS'), ('\x1c', 'FS')):
    g = f"start: /a{ch}b/ $\n"
    try:
        P, _ = gen(g, 'Hz' + label)
        r = P().parse(f'a{ch}b')
        print(f'1. pattern with literal {label}: generated parser ok ->', repr(r))
    except SyntaxError as e:
        print(f'1. pattern with literal {label}: generated source is not valid Python ({e.msg})')
        bad.append(f'{label} unescaped')

g2 = "start: {word} $\n\nword: /\\w+/\n"
model = tatsu.compile(g2, name='NoneCmt')
P2, src2 = gen(g2, 'NoneCmt')
m_res, g_res = model.parse('a None b'), P2().parse('a None b')
print('2. model    :', m_res)
print('   generated:', g_res, '| emitted config:', [l.strip() for l in src2.splitlines() if 'comments=' in l][:2])
if m_res != g_res:
    bad.append('comments=r"None"')

import subprocess
prog = """
import tatsu
from tatsu.objectmodel import ModelBuilderSemantics
g3 = "start::Derived::Base = 'x' $\\n"
KIND
print([c.__name__ for c in type(node).__mro__][:3])
"""
kinds = {
    'model': "node = tatsu.compile(g3, name='Ty').parse('x', semantics=ModelBuilderSemantics())",
    'generated': "src = tatsu.to_python_sourcecode(g3, name='Ty2'); ns = {}; exec(compile(src, 'Ty2.py', 'exec'), ns); "
                 "node = ns['Ty2Parser']().parse('x', semantics=ModelBuilderSemantics())",
}
mro = {}
for k, code in kinds.items():
    # each back-end in a fresh interpreter: synthesized classes are registered by name process-wide
    mro[k] = subprocess.run([sys.executable, '-c', prog.replace('KIND', code)], capture_output=True, text=True).stdout.strip()
print('3. model node MRO    :', mro['model'])
print('   generated node MRO:', mro['generated'])
if ('Base' in mro['model']) != ('Base' in mro['generated']):
    bad.append('::Base dropped by @tatsu.rule')
print('FAIL' if bad else 'PASS', bad)
sys.exit(1 if bad else 0)
