"""C05/C01 (fixed): a join `s%{e}` / gather `s.{e}` that had matched a separator (which commits) and then failed on the element
ended normally with an EMPTY list and nothing consumed: closure() ran repeat() inside its optional(), whose own frame had seen no
cut and swallowed the committed failure - together with the elements matched before.  Exits 0 when the repetition fails."""
import sys

import tatsu

ok = True
for grammar, text in (
    ("start = x:(','%{'a'}) rest:/.*/ $ ;", 'a , b'),
    ("start = x:(','.{'a'}) rest:/.*/ $ ;", 'a , b'),
):
    model = tatsu.compile(grammar)
    ns: dict = {}
    exec(compile(tatsu.to_python_sourcecode(grammar, name='T'), 'generated', 'exec'), ns)  # noqa: S102
    for name, parse in (('model', model.parse), ('generated', ns['TParser']().parse)):
        try:
            got = parse(text)
        except tatsu.exceptions.FailedParse as e:
            got = type(e).__name__
        print(name, grammar, repr(text), '->', got)
        ok = ok and isinstance(got, str)
# unaffected: complete joins, and repetitions that end without a committed failure
m = tatsu.compile("start = x:(','%{'a'}) rest:/.*/ $ ;")
ok = ok and m.parse('a , a')['x'] == ['a', ',', 'a'] and m.parse('a b') == {'x': ['a'], 'rest': ' b'} and m.parse('') == {'x': [], 'rest': ''}
sys.exit(0 if ok else 1)
