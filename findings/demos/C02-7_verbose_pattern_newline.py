"""C02 (known finding, not repaired): a verbose-mode pattern with a literal line break.  In (?x) mode the line break is ignored
whitespace; regexpp writes it as the escape \\n, which verbose mode does NOT ignore, so the generated parser's pattern wants a newline
where the model's pattern wants nothing.  tests/grammar/pattern_test.py::test_multiline_pattern asserts exactly that generated text
(r'(?x)\\nfoo\\nbar\\n'), so the repair cannot keep the existing suite unedited."""
import sys

import tatsu

g = "start = /(?x)a\n  b/ $ ;"
model = tatsu.compile(g)
ns: dict = {}
exec(compile(tatsu.to_python_sourcecode(g, name='T'), 'gen', 'exec'), ns)  # noqa: S102


def run(f):
    try:
        return ('ok', f())
    except Exception as e:  # noqa: BLE001
        return ('fail', type(e).__name__)


a, b = run(lambda: model.parse('ab')), run(lambda: ns['TParser']().parse('ab'))
print('model:', a, 'generated:', b)
sys.exit(0 if a == b else 1)
