"""Demonstration (not a check): a failure raised by constant evaluation inside an
option/optional/closure leaked state frames (their handlers only catch FailedParse) before fix 75cc8ee.
exit 1 = defect present."""
import sys
import tatsu

base = r"""
start: n='k' v=(a | b) m='w' $

a: 'x' { %s } 'y'

b: 'x' 'z'
"""


def run(g, text):
    try:
        return tatsu.compile(g).parse(text)
    except Exception as e:  # noqa
        return f'{type(e).__name__}'


got = run(base % '`1/0`', 'k x z w')
ref = run(base % "'q'", 'k x z w')
print('failing constant in option a :', got)
print('syntax mismatch in option a  :', ref)
ok = got == ref
print('PASS' if ok else 'FAIL: a semantic failure does not backtrack like a syntax mismatch')
sys.exit(0 if ok else 1)
