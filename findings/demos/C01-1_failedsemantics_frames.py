"""Demonstration (not a check): a FailedSemantics raised by constant evaluation inside an
option/optional/closure leaks state frames (their handlers only catch FailedParse).
exit 1 = defect present."""
import sys
import tatsu

# `1/0` is a constant whose evaluation fails -> FailedSemantics inside the first option, within an optional.
g = r"""
start: (a | b) $

a: 'x' [ `1/0` ] 'y'

b: 'x' 'z'
"""
model = tatsu.compile(g)
bad = []
try:
    r = model.parse('x z')
    print('model result:', r)
    if r != ['x', 'z'] and r != ('x', 'z'):
        bad.append(f'model result {r!r}')
except Exception as e:  # noqa
    print('model raised', type(e).__name__, str(e).splitlines()[0][:80])
    bad.append(f'model raised {type(e).__name__}')

# the same with a plain syntax failure in place of the failing constant
g2 = g.replace('`1/0`', "'q'")
print('reference (syntax mismatch instead of failing constant):', tatsu.compile(g2).parse('x z'))
print('FAIL' if bad else 'PASS', bad)
sys.exit(1 if bad else 0)
