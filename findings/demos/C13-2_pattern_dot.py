"""C13: a Pattern('.') model (written ?'.' in a grammar) printed as /./, which the grammar language reads as the Dot atom:
Dot matches a newline, the regular expression . does not. Before 843a28d the recompiled grammar accepted 'a\\nc'."""
import sys

import tatsu

m = tatsu.compile("start = 'a' ?'.' 'c' ;")
m2 = tatsu.compile(m.pretty())


def run(mm, text):
    try:
        return ('ok', mm.parse(text))
    except Exception as e:  # noqa: BLE001
        return ('fail', type(e).__name__)


bad = [t for t in ('a\nc', 'a.c', 'axc') if run(m, t) != run(m2, t)]
print('pretty:', m.pretty().strip(), '| differing inputs:', bad)
sys.exit(1 if bad else 0)
