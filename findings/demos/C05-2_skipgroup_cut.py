"""C05 (fixed): a cut inside a skip group `(?: ...)` was lost - the enclosing optional/choice backtracked over it.
Exits 0 when the committed failures are reported, 1 otherwise."""
import sys

import tatsu
from tatsu.exceptions import FailedParse

bad = 0
for g in ("start = [(?: 'a' ~ 'b')] 'a' 'c' $ ;", "start = (?: 'a' ~ 'b') | 'a' 'c' $ ;"):
    try:
        r = tatsu.compile(g).parse('a c')
        bad += 1
        print('DEFECT: accepted', g, '->', r)
    except FailedParse as e:
        print('ok: committed failure', type(e).__name__, 'for', g)
# control: without a cut the optional still backtracks
assert tatsu.compile("start = [(?: 'a' 'b')] 'a' 'c' $ ;").parse('a c') == ['a', 'c']
sys.exit(1 if bad else 0)
