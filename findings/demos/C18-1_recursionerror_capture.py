"""Demonstration (not a check): taskproc's capture clause names RecursionError, but the earlier
`except RuntimeError: raise` shadows it (RecursionError is a RuntimeError): a payload that asks for
RecursionError to be captured aborts the loop instead of yielding a Result. exit 1 = defect present."""
import sys
import threading
from tatsu.parproc.task import Task, taskproc


class Payload:
    path = 'p'

    def raises(self):
        return (RecursionError, ValueError)


def boom(payload):
    raise RecursionError('too deep')


def bad_value(payload):
    raise ValueError('bad')


def run(fn):
    t = Task(stop=threading.Event(), func=fn, payload=Payload(), pickable=lambda x: x, reraise=False, args=(), kwargs={})
    try:
        r = taskproc(t)
        return f'Result(exception={type(r.exception).__name__})'
    except BaseException as e:  # noqa
        return f'raised {type(e).__name__}'


a, b = run(bad_value), run(boom)
print('ValueError     (listed in raises()):', a)
print('RecursionError (listed in raises()):', b)
ok = a.startswith('Result') and b.startswith('Result')
print('PASS' if ok else 'FAIL: the RecursionError capture clause is unreachable')
sys.exit(0 if ok else 1)
