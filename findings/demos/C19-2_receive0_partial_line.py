"""C19 (fixed): PacketzQueue.receive_0() read a partially written last line, moved its offset past it and so lost the packet when
the write completed.  Exits 0 when the packet is delivered after completion."""
import os
import sys
import tempfile

from tatsu.packetz.packet import Packet, pack
from tatsu.packetz.queue import PacketzQueue

d = tempfile.mkdtemp()
os.chdir(d)
path = os.path.join(d, 'q.jsonl')
q = PacketzQueue(path=path, keep=True)
q.send(to='a', data=1)
line = pack(Packet(to='a', data=2)) + '\n'
with open(path, 'at', encoding='utf-8') as f:
    f.write(line[:10])          # the writer is interrupted in the middle of the record
first = [p.data for p in q.receive_0()]
with open(path, 'at', encoding='utf-8') as f:
    f.write(line[10:])          # ... and completes it
second = [p.data for p in q.receive_0()]
print('first read:', first, 'second read:', second)
sys.exit(0 if first == [1] and second == [2] else 1)
