"""C07 (known finding, not repaired): the registry synthesize() consults is the namespace of tatsu.objectmodel.synth (vars()), so a rule
typed with a name that module binds itself gets that object: `start::Any` raises TypeError ('Any cannot be instantiated'), `start::types`
raises TypeError, `start::BaseNode` is built as a plain BaseNode without the attributes of its AST.  A repair has to move the synthesized
classes out of the module's own namespace while keeping them picklable by reference - more than a small patch."""
import sys

import tatsu

bad = 0
for t in ('Any', 'BaseNode', 'types', 'Foo'):
    try:
        node = tatsu.compile(f"start::{t} = x:'a' ;", asmodel=True).parse('a')
        ok = type(node).__name__ == t and getattr(node, 'x', None) == 'a' and any(c.__name__ == 'SynthNode' for c in type(node).__mro__)
        print(t, '->', type(node).__mro__[:2], 'x =', getattr(node, 'x', '<none>'))
    except Exception as e:  # noqa: BLE001
        ok = False
        print(t, '-> raises', type(e).__name__, str(e)[:60])
    bad += not ok
sys.exit(1 if bad else 0)
