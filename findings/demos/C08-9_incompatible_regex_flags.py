"""C08 (reported in passing by the round-10 seeding agent, then by C08.R9 once ValueError was added to re.compile's exception set):
tatsu.compile("start: /(?u)(?a)x/ $") let a raw ValueError ("ASCII and UNICODE flags are incompatible") escape: the pattern validator
of the grammar actions handled TypeError, OverflowError and re.error only.  Fixed by 5ab5a85.
exit 0 = behaves (after the fix); exit 1 = the defect shows."""
import sys

import tatsu
from tatsu.exceptions import ParseException

bad = []
for g in ("start: /(?u)(?a)x/ $\n", "@@whitespace :: /(?u)(?a)x/\n\nstart: 'a' $\n", "@@comments :: /(?a)(?u)x/\n\nstart: 'a' $\n"):
    try:
        tatsu.compile(g)
        bad.append(f'{g!r}: compiled')
    except ParseException:
        pass
    except Exception as e:  # noqa: BLE001
        bad.append(f'{g!r}: {type(e).__name__}: {e}')
print('FAIL\n' + '\n'.join(bad) if bad else 'PASS')
sys.exit(1 if bad else 0)
