"""Demonstration (not a check): tatsu.parsing.find_rule iterates a SET of candidate names and returns the first
callable: with a rule source that has both `x` and `_x_`, which one is the rule depends on PYTHONHASHSEED.
exit 1 = defect present."""
import subprocess
import sys

prog = '''
import tatsu.parsing as p
class Src:
    def x(self, ctx): return "plain"
    def _x_(self, ctx): return "wrapped"
print(p.find_rule(Src(), "x").__name__)
'''
seen = set()
for seed in range(12):
    out = subprocess.run([sys.executable, '-c', prog], env={'PYTHONHASHSEED': str(seed), 'PATH': '/usr/bin:/bin'},
                         capture_output=True, text=True).stdout.strip()
    seen.add(out)
print('find_rule(Src(), "x") over 12 hash seeds ->', sorted(seen))
print('PASS' if len(seen) == 1 else 'FAIL: result depends on the hash seed')
sys.exit(0 if len(seen) == 1 else 1)
