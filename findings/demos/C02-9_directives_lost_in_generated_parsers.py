"""C02 / C09 (reported in passing by the round-10 C02 seeding agent; rule C02.R14): Parser.__init__ builds its configuration as
srcconfig.override_config(ParserConfig.new(config, **settings)): the overriding side is a freshly DEFAULTED configuration, whose non-None
defaults (parseinfo=False, left_recursion=True, memoization=True, trace=False) beat what the rule source - the generated <Name>Rules
class - carries from the grammar's directives.  `@@parseinfo :: True` is honoured by the model and ignored by the generated parser.
Not repaired: the generated <Name>Parser.__init__ template builds the defaulted object itself before calling Parser.__init__, so the
repair changes Parser.__init__, the code template and the two shipped bootstrap modules together.
exit 0 = behaves; exit 1 = the defect shows (expected on this tree: recorded as a known finding)."""
import sys

import tatsu

g = "@@parseinfo :: True\n\nstart: a='x' $\n"
model = tatsu.compile(g)
ns: dict = {}
exec(compile(tatsu.to_python_sourcecode(g, name='T'), 'T', 'exec'), ns)
parser = ns['TParser']()
m_has = getattr(model.parse('x'), 'parseinfo', None) is not None
g_has = getattr(parser.parse('x'), 'parseinfo', None) is not None
print(f'model AST carries parseinfo: {m_has}; generated parser AST carries parseinfo: {g_has}; generated config.parseinfo = {parser.config.parseinfo}')
ok = m_has == g_has
print('PASS' if ok else 'FAIL: the generated parser ignores the @@parseinfo directive')
sys.exit(0 if ok else 1)
