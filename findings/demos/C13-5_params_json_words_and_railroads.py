"""C13, two defects of the unmodified tree reported in passing by the round-9 seeding agent, reproduced, given a rule and repaired:
(a) C13.R3: a STRING rule parameter spelled true / false / null was printed bare; the grammar language reads those words (through
    `literal -> value -> true | false | null`) as True / False / None: the recompiled model had other parameters.   fix 582a3c5
(b) C13.R6: model.railroads() raised TypeError for any rule with a non-string parameter (`start[3]`).   fix 9cc277f
exit 0 = behaves (after the fixes); exit 1 = a defect shows."""
import sys

import tatsu

bad = []
m = tatsu.compile("start('true', 'null', 3): 'a' $\n")
m2 = tatsu.compile(m.pretty())
if list(m2.rules[0].params) != list(m.rules[0].params):
    bad.append(f'(a) parameters {list(m.rules[0].params)!r} come back as {list(m2.rules[0].params)!r} from the text {m.pretty().strip()!r}')
try:
    rails = tatsu.compile("start[3]: 'a' $\n").railroads()
    if not rails.strip():
        bad.append('(b) empty railroad drawing')
except Exception as e:  # noqa: BLE001
    bad.append(f'(b) railroads() raised {type(e).__name__}: {e}')
print('FAIL\n' + '\n'.join(bad) if bad else 'PASS')
sys.exit(1 if bad else 0)
