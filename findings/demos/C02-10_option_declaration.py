"""C02 (rule C02.R9 A5; reported in passing by the round-10 C02 seeding agent): the model declares the names of a choice option before
parsing it (Choice._parse -> option._add_defined); generated parsers declared names only through walk_Sequence, so an option that is not a
sequence - what the optimizer leaves of `[a:'x']` - got no declaration: on the text `y`, `start: [a:'x'] | b:'y'` gave {'a': None} in
the model and None in the generated parser.  Fixed by 7aa50b4.
exit 0 = behaves (after the fix); exit 1 = the defect shows."""
import sys

import tatsu

g = "start: [a:'x'] | b:'y'\n"
model = tatsu.compile(g)
ns: dict = {}
exec(compile(tatsu.to_python_sourcecode(g, name='T'), 'T', 'exec'), ns)
parser = ns['TParser']()
bad = []
for text in ('x', 'y', ''):
    a, b = model.parse(text), parser.parse(text)
    if a != b:
        bad.append(f'{text!r}: model {a!r}, generated parser {b!r}')
print('FAIL\n' + '\n'.join(bad) if bad else 'PASS')
sys.exit(1 if bad else 0)
