"""C02 (fixed): generated parsers bound state.last_node to a name; an expression that adds nothing (failed optional, lookahead,
cut, end of text, void) bound the value of the element BEFORE it, and a named group of a sequence bound only its LAST element.
Exits 0 when the generated parser returns what the model returns."""
import sys

import tatsu

CASES = [
    ("start = 'b' x:['a'] $ ;", ['b', 'b a']),
    ("start = 'b' x:(!'d') 'c' $ ;", ['b c']),
    ("start = 'b' x:$ ;", ['b']),
    ("start = 'b' @:['a'] $ ;", ['b']),
    ("start = 'b' x+:['a'] $ ;", ['b']),
    ("start = 'b' x:() $ ;", ['b']),
    ("start = x:('a' 'b') $ ;", ['a b']),
    ("start = x:(y:'b' ['a']) $ ;", ['b a']),
]
which = sys.argv[1] if len(sys.argv) > 1 else 'all'
if which == 'stale':
    CASES = CASES[:6]
elif which == 'group':
    CASES = CASES[6:]
ok = True
for grammar, texts in CASES:
    model = tatsu.compile(grammar)
    ns: dict = {}
    exec(compile(tatsu.to_python_sourcecode(grammar, name='T'), 'generated', 'exec'), ns)  # noqa: S102
    for t in texts:
        want, got = model.parse(t), ns['TParser']().parse(t)
        print('same' if want == got else 'DIFF', grammar, repr(t), 'model:', want, 'generated:', got)
        ok = ok and want == got
sys.exit(0 if ok else 1)
