"""Demonstration (not a check): packet codec layers that are not injective, and a corrupt line that aborts the reader.
exit 1 = defect present."""
import sys
import tempfile
from pathlib import Path
from tatsu.packetz.packet import Packet, pack, unpack
from tatsu.packetz.queue import PacketzQueue

bad = []
for label, data in [('literal ~a1~ (run-length layer)', 'x~a1~y'), ('backslash-e (tty layer)', 'a\\eb'),
                    ('dict key "@" (class-marker layer)', {'@': 'v', 'n': 1}), ('plain', {'k': ['aaaaaa', '~~', 5]})]:
    p = Packet(to='r', data=data)
    try:
        q = unpack(pack(p))
        ok = q.data == data and q.to == 'r'
        print(f'{label}: round trip {"ok" if ok else "CHANGED -> " + repr(getattr(q, "data", q))}')
    except Exception as e:  # noqa
        ok = False
        print(f'{label}: unpack raised {type(e).__name__}')
    if not ok:
        bad.append(label)

with tempfile.TemporaryDirectory() as d:
    path = Path(d) / 'q.jsonl'
    q = PacketzQueue(path)
    q.send(to='r', data='one')
    line = pack(Packet(to='r', data='two'))
    with path.open('at', encoding='utf-8') as f:
        f.write(line.replace('"data":{', '"data":{{', 1) + '\n')  # a complete but corrupt line (bad JSON, checksum of the damaged text differs too)
    with path.open('at', encoding='utf-8') as f:
        import re
        body = '{"oops": '  # valid checksum over invalid JSON
        from tatsu.packetz.packet import hashed
        f.write(hashed(body) + '\n')
    q.send(to='r', data='three')
    try:
        got = [p.data for p in q.receive()]
        print('receive over a corrupt line:', got)
        if got != ['one', 'three']:
            bad.append('corrupt line changed delivery')
    except Exception as e:  # noqa
        print('receive over a corrupt line raised', type(e).__name__)
        bad.append('corrupt line aborts the reader')
print('FAIL' if bad else 'PASS', bad)
sys.exit(1 if bad else 0)
