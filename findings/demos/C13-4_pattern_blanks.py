"""C13: Pattern._pretty ran every pattern through trim(): `/ a/` (a pattern that begins with a blank) printed as `/a/`, a literal tab
was expanded to blanks.  Before the fix the recompiled grammar rejected 'x a', which the model accepts."""
import sys

import tatsu

m = tatsu.compile("@@whitespace :: //\nstart = 'x' / a/ $ ;")
m2 = tatsu.compile(m.pretty())


def run(mm):
    try:
        return mm.parse('x a')
    except Exception as e:  # noqa: BLE001
        return type(e).__name__


a, b = run(m), run(m2)
print(a, b)
sys.exit(0 if a == b else 1)
