"""C10 (found by C10.R11): a parse() call that raised BEFORE the try block of ParserEngine.bound() - here: a setting of the wrong type
makes _initialize_caches() raise TypeError - left the per-call configuration active on the parser object; the finally block, too,
re-initialised the caches under that configuration before restoring the parser's own.  Every later parse() on the same generated
parser object failed with the same TypeError, although its own arguments were fine.  Fixed by b7616e4.
exit 0 = behaves (after the fix); exit 1 = the defect shows."""
import sys

import tatsu

src = tatsu.to_python_sourcecode("start: 'a' $\n", name='T')
ns: dict = {}
exec(compile(src, 'T', 'exec'), ns)
parser = ns['TParser']()
assert parser.parse('a') == 'a'
try:
    parser.parse('a', perlinememos='x')
except TypeError:
    pass
try:
    ok = parser.parse('a') == 'a'
except Exception as e:  # noqa: BLE001
    print('FAIL: the parser object is poisoned by the earlier call:', type(e).__name__, e)
    sys.exit(1)
print('PASS' if ok else 'FAIL')
sys.exit(0 if ok else 1)
