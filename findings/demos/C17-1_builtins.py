"""Demonstration (not a check): the sandbox admits open/eval/exec/compile/input/exit/... .
Run: /venv/bin/python findings/demos/C17-1_builtins.py   (exit 1 = defect present)"""
import sys
import tatsu
from tatsu.util.safeeval import safe_builtins, is_eval_safe

bad = sorted(set(safe_builtins()) & {'open', 'eval', 'exec', 'compile', 'input', 'exit', 'quit', 'help', 'delattr', 'print'})
print('admitted:', bad)
events = []
sys.addaudithook(lambda ev, args: events.append(ev) if ev in ('open', 'exec', 'compile') else None)
try:
    r = tatsu.parse("start: `open('/etc/hostname').read()`\n", '')
    print('constant evaluated to', repr(r)[:40], 'audit events:', sorted(set(events)))
except Exception as e:  # noqa
    print('parse raised', type(e).__name__)
fmt = is_eval_safe("'{0.__class__.__mro__}'.format(a)", {'a': 1})
print('format hole accepted:', fmt)
sys.exit(1 if bad or 'open' in events or fmt else 0)
