"""C02 (fixed): regexpp printed a literal backspace in a pattern as `\\b` (a word boundary in a regex) and NUL as `\\0` (an octal
escape when a digit follows): the pattern written into a generated parser was not the pattern of the model.  Exits 0 when the
printed regex still matches exactly the original text."""
import re
import sys

from tatsu.util.regextools import regexpp

ok = True
for pattern in ('\x08', 'a\x08b', '\x001', '\x00'):
    printed = regexpp(pattern)
    regex = eval(printed)  # noqa: S307 - the generated parser contains this literal
    same = re.fullmatch(regex, pattern) is not None
    print(repr(pattern), printed, 'matches the original text:', same)
    ok = ok and same
sys.exit(0 if ok else 1)
