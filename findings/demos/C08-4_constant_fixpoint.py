"""C08: constant() evaluates its result again until it stops changing.  With ``start: a=/.*/ b=`{a}` $`` the input `{a}x` is bound to a,
the constant interpolates to `{a}x`, which interpolates to `{a}xx` ... : before 9cd5c79 the parse never returned (run under a 10 s alarm)."""
import signal
import sys

import tatsu
from tatsu.exceptions import TatSuException


def alarm(*_):
    print('HANG: parse did not return in 10 s')
    sys.exit(1)


signal.signal(signal.SIGALRM, alarm)
signal.alarm(10)
m = tatsu.compile("start: a=/.*/ b=`{a}` $")
try:
    print(m.parse('{a}x'))
except TatSuException as e:
    print(type(e).__name__, str(e).splitlines()[0])
sys.exit(0)
