"""C01/C07 (fixed): a name bound in the separator of a join/gather was not among the rule's declared keys: it appeared in
the AST only when a separator was matched instead of being None / [] otherwise (docs/ast.rst).  Exits 0 when present."""
import sys

import tatsu

ok = True
for grammar, text, want in (
    ("start = x:'b' (s:',').{ 'a' } $ ;", 'b a', {'x': 'b', 's': None}),
    ("start = x:'b' (s+:',')%{ 'a' }+ $ ;", 'b a', {'x': 'b', 's': []}),
    ("start = x:'b' (s:',').{ 'a' } $ ;", 'b a,a', {'x': 'b', 's': ','}),
):
    got = dict(tatsu.compile(grammar).parse(text))
    print(grammar, repr(text), got)
    ok = ok and got == want
sys.exit(0 if ok else 1)
