"""C02 (known finding): `x:&e` - the model binds the value e produced inside the lookahead, generated parsers bind None.
Exits 1 while the two back-ends differ."""
import sys

import tatsu

G = "start = 'b' x:(&'c') 'c' $ ;"
model = tatsu.compile(G)
ns: dict = {}
exec(compile(tatsu.to_python_sourcecode(G, name='T'), 'generated', 'exec'), ns)  # noqa: S102
want, got = model.parse('b c'), ns['TParser']().parse('b c')
print('model:', want, 'generated:', got)
sys.exit(0 if want == got else 1)
