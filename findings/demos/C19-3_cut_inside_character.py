"""C19: the queue file cut short inside a multi-byte character (or holding corrupted bytes) made receive() raise UnicodeDecodeError
before delivering the complete records in front of it (the reader decodes a 256 KB block at once).  Repaired: the reader opens the
file with errors='replace'; the damaged record fails its checksum / has no newline and is skipped or waited for."""
import sys
import tempfile
from pathlib import Path

from tatsu.packetz.queue import PacketzQueue

p = Path(tempfile.mkdtemp()) / 'q.pkz'
w = PacketzQueue(p)
for d in ('one', 'ünï', 'three'):
    w.send(to='a', data=d)
raw = p.read_bytes()
bad = 0
for what, content, want in (('cut inside a character', raw[:raw.index('ü'.encode()) + 1], ['one']),
                            ('a corrupted byte in the second record', raw.replace('ü'.encode(), b'\xff'), ['one', 'three'])):
    p.write_bytes(content)
    try:
        got = [x.data for x in PacketzQueue(p).receive()]
    except Exception as e:  # noqa: BLE001
        got = f'raises {type(e).__name__}'
    print(what, '->', got)
    bad += got != want
# the record is completed later: delivered once, in order
p.write_bytes(raw[:raw.index('ü'.encode()) + 1])
r = PacketzQueue(p)
first = [x.data for x in r.receive()]
p.write_bytes(raw)
second = [x.data for x in r.receive()]
print('completed later ->', first, second)
bad += (first, second) != (['one'], ['ünï', 'three'])
sys.exit(1 if bad else 0)
