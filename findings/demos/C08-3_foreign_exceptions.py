"""C08: three texts that made compile()/parse() raise an exception that is not TatSu's own (all repaired):
 92892c6  `@override a = >a 'y'`        -> RecursionError while compiling (include cycle)
 a9615bf  `@int` on 5000 digits         -> ValueError (sys.get_int_max_str_digits)
 7da57de  constant `{[1]: 2}`           -> TypeError (unhashable key in literal_eval)"""
import sys

import tatsu
from tatsu.exceptions import TatSuException

CASES = {
    'include cycle': lambda: tatsu.compile("start = a ;\n a = 'x' ;\n@override\na = >a 'y' ;"),
    '@int beyond the digit limit': lambda: tatsu.compile('start = x:@int $ ;').parse('1' * 5000),
    'constant with an unhashable key': lambda: tatsu.compile('start = `{[1]: 2}` ;').parse(''),
}
bad = 0
for what, f in CASES.items():
    try:
        f()
        print(what, '-> result')
    except TatSuException as e:
        print(what, '->', type(e).__name__)
    except BaseException as e:  # noqa: BLE001
        bad += 1
        print(what, '-> FOREIGN', type(e).__name__)
sys.exit(1 if bad else 0)
