"""Static-analysis machinery for the TatSu verification task.

Nothing in this package imports or runs TatSu: every verdict is computed from
the source text under $VERIF_REPO (default /repo).
"""
