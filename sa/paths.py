"""Path-state abstract execution over the structured Python AST.

The client (a `Semantics` subclass) supplies a finite abstract state and the effect of
calls on it; the engine enumerates the outcome set of a function body per exit kind:

    ('next'|'return'|'break'|'continue', state, None)   and   ('raise', state, Exc)

Supported: if/while/for/try(except,else,finally)/with/match/return/raise/break/continue,
`with suppress(...)`, and *inlining of @contextmanager generators* used as `with` items
(the `yield` is the hole where the with-body runs; an exception of the body is thrown at the
yield; a generator that swallows it suppresses it).  Exceptions are abstract tokens bounded
by a class of the static hierarchy; a handler definitely / possibly / never catches a token.
Anything outside the supported statement set raises Unsupported (exit 2), never a guess.
"""
from __future__ import annotations

import ast
from dataclasses import dataclass
from typing import Any, Callable, Iterable

from .calls import Resolver
from .classes import ClassTable
from .loader import EXECUTED, AnalysisError, FuncInfo, Project, dotted, norm

FOREIGN = 'builtins.Exception'  # bound of "some non-TatSu exception"
BASE = 'builtins.BaseException'
PE = 'tatsu.exceptions.ParseException'
FP = 'tatsu.exceptions.FailedParse'


class Unsupported(AnalysisError):
    pass


@dataclass(frozen=True)
class Exc:
    bound: str  # the exception is an instance of this class (or a subclass)
    origin: str = ''  # file:line where it was raised (first)

    def __repr__(self) -> str:
        return f'Exc({self.bound.split(".")[-1]})'


@dataclass(frozen=True)
class Out:
    kind: str  # next return break continue raise
    state: Any
    exc: Exc | None = None
    pend: tuple | None = None  # pending outcome carried through an inlined context manager
    trace: tuple = ()
    value: str = ''  # 'T' / 'F' when a `return True` / `return False` produced this outcome (used for inlined helper tests)


class Semantics:
    """Client interface.  Override what the rule needs."""

    track_trace = False

    def call(self, ex: 'Executor', fn: FuncInfo, node: ast.Call, state: Any) -> Iterable[tuple[str, Any, Exc | None]]:
        """Effect of evaluating one call: iterable of ('next', state, None) / ('raise', state, Exc)."""
        return ex.default_call(fn, node, state)

    def test(self, ex: 'Executor', fn: FuncInfo, test: ast.expr, state: Any) -> tuple[list[Any], list[Any]]:
        """(states when true, states when false)."""
        return [state], [state]

    def stmt(self, ex: 'Executor', fn: FuncInfo, node: ast.stmt, state: Any) -> Any:
        """Hook before a simple statement's calls were evaluated; returns the new state."""
        return state

    def after_stmt(self, ex: 'Executor', fn: FuncInfo, node: ast.stmt, state: Any) -> Any:
        return state

    def inline(self, ex: 'Executor', fn: FuncInfo, node: ast.Call) -> FuncInfo | None:
        """Return the @contextmanager generator to inline for `with <node>:`, or None."""
        r = ex.resolver.resolve_call(fn, node)
        cms = [t for t in r.targets if any(d.split('.')[-1] == 'contextmanager' for d in t.decorators)]
        if r.kind == 'project' and cms:
            real = [t for t in cms if not _is_stub(t)]
            if len(real) == 1:
                return real[0]
            if len(real) > 1:
                raise Unsupported(f'{fn.loc}: ambiguous context manager {dotted(node.func)}: '
                                  f'{[t.qualname for t in real]}')
        return None

    def tracked(self, ex: 'Executor', fn: FuncInfo, node: ast.Call) -> bool:
        """Calls the rule's state depends on; they may not sit in lambdas/comprehensions/short-circuits."""
        return False


def _is_stub(f: FuncInfo) -> bool:
    body = [s for s in f.node.body if not (isinstance(s, ast.Expr) and isinstance(s.value, ast.Constant))]
    return not body or all(isinstance(s, ast.Pass) for s in body)


class Executor:
    MAX_LOOP_STATES = 48
    MAX_INLINE = 6
    CONTAINED = frozenset({'tatsu.exceptions.OptionSucceeded'})

    def __init__(self, project: Project, ct: ClassTable, resolver: Resolver, sem: Semantics,
                 raises: 'RaiseSummary | None' = None):
        self.p = project
        self.ct = ct
        self.resolver = resolver
        self.sem = sem
        self.raises = raises
        self.functions_run: set[str] = set()
        self.statements = 0
        from .extent import Extents
        self.extents = _shared_extents(project)
        self.root: FuncInfo | None = None

    def in_extent(self, f: FuncInfo) -> bool:
        """f is the function the run started at, or a private helper that exists only for it (inlined by the executor)"""
        f = getattr(f, '_specialised_from', f)
        return self.root is not None and (any(f is x for x in self.extents.of(self.root)) or f.qualname in self._shared_inlined)

    _shared_inlined: set = set()

    _spec_cache: dict = {}

    def _specialise(self, helper: FuncInfo, call: ast.Call, caller: FuncInfo) -> FuncInfo:
        """The helper with its parameters replaced by the argument expressions of this call, where the argument is a STABLE
        expression: the receiver itself (`self` / `ctx`) or an attribute chain rooted at it (`self.states.undo`, a bound method
        handed over as a value).  `_leave(ctx, leave)` called as `_leave(self, self.states.merge)` is then read as the code a
        maintainer moved out: `self.state...`, `self.states.merge()`.  Parameters the helper assigns to are left alone."""
        params = [x.arg for x in helper.node.args.args]
        is_method_call = isinstance(call.func, ast.Attribute)
        if is_method_call and helper.cls is not None:
            params = params[1:]  # self is bound by the call
        stored = {n.id for n in ast.walk(helper.node) if isinstance(n, ast.Name) and isinstance(n.ctx, (ast.Store, ast.Del))}
        mapping: dict[str, ast.expr] = {}

        def stable(e: ast.expr) -> bool:
            if isinstance(e, ast.Constant) and isinstance(e.value, (str, bool, int, type(None))):
                return True  # a selector handed over as a literal: _leave(self, 'undo') ... getattr(ctx.states, how)()
            while isinstance(e, ast.Attribute):
                e = e.value
            return isinstance(e, ast.Name) and e.id in ('self', 'ctx', 'cls')
        for prm, arg in zip(params, call.args):
            if prm not in stored and stable(arg) and not (isinstance(arg, ast.Name) and arg.id == prm):
                mapping[prm] = arg
        for k in call.keywords:
            if k.arg in params and k.arg not in stored and stable(k.value) and not (isinstance(k.value, ast.Name) and k.value.id == k.arg):
                mapping[k.arg] = k.value
        if not mapping:
            return helper
        key = (helper.qualname, tuple(sorted((k, ast.dump(v)) for k, v in mapping.items())))
        hit = self._spec_cache.get(key)
        if hit is not None:
            return hit
        import copy as _copy

        class Sub(ast.NodeTransformer):
            def visit_Name(self, n):
                if isinstance(n.ctx, ast.Load) and n.id in mapping:
                    return ast.copy_location(_copy.deepcopy(mapping[n.id]), n)
                return n

            def visit_FunctionDef(self, n):
                return n if n is not node else self.generic_visit(n)
            visit_Lambda = visit_AsyncFunctionDef = visit_FunctionDef
        class GetAttr(ast.NodeTransformer):
            """getattr(<e>, '<name>') -> <e>.<name>, once the name is a literal"""
            def visit_Call(self, n):
                self.generic_visit(n)
                if isinstance(n.func, ast.Name) and n.func.id == 'getattr' and len(n.args) == 2 and not n.keywords \
                        and isinstance(n.args[1], ast.Constant) and isinstance(n.args[1].value, str) and n.args[1].value.isidentifier():
                    return ast.copy_location(ast.Attribute(value=n.args[0], attr=n.args[1].value, ctx=ast.Load()), n)
                return n
        node = _copy.deepcopy(helper.node)
        node.body = [GetAttr().visit(Sub().visit(st)) for st in node.body]
        ast.fix_missing_locations(node)
        clone = FuncInfo(helper.qualname, helper.module, node, helper.cls, helper.parent)
        object.__setattr__(clone, '_specialised_from', helper)
        self._spec_cache[key] = clone
        return clone

    # ------------------------------------------------------------ exceptions
    def exc_class(self, fn: FuncInfo, node: ast.expr) -> list[str]:
        """Classes named by a handler type expression."""
        if isinstance(node, ast.Tuple):
            out: list[str] = []
            for e in node.elts:
                out.extend(self.exc_class(fn, e))
            return out
        if isinstance(node, ast.BinOp) and isinstance(node.op, ast.BitOr):
            return self.exc_class(fn, node.left) + self.exc_class(fn, node.right)
        if isinstance(node, ast.Name) and node.id in fn.module.assigns and isinstance(fn.module.assigns[node.id], (ast.Tuple, ast.BinOp)):
            # a module-level constant holding the classes: _CORRUPT_ROW_ERRORS = (BadPacketError, ValueError, ...)
            return self.exc_class(fn, fn.module.assigns[node.id])
        q = self.p.resolve_expr(fn.module, node)
        # follow module-level aliases such as FailedKeywordSemantics = KeywordError
        return [q]

    def catches(self, handler_cls: str, exc: Exc) -> str:
        """'yes' | 'maybe' | 'no'"""
        if handler_cls in self.ct.mro(exc.bound):
            return 'yes'
        if handler_cls in self.CONTAINED:
            # control exception raised only by its owner and contained lexically (rule C01.R1c):
            # an exception of unknown origin is never that one
            return 'no'
        if exc.bound in self.ct.mro(handler_cls):
            return 'maybe'
        return 'no'

    # ------------------------------------------------------------------ calls
    def default_call(self, fn: FuncInfo, node: ast.Call, state: Any):
        yield ('next', state, None)
        for tok in self.call_raises(fn, node):
            yield ('raise', state, tok)

    def call_raises(self, fn: FuncInfo, node: ast.Call) -> set[Exc]:
        r = self.resolver.resolve_call(fn, node)
        origin = f'{fn.module.relpath}:{node.lineno}'
        if r.kind == 'unresolved':
            return {Exc(PE, origin), Exc(FOREIGN, origin)}
        if r.kind == 'external':
            return set()
        out: set[Exc] = set()
        if self.raises is not None:
            import os
            dbg = os.environ.get('SA_DEBUG_ORIGIN')
            for t in r.targets:
                if dbg:
                    out |= {Exc(e.bound, f'{e.origin} <- {t.qualname}@{origin}') for e in self.raises.of(t)}
                else:
                    out |= self.raises.of(t)
        else:
            out = {Exc(PE, origin), Exc(FOREIGN, origin)}
        return out

    def raise_token(self, fn: FuncInfo, node: ast.expr, handling: Exc | None, binds: dict[str, Exc]) -> Exc:
        origin = f'{fn.module.relpath}:{node.lineno}'
        if isinstance(node, ast.Name):
            if node.id in binds:
                return binds[node.id]
            q = self.p.resolve(fn.module.name, node.id)
            if q in self.p.classes or q.startswith('builtins.') and q.split('.')[-1][:1].isupper():
                return Exc(q, origin)
            t = self.resolver.expr_type(fn, node)
            if t and BASE in self.ct.mro(t):
                return Exc(t, origin)
            return Exc(FOREIGN if not self._maybe_parse_exc(fn, node.id) else PE, origin)
        if isinstance(node, ast.Call):
            f = node.func
            fname = f.attr if isinstance(f, ast.Attribute) else (f.id if isinstance(f, ast.Name) else '')
            if fname == 'newexcept':
                cls = None
                if len(node.args) >= 2:
                    cls = node.args[1]
                for kw in node.keywords:
                    if kw.arg == 'excls':
                        cls = kw.value
                if cls is None:
                    return Exc(FP, origin)
                return Exc(self.p.resolve_expr(fn.module, cls), origin)
            if fname == 'expectedexcept':
                return Exc(FP, origin)
            q = self.p.resolve_expr(fn.module, f) if isinstance(f, (ast.Name, ast.Attribute)) else '?'
            if q in self.p.classes and BASE in self.ct.mro(q):
                return Exc(q, origin)
            if q.startswith('builtins.') and (q.endswith('Error') or q.endswith('Exception')):
                return Exc(q, origin)
            r = self.resolver.resolve_call(fn, node)
            for t in r.targets:
                if t.node.returns is not None:
                    ty = self.resolver.class_of_annotation(t, ast.unparse(t.node.returns))
                    if ty and BASE in self.ct.mro(ty):
                        return Exc(ty, origin)
            return Exc(FOREIGN, origin)
        return Exc(FOREIGN, origin)

    def _maybe_parse_exc(self, fn: FuncInfo, name: str) -> bool:
        """`raise result` where result was tested with isinstance(result, Exception) — stored outcome."""
        for n in ast.walk(fn.node):
            if (isinstance(n, ast.Call) and isinstance(n.func, ast.Name) and n.func.id == 'isinstance'
                    and len(n.args) == 2 and isinstance(n.args[0], ast.Name) and n.args[0].id == name):
                return True
        return False

    # -------------------------------------------------------------- execution
    def run(self, fn: FuncInfo, state: Any, hole: Callable[[Any], set[Out]] | None = None, depth: int = 0) -> set[Out]:
        """Outcomes of the body of FN from STATE.  `next` outcomes are converted to `return`."""
        self.functions_run.add(fn.qualname)
        EXECUTED.add(fn.qualname)
        if depth == 0:
            self.root = fn
            self._shared_inlined = set()
        ctx = _Ctx(fn=fn, hole=hole, depth=depth, handling=None, binds={})
        outs = self.block(ctx, fn.node.body, {(state, None)})
        res: set[Out] = set()
        for o in outs:
            if o.kind == 'next':
                res.add(Out('return', o.state, None, o.pend, o.trace))
            elif o.kind in ('break', 'continue'):
                raise Unsupported(f'{fn.loc}: {o.kind} escapes function body')
            else:
                res.add(o)
        return res

    def block(self, ctx: '_Ctx', stmts: list[ast.stmt], confs: set[tuple[Any, tuple | None]]) -> set[Out]:
        result: set[Out] = set()
        cur = set(confs)
        for s in stmts:
            if not cur:
                break
            nxt: set[tuple[Any, tuple | None]] = set()
            for (st, pend) in cur:
                for o in self.stmt(ctx, s, st, pend):
                    if o.kind == 'next':
                        nxt.add((o.state, o.pend))
                    else:
                        result.add(o)
            cur = nxt
        for (st, pend) in cur:
            result.add(Out('next', st, None, pend))
        return result

    def eval(self, ctx: '_Ctx', expr: ast.AST | None, state: Any, pend) -> set[Out]:
        """Evaluate the calls inside EXPR in evaluation order."""
        if expr is None:
            return {Out('next', state, None, pend)}
        calls = list(_calls_in_order(expr))
        cur = {state}
        res: set[Out] = set()
        for call, guarded in calls:
            if guarded and self.sem.tracked(self, ctx.fn, call):
                raise Unsupported(f'{ctx.fn.module.relpath}:{call.lineno}: tracked call '
                                  f'{dotted(call.func)} inside lambda/comprehension/short-circuit')
            nxt = set()
            helper = self._helper(ctx, call)
            for st in cur:
                if helper is not None:
                    # a private helper that exists only for the root function: its body is executed in place
                    for o in self.run(helper, st, depth=ctx.depth + 1):
                        if o.kind == 'return':
                            nxt.add(o.state)
                        elif o.kind == 'raise':
                            res.add(Out('raise', o.state, o.exc, pend))
                        else:
                            raise Unsupported(f'{helper.loc}: {o.kind} out of an inlined helper')
                    continue
                for kind, st2, exc in self.sem.call(self, ctx.fn, call, st):
                    if kind == 'next':
                        nxt.add(st2)
                    else:
                        res.add(Out('raise', st2, exc, pend))
            cur = nxt
        for st in cur:
            res.add(Out('next', st, None, pend))
        return res

    def _helper(self, ctx: '_Ctx', call: ast.Call) -> FuncInfo | None:
        if self.root is None or ctx.depth >= self.MAX_INLINE or ctx.hole is not None and False:
            return None
        if not getattr(self.sem, 'inline_helpers', True):
            return None
        cur = getattr(ctx.fn, '_specialised_from', ctx.fn)
        h = self.extents.helper_for_call(self.root, cur, call)
        if h is None:
            # a private helper SHARED by several functions (group() and skipgroup() both leave through _leave_keeping_cut): it is
            # not part of any one function's ownership extent, but its body runs in place all the same
            h = self.extents.shared_helper_for_call(cur, call)
            if h is not None:
                self._shared_inlined.add(h.qualname)
        if h is None or h is cur:
            return None
        return self._specialise(h, call, ctx.fn)

    def _then(self, outs: set[Out], k: Callable[[Any, Any], set[Out]]) -> set[Out]:
        res: set[Out] = set()
        for o in outs:
            if o.kind == 'next':
                res |= k(o.state, o.pend)
            else:
                res.add(o)
        return res

    def stmt(self, ctx: '_Ctx', s: ast.stmt, state: Any, pend) -> set[Out]:
        self.statements += 1
        fn = ctx.fn
        if isinstance(s, (ast.Expr, ast.Assign, ast.AugAssign, ast.AnnAssign, ast.Delete)):
            state = self.sem.stmt(self, fn, s, state)
            value = s.value if not isinstance(s, ast.Delete) else None
            if isinstance(value, (ast.Yield, ast.YieldFrom)):
                if isinstance(value, ast.YieldFrom):
                    outs = self.eval(ctx, value.value, state, pend)
                    return outs
                outs = self.eval(ctx, value.value, state, pend)
                return self._then(outs, lambda st, pd: self._yield(ctx, s, st, pd))
            outs = self.eval(ctx, s, state, pend)
            return self._then(outs, lambda st, pd: {Out('next', self.sem.after_stmt(self, fn, s, st), None, pd)})
        if isinstance(s, ast.Return):
            outs = self.eval(ctx, s.value, state, pend)
            val = ('T' if s.value.value else 'F') if isinstance(s.value, ast.Constant) and isinstance(s.value.value, bool) else ''
            return self._then(outs, lambda st, pd: {Out('return', st, None, pd, (), val)})
        if isinstance(s, ast.Raise):
            if s.exc is None:
                tok = ctx.handling or Exc('builtins.RuntimeError')
                return {Out('raise', state, tok, pend)}
            outs = self.eval(ctx, s.exc, state, pend)
            if s.cause is not None:
                outs = self._then(outs, lambda st, pd: self.eval(ctx, s.cause, st, pd))
            tok = self.raise_token(fn, s.exc, ctx.handling, ctx.binds)
            return self._then(outs, lambda st, pd: {Out('raise', st, tok, pd)})
        if isinstance(s, ast.Assert):
            outs = self.eval(ctx, s.test, state, pend)
            res = set(outs)
            for o in outs:
                if o.kind == 'next':
                    res.add(Out('raise', o.state, Exc('builtins.AssertionError'), o.pend))
            return res
        if isinstance(s, (ast.Pass, ast.Import, ast.ImportFrom, ast.Global, ast.Nonlocal,
                          ast.FunctionDef, ast.AsyncFunctionDef, ast.ClassDef, ast.TypeAlias)):
            return {Out('next', state, None, pend)}
        if isinstance(s, ast.Break):
            return {Out('break', state, None, pend)}
        if isinstance(s, ast.Continue):
            return {Out('continue', state, None, pend)}
        if isinstance(s, ast.If):
            return self._if(ctx, s, state, pend)
        if isinstance(s, ast.While):
            return self._loop(ctx, s, s.test, None, state, pend)
        if isinstance(s, ast.For):
            return self._loop(ctx, s, None, s.iter, state, pend)
        if isinstance(s, ast.Try):
            return self._try(ctx, s, state, pend)
        if isinstance(s, ast.With):
            return self._with(ctx, s, 0, state, pend)
        if isinstance(s, ast.Match):
            return self._match(ctx, s, state, pend)
        raise Unsupported(f'{fn.module.relpath}:{s.lineno}: statement kind {type(s).__name__} not supported')

    def _yield(self, ctx: '_Ctx', s: ast.stmt, state: Any, pend) -> set[Out]:
        if ctx.hole is None:
            # plain generator (not inlined): the consumer may do anything between resumptions
            return {Out('next', state, None, pend)}
        res: set[Out] = set()
        for o in ctx.hole(state):
            if o.kind == 'next':
                res.add(Out('next', o.state, None, o.pend))
            elif o.kind == 'raise':
                res.add(Out('raise', o.state, o.exc, o.pend))
            else:
                # return/break/continue in the with-body: generator resumes normally, outcome pends
                if o.pend is not None:
                    raise Unsupported(f'{ctx.fn.loc}: nested pending outcomes')
                res.add(Out('next', o.state, None, (o.kind,)))
        return res

    def _sem_test(self, fn, test, state):
        """sem.test with `not` stripped: the hook sees the positive test, the verdict lists are swapped"""
        neg = False
        while isinstance(test, ast.UnaryOp) and isinstance(test.op, ast.Not):
            neg = not neg
            test = test.operand
        t, f = self.sem.test(self, fn, test, state)
        return (f, t) if neg else (t, f)

    def _helper_test(self, ctx, test, state, pend):
        """TEST is `helper(...)` or `not helper(...)` for an inlined helper: (outcomes that are not a plain continuation,
        states on which the test is true, states on which it is false) using the constants the helper returns; None otherwise"""
        neg = False
        e = test
        while isinstance(e, ast.UnaryOp) and isinstance(e.op, ast.Not):
            neg = not neg
            e = e.operand
        if not isinstance(e, ast.Call):
            return None
        helper = self._helper(ctx, e)
        if helper is None:
            return None
        other: set[Out] = set()
        cur = {state}
        for arg in [*e.args, *[k.value for k in e.keywords]]:
            nxt = set()
            for st in cur:
                for o in self.eval(ctx, arg, st, pend):
                    if o.kind == 'next':
                        nxt.add(o.state)
                    else:
                        other.add(o)
            cur = nxt
        tr: set = set()
        fa: set = set()
        for st in cur:
            for o in self.run(helper, st, depth=ctx.depth + 1):
                if o.kind == 'return':
                    v = o.value
                    if neg and v:
                        v = 'F' if v == 'T' else 'T'
                    if v in ('T', ''):
                        tr.add(o.state)
                    if v in ('F', ''):
                        fa.add(o.state)
                elif o.kind == 'raise':
                    other.add(Out('raise', o.state, o.exc, pend))
                else:
                    raise Unsupported(f'{helper.loc}: {o.kind} out of an inlined helper')
        return other, tr, fa

    def _if(self, ctx, s: ast.If, state, pend) -> set[Out]:
        ht = self._helper_test(ctx, s.test, state, pend)
        if ht is not None:
            other, tr, fa = ht
            res = set(other)
            if tr:
                res |= self.block(ctx, s.body, {(x, pend) for x in tr})
            if fa:
                res |= self.block(ctx, s.orelse, {(x, pend) for x in fa})
            return res
        outs = self.eval(ctx, s.test, state, pend)

        def k(st, pd):
            t, f = self._sem_test(ctx.fn, s.test, st)
            res = set()
            if t:
                res |= self.block(ctx, s.body, {(x, pd) for x in t})
            if f:
                res |= self.block(ctx, s.orelse, {(x, pd) for x in f})
            return res

        return self._then(outs, k)

    def _loop(self, ctx, s, test, it, state, pend) -> set[Out]:
        res: set[Out] = set()
        infinite = test is not None and isinstance(test, ast.Constant) and bool(test.value)
        if it is not None:
            first = self.eval(ctx, it, state, pend)
        else:
            first = {Out('next', state, None, pend)}
        heads: set[tuple[Any, Any]] = set()
        work: list[tuple[Any, Any]] = []
        for o in first:
            if o.kind == 'next':
                work.append((o.state, o.pend))
            else:
                res.add(o)
        exits: set[tuple[Any, Any]] = set()
        while work:
            conf = work.pop()
            if conf in heads:
                continue
            heads.add(conf)
            if len(heads) > self.MAX_LOOP_STATES:
                raise Unsupported(f'{ctx.fn.module.relpath}:{s.lineno}: abstract state does not stabilise in loop '
                                  f'(more than {self.MAX_LOOP_STATES} head states)')
            st, pd = conf
            ht = self._helper_test(ctx, test, st, pd) if test is not None else None
            if ht is not None:
                other, tr, fa = ht
                res |= other
                entered = {(x, pd) for x in tr}
                if not infinite:
                    exits |= {(x, pd) for x in fa}
            elif test is not None:
                touts = self.eval(ctx, test, st, pd)
                entered: set[tuple[Any, Any]] = set()
                for o in touts:
                    if o.kind != 'next':
                        res.add(o)
                        continue
                    t, f = self._sem_test(ctx.fn, test, o.state)
                    for x in t:
                        entered.add((x, o.pend))
                    if not infinite:
                        for x in f:
                            exits.add((x, o.pend))
            else:
                entered = {conf}
                exits.add(conf)  # iterator exhausted
            if not entered:
                continue
            for o in self.block(ctx, s.body, entered):
                if o.kind in ('next', 'continue'):
                    work.append((o.state, o.pend))
                elif o.kind == 'break':
                    res.add(Out('next', o.state, None, o.pend))
                else:
                    res.add(o)
        if exits:
            if s.orelse:
                res |= self.block(ctx, s.orelse, exits)
            else:
                for st, pd in exits:
                    res.add(Out('next', st, None, pd))
        return res

    def _try(self, ctx, s: ast.Try, state, pend) -> set[Out]:
        body = self.block(ctx, s.body, {(state, pend)})
        after: set[Out] = set()
        for o in body:
            if o.kind == 'next' and s.orelse:
                after |= self.block(ctx, s.orelse, {(o.state, o.pend)})
            elif o.kind == 'raise' and s.handlers:
                after |= self._handle(ctx, s.handlers, o)
            else:
                after.add(o)
        if not s.finalbody:
            return after
        res: set[Out] = set()
        for o in after:
            fouts = self.block(ctx, s.finalbody, {(o.state, o.pend)})
            for f in fouts:
                if f.kind == 'next':
                    res.add(Out(o.kind, f.state, o.exc, f.pend))
                else:
                    res.add(f)
        return res

    def _handle(self, ctx, handlers: list[ast.ExceptHandler], o: Out) -> set[Out]:
        res: set[Out] = set()
        remaining: Exc | None = o.exc
        for h in handlers:
            if remaining is None:
                break
            if h.type is None:
                verdict, caught = 'yes', remaining
            else:
                verdict = 'no'
                caught = remaining
                for hc in self.exc_class(ctx.fn, h.type):
                    v = self.catches(hc, remaining)
                    if v == 'yes':
                        verdict, caught = 'yes', remaining
                        break
                    if v == 'maybe' and verdict == 'no':
                        verdict, caught = 'maybe', Exc(hc, remaining.origin)
            if verdict == 'no':
                continue
            binds = dict(ctx.binds)
            if h.name:
                binds[h.name] = caught
            hctx = _Ctx(fn=ctx.fn, hole=ctx.hole, depth=ctx.depth, handling=caught, binds=binds)
            res |= self.block(hctx, h.body, {(o.state, o.pend)})
            if verdict == 'yes':
                remaining = None
        if remaining is not None:
            res.add(Out('raise', o.state, remaining, o.pend))
        return res

    def _with(self, ctx, s: ast.With, i: int, state, pend) -> set[Out]:
        if i >= len(s.items):
            return self.block(ctx, s.body, {(state, pend)})
        item = s.items[i]
        ce = item.context_expr
        inner = lambda st, pd: self._with(ctx, s, i + 1, st, pd)  # noqa: E731
        fn = ctx.fn
        if isinstance(ce, ast.Call):
            fname = dotted(ce.func)
            if fname.split('.')[-1] == 'suppress':
                classes: list[str] = []
                for a in ce.args:
                    classes.extend(self.exc_class(fn, a))
                res: set[Out] = set()
                for o in inner(state, pend):
                    if o.kind != 'raise':
                        res.add(o)
                        continue
                    verdicts = [self.catches(c, o.exc) for c in classes]
                    if 'yes' in verdicts:
                        res.add(Out('next', o.state, None, o.pend))
                    elif 'maybe' in verdicts:
                        res.add(Out('next', o.state, None, o.pend))
                        res.add(o)
                    else:
                        res.add(o)
                return res
            target = self.sem.inline(self, fn, ce)
            if target is not None:
                if ctx.depth >= self.MAX_INLINE:
                    raise Unsupported(f'{fn.loc}: context-manager inlining deeper than {self.MAX_INLINE}')
                # evaluate argument calls first
                pre = set()
                for a in [*ce.args, *[k.value for k in ce.keywords]]:
                    pre_outs = self.eval(ctx, a, state, pend)
                    pre |= {o for o in pre_outs if o.kind != 'next'}
                hole_pend = pend

                def hole(st):
                    return inner(st, None)

                res = set(pre)
                self.sem_enter_inline(fn, ce, target)
                for o in self.run(target, self.sem_bind_inline(fn, ce, target, state), hole=hole, depth=ctx.depth + 1):
                    if o.kind == 'return':
                        if o.pend is not None:
                            res.add(Out(o.pend[0], o.state, None, hole_pend))
                        else:
                            res.add(Out('next', o.state, None, hole_pend))
                    elif o.kind == 'raise':
                        res.add(Out('raise', o.state, o.exc, hole_pend))
                    else:
                        raise Unsupported(f'{target.loc}: {o.kind} out of context manager')
                return res
            if fname.split('.')[-1] == 'ExitStack' and isinstance(item.optional_vars, ast.Name):
                # with ExitStack() as st: ... st.callback(f) ...   - the registered callbacks run, last first, on every exit
                stname = item.optional_vars.id
                cbs: list[ast.expr] = []
                for stmt_ in s.body:
                    for n in ast.walk(stmt_) if isinstance(stmt_, ast.Expr) else []:
                        if isinstance(n, ast.Call) and isinstance(n.func, ast.Attribute) and n.func.attr == 'callback' \
                                and isinstance(n.func.value, ast.Name) and n.func.value.id == stname and n.args:
                            cb = n.args[0]
                            cbs.append(cb.body if isinstance(cb, ast.Lambda) else ast.copy_location(ast.Call(func=cb, args=list(n.args[1:]), keywords=[]), n))
                res = set()
                for o in inner(state, pend):
                    confs = {(o.state, None)}
                    failed: set[Out] = set()
                    for cb in reversed(cbs):
                        nxt = set()
                        for st_, _pd in confs:
                            for o2 in self.eval(ctx, cb, st_, None):
                                if o2.kind == 'next':
                                    nxt.add((o2.state, None))
                                else:
                                    failed.add(Out(o2.kind, o2.state, o2.exc, o.pend))
                        confs = nxt
                    res |= failed
                    for st_, _pd in confs:
                        res.add(Out(o.kind, st_, o.exc, o.pend, o.trace, o.value))
                return res
        # generic context manager: evaluate the expression, no suppression
        outs = self.eval(ctx, ce, state, pend)
        return self._then(outs, inner)

    # hooks for clients that bind arguments of inlined managers (e.g. statescope(merge=False))
    def sem_enter_inline(self, fn, call, target) -> None:
        h = getattr(self.sem, 'enter_inline', None)
        if h:
            h(self, fn, call, target)

    def sem_bind_inline(self, fn, call, target, state):
        h = getattr(self.sem, 'bind_inline', None)
        if h:
            return h(self, fn, call, target, state)
        return state

    def _match(self, ctx, s: ast.Match, state, pend) -> set[Out]:
        outs = self.eval(ctx, s.subject, state, pend)

        def k(st, pd):
            res: set[Out] = set()
            irrefutable = False
            for case in s.cases:
                g = self.eval(ctx, case.guard, st, pd) if case.guard is not None else {Out('next', st, None, pd)}
                res |= self._then(g, lambda st2, pd2: self.block(ctx, case.body, {(st2, pd2)}))
                pat = case.pattern
                if case.guard is None and (
                        (isinstance(pat, ast.MatchAs) and pat.pattern is None)):
                    irrefutable = True
                    break
            if not irrefutable:
                res.add(Out('next', st, None, pd))
            return res

        return self._then(outs, k)


_EXTENTS: dict[int, Any] = {}


def _shared_extents(project: Project):
    from .extent import Extents
    e = _EXTENTS.get(id(project))
    if e is None:
        e = _EXTENTS[id(project)] = Extents(project)
    return e


@dataclass
class _Ctx:
    fn: FuncInfo
    hole: Callable | None
    depth: int
    handling: Exc | None
    binds: dict


def _calls_in_order(node: ast.AST, guarded: bool = False):
    """Yield (Call, guarded) in approximate evaluation order.  guarded = evaluated conditionally or
    repeatedly (short-circuit operand, conditional expression arm, comprehension element)."""
    if isinstance(node, (ast.Lambda, ast.FunctionDef, ast.AsyncFunctionDef, ast.ClassDef)):
        return
    if isinstance(node, ast.BoolOp):
        for j, v in enumerate(node.values):
            yield from _calls_in_order(v, guarded or j > 0)
        return
    if isinstance(node, ast.IfExp):
        yield from _calls_in_order(node.test, guarded)
        yield from _calls_in_order(node.body, True)
        yield from _calls_in_order(node.orelse, True)
        return
    if isinstance(node, (ast.ListComp, ast.SetComp, ast.GeneratorExp, ast.DictComp)):
        for j, gen in enumerate(node.generators):
            yield from _calls_in_order(gen.iter, guarded or j > 0)
            for c in gen.ifs:
                yield from _calls_in_order(c, True)
        if isinstance(node, ast.DictComp):
            yield from _calls_in_order(node.key, True)
            yield from _calls_in_order(node.value, True)
        else:
            yield from _calls_in_order(node.elt, True)
        return
    if isinstance(node, ast.Call):
        yield from _calls_in_order(node.func, guarded)
        for a in node.args:
            yield from _calls_in_order(a, guarded)
        for k in node.keywords:
            yield from _calls_in_order(k.value, guarded)
        yield (node, guarded)
        return
    for child in ast.iter_child_nodes(node):
        yield from _calls_in_order(child, guarded)


class UnitSem(Semantics):
    pass


class RaiseSummary:
    """May-raise summaries: the set of exception tokens a function can let escape,
    computed by running the executor itself (so local handlers are honoured)."""

    def __init__(self, project: Project, ct: ClassTable, resolver: Resolver):
        self.p = project
        self.ct = ct
        self.resolver = resolver
        self.memo: dict[str, frozenset[Exc]] = {}
        self.active: set[str] = set()
        self.incomplete: set[str] = set()

    def of(self, fn: FuncInfo) -> frozenset[Exc]:
        q = fn.qualname
        if q in self.memo:
            return self.memo[q]
        if q in self.active:
            # recursion: conservative (may raise anything), never memoised for the cycle head
            return frozenset({Exc(PE), Exc(FOREIGN)})
        if _is_stub(fn):
            self.memo[q] = frozenset()
            return self.memo[q]
        self.active.add(q)
        try:
            ex = Executor(self.p, self.ct, self.resolver, UnitSem(), raises=self)
            try:
                outs = ex.run(fn, ())
                cur = frozenset(_norm_tok(o.exc) for o in outs if o.kind == 'raise')
            except (Unsupported, RecursionError):
                cur = frozenset({Exc(PE), Exc(FOREIGN)})
            self.memo[q] = cur
            return cur
        finally:
            self.active.discard(q)


def _norm_tok(e: Exc) -> Exc:
    import os
    return e if os.environ.get('SA_DEBUG_ORIGIN') else Exc(e.bound, '')
