"""Parse every module of the analysed package and index defs/classes/imports.

Fail-closed: a module that does not parse raises AnalysisError (exit 2).
"""
from __future__ import annotations

import ast
import hashlib
import os
from dataclasses import dataclass, field
from pathlib import Path
from typing import Iterator


class AnalysisError(Exception):
    """The analysis itself could not run (anchor vanished, unsupported construct)."""


def repo_root() -> Path:
    return Path(os.environ.get('VERIF_REPO', '/repo'))


@dataclass
class FuncInfo:
    qualname: str  # tatsu.contexts.core.ParserCore.statescope
    module: 'Module'
    node: ast.FunctionDef | ast.AsyncFunctionDef
    cls: 'ClassInfo | None'
    parent: 'FuncInfo | None' = None

    @property
    def name(self) -> str:
        return self.node.name

    @property
    def decorators(self) -> list[str]:
        return [dotted(d.func if isinstance(d, ast.Call) else d) for d in self.node.decorator_list]

    @property
    def loc(self) -> str:
        return f'{self.module.relpath}:{self.node.lineno}'

    @property
    def params(self) -> list[str]:
        a = self.node.args
        return [x.arg for x in (*a.posonlyargs, *a.args, *a.kwonlyargs)]

    def param_annotation(self, name: str) -> str | None:
        a = self.node.args
        for x in (*a.posonlyargs, *a.args, *a.kwonlyargs):
            if x.arg == name and x.annotation is not None:
                return ann_text(x.annotation)
        return None


@dataclass
class ClassInfo:
    qualname: str
    module: 'Module'
    node: ast.ClassDef
    methods: dict[str, FuncInfo] = field(default_factory=dict)
    # class-level simple assignments  name -> value node
    assigns: dict[str, ast.expr] = field(default_factory=dict)
    annotations: dict[str, str] = field(default_factory=dict)
    bases: list[str] = field(default_factory=list)  # resolved qualified names

    @property
    def name(self) -> str:
        return self.node.name

    @property
    def loc(self) -> str:
        return f'{self.module.relpath}:{self.node.lineno}'

    @property
    def decorators(self) -> list[str]:
        return [dotted(d.func if isinstance(d, ast.Call) else d) for d in self.node.decorator_list]


@dataclass
class Module:
    name: str
    path: Path
    relpath: str
    source: str
    tree: ast.Module
    is_pkg: bool
    imports: dict[str, str] = field(default_factory=dict)  # local name -> qualified target
    star_imports: list[str] = field(default_factory=list)  # qualified module names
    functions: dict[str, FuncInfo] = field(default_factory=dict)  # top-level
    classes: dict[str, ClassInfo] = field(default_factory=dict)
    assigns: dict[str, ast.expr] = field(default_factory=dict)  # module-level NAME = value
    all_names: list[str] | None = None

    @property
    def lines(self) -> list[str]:
        return self.source.splitlines()

    def seg(self, node: ast.AST) -> str:
        return ast.get_source_segment(self.source, node) or ''


def dotted(node: ast.AST) -> str:
    if isinstance(node, ast.Name):
        return node.id
    if isinstance(node, ast.Attribute):
        return dotted(node.value) + '.' + node.attr
    if isinstance(node, ast.Call):
        return dotted(node.func) + '()'
    if isinstance(node, ast.Subscript):
        return dotted(node.value) + '[]'
    return '?'


def ann_text(node: ast.expr) -> str:
    if isinstance(node, ast.Constant) and isinstance(node.value, str):
        return node.value
    return ast.unparse(node)


def norm(node: ast.AST | str) -> str:
    """Normalised statement text (line numbers / formatting independent)."""
    if isinstance(node, str):
        try:
            node = ast.parse(node)
        except SyntaxError:
            return ' '.join(node.split())
    return ' '.join(ast.unparse(node).split())


EXECUTED: set[str] = set()  # qualnames of repo functions executed abstractly (paths) or interpreted (minieval / modelinterp)
ANCHORED: set[str] = set()  # qualnames a rule asked for by name (Project.func): the rule's anchors
CONSULTED: set[str] = set()  # qualnames of repo functions a rule looked up by name, executed abstractly or interpreted (not: merely scanned)


class _FuncTable(dict):
    """p.functions: lookups by name are recorded (iteration is a scan and is not)."""

    def __getitem__(self, k):
        v = dict.__getitem__(self, k)
        CONSULTED.add(k)
        return v

    def get(self, k, default=None):
        if dict.__contains__(self, k):
            CONSULTED.add(k)
            return dict.__getitem__(self, k)
        return default


class Project:
    def __init__(self, root: Path | None = None, package: str = 'tatsu'):
        self.root = Path(root) if root else repo_root()
        self.package = package
        self.modules: dict[str, Module] = {}
        self.functions: dict[str, FuncInfo] = _FuncTable()
        self.classes: dict[str, ClassInfo] = {}
        self._load()
        self._index()

    # ---------------------------------------------------------------- loading
    def _load(self) -> None:
        pkgdir = self.root / self.package
        if not pkgdir.is_dir():
            raise AnalysisError(f'package directory missing: {pkgdir}')
        for path in sorted(pkgdir.rglob('*.py')):
            rel = path.relative_to(self.root)
            parts = list(rel.with_suffix('').parts)
            is_pkg = parts[-1] == '__init__'
            if is_pkg:
                parts = parts[:-1]
            name = '.'.join(parts)
            src = path.read_text(encoding='utf-8')
            try:
                tree = ast.parse(src, filename=str(path))
            except SyntaxError as e:
                raise AnalysisError(f'{rel}: does not parse: {e}') from e
            normalise_test_temporaries(tree)
            normalise_aliases(tree)
            self.modules[name] = Module(name, path, str(rel), src, tree, is_pkg)

    def digest(self) -> str:
        h = hashlib.sha256()
        for m in self.modules.values():
            h.update(m.relpath.encode())
            h.update(m.source.encode())
        return h.hexdigest()[:16]

    def _abs_module(self, mod: Module, level: int, name: str | None) -> str:
        if level == 0:
            return name or ''
        base = mod.name.split('.')
        if not mod.is_pkg:
            base = base[:-1]
        if level > 1:
            base = base[: len(base) - (level - 1)]
        return '.'.join([*base, *(name.split('.') if name else [])])

    def _index(self) -> None:
        for mod in self.modules.values():
            self._index_module(mod)
        for cls in self.classes.values():
            cls.bases = [self.resolve_expr(cls.module, b) for b in cls.node.bases]

    def _index_module(self, mod: Module) -> None:
        for node in mod.tree.body:
            self._index_stmt(mod, node)

    def _index_stmt(self, mod: Module, node: ast.stmt) -> None:
        if isinstance(node, ast.Import):
            for a in node.names:
                local = a.asname or a.name.split('.')[0]
                mod.imports[local] = a.name if a.asname else a.name.split('.')[0]
        elif isinstance(node, ast.ImportFrom):
            target = self._abs_module(mod, node.level, node.module)
            for a in node.names:
                if a.name == '*':
                    mod.star_imports.append(target)
                else:
                    mod.imports[a.asname or a.name] = f'{target}.{a.name}'
        elif isinstance(node, (ast.FunctionDef, ast.AsyncFunctionDef)):
            fi = FuncInfo(f'{mod.name}.{node.name}', mod, node, None)
            mod.functions[node.name] = fi
            self._register_func(fi)
        elif isinstance(node, ast.ClassDef):
            self._index_class(mod, node, prefix=mod.name)
        elif isinstance(node, ast.Assign):
            for t in node.targets:
                if isinstance(t, ast.Name):
                    mod.assigns[t.id] = node.value
                    if t.id == '__all__':
                        mod.all_names = _str_list(node.value)
        elif isinstance(node, ast.AnnAssign):
            if isinstance(node.target, ast.Name) and node.value is not None:
                mod.assigns[node.target.id] = node.value
        elif isinstance(node, ast.TypeAlias):
            pass
        elif isinstance(node, (ast.If, ast.Try)):
            # index both arms (TYPE_CHECKING blocks, optional imports)
            for sub in ast.iter_child_nodes(node):
                if isinstance(sub, ast.stmt):
                    self._index_stmt(mod, sub)
                elif isinstance(sub, ast.ExceptHandler):
                    for s in sub.body:
                        self._index_stmt(mod, s)

    def _register_func(self, fi: FuncInfo) -> None:
        self.functions[fi.qualname] = fi
        fi.node._qualname = fi.qualname  # type: ignore[attr-defined]  (lets the small evaluator say which function it ran)
        for sub in _direct_defs(fi.node):
            if isinstance(sub, (ast.FunctionDef, ast.AsyncFunctionDef)):
                child = FuncInfo(f'{fi.qualname}.{sub.name}', fi.module, sub, fi.cls, parent=fi)
                self._register_func(child)

    def _index_class(self, mod: Module, node: ast.ClassDef, prefix: str) -> None:
        ci = ClassInfo(f'{prefix}.{node.name}', mod, node)
        if prefix == mod.name:
            mod.classes[node.name] = ci
        self.classes[ci.qualname] = ci
        for item in node.body:
            if isinstance(item, (ast.FunctionDef, ast.AsyncFunctionDef)):
                fi = FuncInfo(f'{ci.qualname}.{item.name}', mod, item, ci)
                # property setters/overloads share a name: keep the first getter, index others
                if item.name in ci.methods:
                    decs = [dotted(d) for d in item.decorator_list]
                    if any(d.endswith('.setter') or d.endswith('.deleter') for d in decs):
                        fi.qualname = f'{ci.qualname}.{item.name}.setter'
                        self._register_func(fi)
                        continue
                    if 'overload' in [dotted(d) for d in ci.methods[item.name].node.decorator_list]:
                        pass  # replace overload stub
                ci.methods[item.name] = fi
                self._register_func(fi)
            elif isinstance(item, ast.Assign):
                for t in item.targets:
                    if isinstance(t, ast.Name):
                        ci.assigns[t.id] = item.value
            elif isinstance(item, ast.AnnAssign) and isinstance(item.target, ast.Name):
                ci.annotations[item.target.id] = ann_text(item.annotation)
                if item.value is not None:
                    ci.assigns[item.target.id] = item.value
            elif isinstance(item, ast.ClassDef):
                self._index_class(mod, item, prefix=ci.qualname)

    # ------------------------------------------------------------- resolution
    def resolve(self, modname: str, name: str, _depth: int = 0) -> str:
        """Resolve NAME as seen from module MODNAME to a qualified name.

        Follows import chains and star imports.  Returns 'builtins.NAME' or the
        external dotted name when it leaves the package.
        """
        if _depth > 12:
            return f'{modname}.{name}'
        mod = self.modules.get(modname)
        if mod is None:
            return f'{modname}.{name}'
        if name in mod.functions or name in mod.classes:
            return f'{modname}.{name}'
        if name in mod.imports:
            target = mod.imports[name]
            if target in self.modules:
                return target
            tmod, _, tname = target.rpartition('.')
            if tmod in self.modules:
                return self.resolve(tmod, tname, _depth + 1)
            return target
        if name in mod.assigns:
            val = mod.assigns[name]
            if isinstance(val, ast.Name) and val.id != name:
                return self.resolve(modname, val.id, _depth + 1)
            return f'{modname}.{name}'
        for star in mod.star_imports:
            smod = self.modules.get(star)
            if smod is None:
                continue
            exported = smod.all_names
            if exported is not None and name not in exported:
                continue
            if exported is None and name.startswith('_'):
                continue
            r = self.resolve(star, name, _depth + 1)
            if r.startswith('builtins.'):
                continue
            if r != f'{star}.{name}' or self._defined_in(star, name):
                return r
        return f'builtins.{name}'

    def _defined_in(self, modname: str, name: str) -> bool:
        mod = self.modules.get(modname)
        return bool(mod and (name in mod.functions or name in mod.classes or name in mod.assigns))

    def resolve_expr(self, mod: Module, node: ast.expr) -> str:
        """Resolve a Name / dotted Attribute expression to a qualified name."""
        if isinstance(node, ast.Name):
            return self.resolve(mod.name, node.id)
        if isinstance(node, ast.Attribute):
            base = self.resolve_expr(mod, node.value)
            if base in self.modules:
                return self.resolve(base, node.attr)
            return f'{base}.{node.attr}'
        if isinstance(node, ast.Subscript):
            return self.resolve_expr(mod, node.value)
        if isinstance(node, ast.Call):
            return self.resolve_expr(mod, node.func) + '()'
        return '?'

    # ---------------------------------------------------------------- lookups
    def func(self, qualname: str) -> FuncInfo:
        ANCHORED.add(qualname)
        try:
            return self.functions[qualname]
        except KeyError:
            raise AnalysisError(f'anchor vanished: function {qualname} not found') from None

    def cls(self, qualname: str) -> ClassInfo:
        try:
            return self.classes[qualname]
        except KeyError:
            raise AnalysisError(f'anchor vanished: class {qualname} not found') from None

    def module(self, name: str) -> Module:
        try:
            return self.modules[name]
        except KeyError:
            raise AnalysisError(f'anchor vanished: module {name} not found') from None

    def iter_functions(self, prefix: str = '') -> Iterator[FuncInfo]:
        for q, f in self.functions.items():
            if q.startswith(prefix):
                yield f

    def const_value(self, mod: Module, name: str):
        """Fold a module-level constant (literal / set / tuple / alias)."""
        q = self.resolve(mod.name, name)
        m, _, n = q.rpartition('.')
        tm = self.modules.get(m)
        if tm is None or n not in tm.assigns:
            raise AnalysisError(f'cannot fold constant {name} from {mod.name}')
        return ast.literal_eval(tm.assigns[n])


def _direct_defs(fn: ast.AST):
    """Function/class defs nested directly (at any statement depth) inside fn, not crossing defs."""
    stack = list(ast.iter_child_nodes(fn))
    while stack:
        n = stack.pop()
        if isinstance(n, (ast.FunctionDef, ast.AsyncFunctionDef)):
            yield n
            continue
        if isinstance(n, (ast.ClassDef, ast.Lambda)):
            continue
        stack.extend(ast.iter_child_nodes(n))


def _str_list(node: ast.expr) -> list[str] | None:
    try:
        v = ast.literal_eval(node)
    except Exception:
        return None
    if isinstance(v, (list, tuple)) and all(isinstance(x, str) for x in v):
        return list(v)
    return None


def walk_no_defs(node: ast.AST, include_root: bool = True):
    """ast.walk that does not descend into nested function/class/lambda bodies."""
    stack = [node]
    first = True
    while stack:
        n = stack.pop()
        if not first and isinstance(n, (ast.FunctionDef, ast.AsyncFunctionDef, ast.ClassDef, ast.Lambda)):
            continue
        if not first or include_root:
            yield n
        first = False
        stack.extend(reversed(list(ast.iter_child_nodes(n))))


def body_nodes(fn: ast.FunctionDef | ast.AsyncFunctionDef):
    """All nodes of a function body in source order, not descending into nested defs."""
    for stmt in fn.body:
        yield from _ordered(stmt)


def _ordered(node: ast.AST):
    yield node
    for child in ast.iter_child_nodes(node):
        if isinstance(child, (ast.FunctionDef, ast.AsyncFunctionDef, ast.ClassDef, ast.Lambda)):
            continue
        yield from _ordered(child)


_CONST_CTORS = {'frozenset': frozenset, 'set': set, 'tuple': tuple, 'list': list, 'dict': dict}


def const_eval(val: ast.expr):
    """Value of a constant display: a literal, or frozenset/set/tuple/list/dict(...) of literals.  Raises ValueError otherwise."""
    try:
        return ast.literal_eval(val)
    except Exception:  # noqa: BLE001
        pass
    if isinstance(val, ast.Call) and isinstance(val.func, ast.Name) and val.func.id in _CONST_CTORS and not val.keywords \
            and len(val.args) <= 1:
        return _CONST_CTORS[val.func.id](*[const_eval(x) for x in val.args])
    raise ValueError('not a constant display')


def normalise_test_temporaries(tree: ast.Module) -> int:
    """IR normalisation applied to every module before any rule runs: a local that is bound exactly once, by the statement
    directly before an `if`, and read exactly once, as that `if`'s test (or under `not`), is replaced by its expression:

        ok = a and b            if a and b:
        if ok:           ->         ...
            ...

    Evaluation order and values are unchanged (the binding is adjacent and single-use), so every rule sees the same program
    whether or not a developer named the condition."""
    n_done = 0
    for fn in [n for n in ast.walk(tree) if isinstance(n, (ast.FunctionDef, ast.AsyncFunctionDef))]:
        stores: dict[str, int] = {}
        loads: dict[str, int] = {}
        for x in ast.walk(fn):
            if isinstance(x, ast.Name):
                d = stores if isinstance(x.ctx, (ast.Store, ast.Del)) else loads
                d[x.id] = d.get(x.id, 0) + 1
            elif isinstance(x, (ast.Global, ast.Nonlocal)):
                for nm in x.names:
                    stores[nm] = stores.get(nm, 0) + 2
        params = {a.arg for a in ast.walk(fn.args) if isinstance(a, ast.arg)}

        def do_block(block: list) -> None:
            nonlocal n_done
            i = 0
            while i < len(block):
                s = block[i]
                if i + 1 < len(block) and isinstance(s, ast.Assign) and len(s.targets) == 1 and isinstance(s.targets[0], ast.Name) \
                        and isinstance(block[i + 1], ast.If):
                    nm = s.targets[0].id
                    nxt = block[i + 1]
                    t = nxt.test
                    holder = None
                    if isinstance(t, ast.Name) and t.id == nm:
                        holder = 'direct'
                    elif isinstance(t, ast.UnaryOp) and isinstance(t.op, ast.Not) and isinstance(t.operand, ast.Name) and t.operand.id == nm:
                        holder = 'not'
                    if holder and stores.get(nm) == 1 and loads.get(nm) == 1 and nm not in params:
                        if holder == 'direct':
                            nxt.test = s.value
                        else:
                            t.operand = s.value
                        del block[i]
                        n_done += 1
                        continue
                for fld in ('body', 'orelse', 'finalbody'):
                    b = getattr(s, fld, None)
                    if isinstance(b, list) and b and isinstance(b[0], ast.stmt) and not isinstance(s, (ast.FunctionDef, ast.AsyncFunctionDef, ast.ClassDef)):
                        do_block(b)
                for h in getattr(s, 'handlers', []) or []:
                    do_block(h.body)
                for c in getattr(s, 'cases', []) or []:
                    do_block(c.body)
                i += 1
        do_block(fn.body)
    return n_done


def _chain_root(e: ast.expr):
    """(root name, [attrs]) of a pure attribute chain  root.a.b , else None"""
    attrs = []
    while isinstance(e, ast.Attribute):
        attrs.append(e.attr)
        e = e.value
    if isinstance(e, ast.Name) and attrs:
        return e.id, list(reversed(attrs))
    return None


def normalise_aliases(tree: ast.Module) -> int:
    """IR normalisation: a local bound exactly once to a pure attribute chain (`state = self.state`, `cur = self.cursor`,
    `cache = self.input.line_cache`) is replaced by that chain at every use that provably sees the same object: no call (other
    than a method call on the alias itself) is evaluated between the binding and the use, the use is not in a loop that does not
    contain the binding, and nothing in the function stores to an attribute named in the chain.  Uses that do not qualify keep the
    local, so `inner = self.state ... self.states.pop() ... inner.cutseen` stays as written."""
    n_done = 0
    for fn in [n for n in ast.walk(tree) if isinstance(n, (ast.FunctionDef, ast.AsyncFunctionDef))]:
        own = [n for n in _walk_own(fn)]
        stores: dict[str, list] = {}
        for n in own:
            if isinstance(n, ast.Name) and isinstance(n.ctx, (ast.Store, ast.Del)):
                stores.setdefault(n.id, []).append(n)
        params = {a.arg for a in ast.walk(fn.args) if isinstance(a, ast.arg)}
        nested_names = {x.id for d in ast.walk(fn) if d is not fn and isinstance(d, (ast.FunctionDef, ast.AsyncFunctionDef, ast.Lambda, ast.ClassDef))
                        for x in ast.walk(d) if isinstance(x, ast.Name)}
        stored_attrs = {n.attr for n in own if isinstance(n, ast.Attribute) and isinstance(n.ctx, (ast.Store, ast.Del))}
        parents = {}
        for n in own:
            for c in ast.iter_child_nodes(n):
                parents[id(c)] = n
        for st in [n for n in own if isinstance(n, ast.Assign) and len(n.targets) == 1 and isinstance(n.targets[0], ast.Name)]:
            name = st.targets[0].id
            ch = _chain_root(st.value)
            if ch is None or len(stores.get(name, [])) != 1 or name in params or name in nested_names:
                continue
            root, attrs = ch
            if root != 'self' and root not in params:
                continue
            if len(stores.get(root, [])) > 0 or set(attrs) & stored_attrs:
                continue
            bind_end = (st.end_lineno, st.end_col_offset)
            calls = [c for c in own if isinstance(c, ast.Call) and (c.lineno, c.col_offset) >= bind_end
                     and not (_chain_root(c.func) or ('', []))[0] == name]
            loops = [lp for lp in own if isinstance(lp, (ast.For, ast.While, ast.AsyncFor))]
            for use in [n for n in own if isinstance(n, ast.Name) and n.id == name and isinstance(n.ctx, ast.Load)]:
                pos = (use.lineno, use.col_offset)
                if pos < bind_end:
                    continue
                enclosing = set()
                cur = use
                while id(cur) in parents:
                    cur = parents[id(cur)]
                    enclosing.add(id(cur))
                if any((c.end_lineno, c.end_col_offset) <= pos and id(c) not in enclosing for c in calls):
                    continue
                bad_loop = False
                for lp in loops:
                    if id(lp) in enclosing and not any(x is st for x in ast.walk(lp)):
                        if any(any(x is c for x in ast.walk(lp)) for c in calls):
                            bad_loop = True
                if bad_loop:
                    continue
                # substitute: the Name node becomes the chain (in place, keeping the position)
                new = ast.copy_location(_copy_chain(st.value), use)
                par = parents.get(id(use))
                if par is None:
                    continue
                for fld, val in ast.iter_fields(par):
                    if val is use:
                        setattr(par, fld, new)
                    elif isinstance(val, list):
                        for i, v in enumerate(val):
                            if v is use:
                                val[i] = new
                n_done += 1
    return n_done


def _copy_chain(e: ast.expr) -> ast.expr:
    if isinstance(e, ast.Attribute):
        return ast.Attribute(value=_copy_chain(e.value), attr=e.attr, ctx=ast.Load(), lineno=e.lineno, col_offset=e.col_offset,
                             end_lineno=e.end_lineno, end_col_offset=e.end_col_offset)
    return ast.Name(id=e.id, ctx=ast.Load(), lineno=e.lineno, col_offset=e.col_offset, end_lineno=e.end_lineno, end_col_offset=e.end_col_offset)


def _walk_own(fn):
    """nodes of a function body, nested function / class bodies excluded"""
    stack = list(ast.iter_child_nodes(fn))
    while stack:
        n = stack.pop()
        yield n
        if isinstance(n, (ast.FunctionDef, ast.AsyncFunctionDef, ast.ClassDef, ast.Lambda)):
            continue
        stack.extend(ast.iter_child_nodes(n))
