"""Callee resolution with light, annotation-driven receiver typing.

resolve_call(fn, call) -> Resolution(targets=[FuncInfo...], kind, name)
kind: 'project' (targets non-empty), 'class' (constructor of a project class), 'external'
(builtin / stdlib / unknown-but-harmless), 'unresolved' (a value call: parameter, attribute
holding a callable ...).  An unresolved call is treated by every client as "may do anything".

A static type is a tuple of project class qualnames (union members).  Narrowing by an
enclosing `if isinstance(x, T)` / `else` is honoured for plain names.
"""
from __future__ import annotations

import ast
from dataclasses import dataclass, field

from .classes import ClassTable
from .loader import ClassInfo, FuncInfo, Project, ann_text, dotted, walk_no_defs

CONTAINER_METHODS = {
    'append', 'extend', 'pop', 'get', 'items', 'keys', 'values', 'add', 'discard', 'remove', 'update',
    'join', 'split', 'strip', 'lstrip', 'rstrip', 'startswith', 'endswith', 'format', 'lower', 'upper',
    'replace', 'copy', 'clear', 'setdefault', 'insert', 'index', 'count', 'sort', 'reverse', 'splitlines',
    'isalnum', 'isalpha', 'isdigit', 'isupper', 'islower', 'capitalize', 'title', 'encode', 'decode',
    'popleft', 'appendleft', 'union', 'intersection', 'difference', 'group', 'groups', 'end', 'start',
    'span', 'match', 'search', 'fullmatch', 'sub', 'findall', 'finditer', 'rpartition', 'partition',
    'rsplit', 'find', 'rfind', 'zfill', 'center', 'ljust', 'rjust', 'hexdigest', 'digest', 'read',
    'write', 'readline', 'readlines', 'seek', 'tell', 'flush', 'close', 'exists', 'is_dir', 'is_file',
    'mkdir', 'read_text', 'write_text', 'resolve', 'with_suffix', 'relative_to', 'submit', 'result',
    'exception', 'cancel', 'done', 'shutdown', 'issubset', 'issuperset', 'most_common', 'total',
    'isidentifier', 'isspace', 'casefold', 'expandtabs', 'translate', 'removeprefix', 'removesuffix',
    'fromkeys', 'popitem', 'move_to_end', 'swapcase', 'isnumeric', 'isdecimal', 'isprintable',
    '_asdict', '_replace', '_make', 'cache_clear', 'cache_info', 'perf_counter', 'send', 'throw',
}

Type = tuple  # tuple[str, ...] of class qualnames


@dataclass
class Resolution:
    kind: str
    name: str
    targets: list[FuncInfo] = field(default_factory=list)
    cls: ClassInfo | None = None
    recv_type: Type = ()


class Resolver:
    def __init__(self, project: Project, ct: ClassTable):
        self.p = project
        self.ct = ct
        self._methods_by_name: dict[str, list[FuncInfo]] = {}
        for f in project.functions.values():
            if f.cls is not None and f.parent is None:
                self._methods_by_name.setdefault(f.name, []).append(f)
        self._attr_types: dict[tuple[str, str], Type] = {}
        self._local_types: dict[str, dict[str, Type]] = {}
        self._parents: dict[str, dict[int, ast.AST]] = {}
        self._resolutions: dict[tuple[str, int], Resolution] = {}

    # ------------------------------------------------------------------ types
    def classes_of_annotation(self, fn_or_mod, text: str | None) -> Type:
        if not text:
            return ()
        mod = fn_or_mod.module if isinstance(fn_or_mod, FuncInfo) else fn_or_mod
        text = text.strip().strip('"\'')
        out: list[str] = []
        for part in _split_union(text):
            part = part.strip()
            base = part.split('[', 1)[0].strip()
            if not base or base in ('None', 'Any', 'type'):
                continue
            if base == 'Self' and isinstance(fn_or_mod, FuncInfo) and fn_or_mod.cls:
                out.append(fn_or_mod.cls.qualname)
                continue
            q = self._resolve_dotted(mod.name, base)
            if q in self.p.classes and q not in out:
                out.append(q)
        return tuple(out)

    def class_of_annotation(self, fn_or_mod, text: str | None) -> str | None:
        cs = self.classes_of_annotation(fn_or_mod, text)
        return cs[0] if cs else None

    def type_param_class(self, fn: FuncInfo, text: str | None) -> str | None:
        """`type[X]` annotation -> X."""
        if not text:
            return None
        for part in _split_union(text.strip().strip('"\'')):
            part = part.strip()
            if part.startswith('type[') and part.endswith(']'):
                q = self._resolve_dotted(fn.module.name, part[5:-1].strip())
                if q in self.p.classes:
                    return q
        return None

    def _resolve_dotted(self, modname: str, text: str) -> str:
        parts = text.split('.')
        q = self.p.resolve(modname, parts[0])
        for a in parts[1:]:
            q = self.p.resolve(q, a) if q in self.p.modules else f'{q}.{a}'
        return q

    def attr_type(self, cls_q: str, attr: str) -> Type:
        """Static type of `instance_of(cls_q).attr`, from annotations / constructor assignments."""
        key = (cls_q, attr)
        if key in self._attr_types:
            return self._attr_types[key]
        self._attr_types[key] = ()
        out: Type = ()
        done = False
        for c in self.ct.mro(cls_q):
            ci = self.p.classes.get(c)
            if ci is None:
                continue
            if attr in ci.methods:
                m = ci.methods[attr]
                if any(d.split('.')[-1] in ('property', 'cached_property') for d in m.decorators):
                    if m.node.returns is not None:
                        out = self.classes_of_annotation(m, ann_text(m.node.returns))
                break
            if attr in ci.annotations:
                out = self.classes_of_annotation(ci.module, ci.annotations[attr])
                if out:
                    break
            for m in ci.methods.values():
                for n in walk_no_defs(m.node):
                    if (isinstance(n, ast.AnnAssign) and isinstance(n.target, ast.Attribute)
                            and isinstance(n.target.value, ast.Name) and n.target.value.id == 'self'
                            and n.target.attr == attr):
                        out = self.classes_of_annotation(m, ann_text(n.annotation))
                        done = True
                        break
                    if (isinstance(n, ast.Assign) and len(n.targets) == 1
                            and isinstance(n.targets[0], ast.Attribute)
                            and isinstance(n.targets[0].value, ast.Name) and n.targets[0].value.id == 'self'
                            and n.targets[0].attr == attr and isinstance(n.value, ast.Call)
                            and isinstance(n.value.func, (ast.Name, ast.Attribute))):
                        q = self.p.resolve_expr(m.module, n.value.func)
                        if q in self.p.classes:
                            out = (q,)
                            done = True
                            break
                if done:
                    break
            if done:
                break
        self._attr_types[key] = out
        return out

    def local_types(self, fn: FuncInfo) -> dict[str, Type]:
        if fn.qualname in self._local_types:
            return self._local_types[fn.qualname]
        env: dict[str, Type] = {}
        self._local_types[fn.qualname] = env
        if fn.parent is not None:
            env.update(self.local_types(fn.parent))
        a = fn.node.args
        allargs = [*a.posonlyargs, *a.args, *a.kwonlyargs]
        for i, x in enumerate(allargs):
            if x.annotation is not None:
                t = self.classes_of_annotation(fn, ann_text(x.annotation))
                if t:
                    env[x.arg] = t
                else:
                    env.pop(x.arg, None)
            elif i == 0 and fn.cls is not None and fn.parent is None and x.arg == 'self':
                env[x.arg] = (fn.cls.qualname,)
            else:
                env.pop(x.arg, None)
        for n in walk_no_defs(fn.node):
            if isinstance(n, ast.AnnAssign) and isinstance(n.target, ast.Name):
                t = self.classes_of_annotation(fn, ann_text(n.annotation))
                if t:
                    env.setdefault(n.target.id, t)
            elif isinstance(n, ast.Assign) and len(n.targets) == 1 and isinstance(n.targets[0], ast.Name):
                t = self._expr_types(fn, n.value, env)
                if t:
                    env.setdefault(n.targets[0].id, t)
            elif isinstance(n, ast.NamedExpr) and isinstance(n.target, ast.Name):
                t = self._expr_types(fn, n.value, env)
                if t:
                    env.setdefault(n.target.id, t)
            elif isinstance(n, ast.withitem) and isinstance(n.optional_vars, ast.Name):
                t = self._expr_types(fn, n.context_expr, env)
                if t:
                    env.setdefault(n.optional_vars.id, t)
        return env

    def parents(self, fn: FuncInfo) -> dict[int, ast.AST]:
        pm = self._parents.get(fn.qualname)
        if pm is None:
            pm = {}
            for n in ast.walk(fn.node):
                for c in ast.iter_child_nodes(n):
                    pm[id(c)] = n
            self._parents[fn.qualname] = pm
        return pm

    def _narrow(self, fn: FuncInfo, node: ast.Name, types: Type) -> Type:
        """Apply enclosing isinstance guards on NAME."""
        pm = self.parents(fn)
        cur: ast.AST = node
        while id(cur) in pm:
            par = pm[id(cur)]
            if isinstance(par, ast.If):
                g = _isinstance_guard(par.test, node.id)
                if g is not None:
                    neg, tnode = g
                    ts = tuple(self._guard_classes(fn, tnode))
                    in_body = any(cur is s for s in par.body)
                    in_else = any(cur is s for s in par.orelse)
                    if ts and ((in_body and not neg) or (in_else and neg)):
                        narrowed = tuple(t for t in types if any(self.ct.is_subclass(t, g_) for g_ in ts))
                        types = narrowed or ts
                    elif ts and ((in_else and not neg) or (in_body and neg)):
                        types = tuple(t for t in types if not any(self.ct.is_subclass(t, g_) for g_ in ts))
            cur = par
        return types

    def _guard_classes(self, fn: FuncInfo, tnode: ast.expr) -> list[str]:
        if isinstance(tnode, ast.Tuple):
            out = []
            for e in tnode.elts:
                out.extend(self._guard_classes(fn, e))
            return out
        if isinstance(tnode, ast.BinOp) and isinstance(tnode.op, ast.BitOr):
            return self._guard_classes(fn, tnode.left) + self._guard_classes(fn, tnode.right)
        q = self.p.resolve_expr(fn.module, tnode)
        return [q] if q in self.p.classes else []

    def expr_types(self, fn: FuncInfo, node: ast.expr) -> Type:
        return self._expr_types(fn, node, self.local_types(fn))

    def expr_type(self, fn: FuncInfo, node: ast.expr) -> str | None:
        t = self.expr_types(fn, node)
        return t[0] if t else None

    def _expr_types(self, fn: FuncInfo, node: ast.expr, env: dict[str, Type]) -> Type:
        if isinstance(node, ast.Name):
            t = env.get(node.id, ())
            if t:
                t = self._narrow(fn, node, t)
            return t
        if isinstance(node, ast.Attribute):
            out: list[str] = []
            for b in self._expr_types(fn, node.value, env):
                for t in self.attr_type(b, node.attr):
                    if t not in out:
                        out.append(t)
            return tuple(out)
        if isinstance(node, ast.Call):
            f = node.func
            if isinstance(f, ast.Call) and isinstance(f.func, ast.Name) and f.func.id == 'type' and f.args:
                return self._expr_types(fn, f.args[0], env)
            r = self.resolve_call(fn, node)
            if r.kind == 'class' and r.cls is not None:
                return (r.cls.qualname,)
            out = []
            for t in r.targets:
                if t.node.returns is not None:
                    rt = ann_text(t.node.returns).strip()
                    if rt == 'Self' and r.recv_type:
                        tys = r.recv_type
                    else:
                        tys = self.classes_of_annotation(t, rt)
                    for ty in tys:
                        if ty not in out:
                            out.append(ty)
            return tuple(out)
        return ()

    # ------------------------------------------------------------------ calls
    def resolve_call(self, fn: FuncInfo, call: ast.Call) -> Resolution:
        key = (fn.qualname, id(call))
        r = self._resolutions.get(key)
        if r is None:
            r = self._resolve_call(fn, call)
            self._resolutions[key] = r
        return r

    def _resolve_call(self, fn: FuncInfo, call: ast.Call) -> Resolution:
        f = call.func
        name = dotted(f)
        if isinstance(f, ast.Name):
            scope: FuncInfo | None = fn
            while scope is not None:
                q = f'{scope.qualname}.{f.id}'
                if q in self.p.functions:
                    return Resolution('project', name, [self.p.functions[q]])
                scope = scope.parent
            if f.id == 'cls' and fn.cls is not None and fn.params[:1] == ['cls']:
                return self._ctor(fn.cls.qualname, name)
            if f.id in fn.params:
                tq = self.type_param_class(fn, fn.param_annotation(f.id))
                if tq:
                    # a class passed as argument: constructor of that class or any subclass
                    r = self._ctor(tq, name)
                    for s in self.ct.subclasses(tq, strict=True):
                        for t in self._ctor(s, name).targets:
                            if t not in r.targets:
                                r.targets.append(t)
                    return r
                return Resolution('unresolved', name)
            if self._is_local_var(fn, f.id):
                return Resolution('unresolved', name)
            q = self.p.resolve(fn.module.name, f.id)
            if q in self.p.functions:
                return Resolution('project', name, [self.p.functions[q]])
            if q in self.p.classes:
                return self._ctor(q, name)
            return Resolution('external', name)
        if isinstance(f, ast.Attribute):
            if (isinstance(f.value, ast.Call) and isinstance(f.value.func, ast.Name)
                    and f.value.func.id == 'super' and fn.cls is not None):
                mro = self.ct.mro(fn.cls.qualname)
                for c in mro[1:]:
                    ci = self.p.classes.get(c)
                    if ci and f.attr in ci.methods:
                        return Resolution('project', name, [ci.methods[f.attr]])
                return Resolution('external', name)
            if f.attr == '__class__':
                t = self.expr_types(fn, f.value)
                if t:
                    return self._ctor(t[0], name)
            recv = self.expr_types(fn, f.value)
            if recv:
                targets: list[FuncInfo] = []
                holds_value = False
                for rt in recv:
                    ts = self.ct.overriders(rt, f.attr)
                    if ts:
                        for t in ts:
                            if t not in targets:
                                targets.append(t)
                    elif self.ct.lookup_attr_owner(rt, f.attr) is not None:
                        holds_value = True
                if targets:
                    return Resolution('project', name, targets, recv_type=recv)
                if holds_value:
                    return Resolution('unresolved', name, recv_type=recv)
                return Resolution('external', name, recv_type=recv)
            if isinstance(f.value, (ast.Name, ast.Attribute)):
                q = self.p.resolve_expr(fn.module, f)
                if q in self.p.functions:
                    return Resolution('project', name, [self.p.functions[q]])
                if q in self.p.classes:
                    return self._ctor(q, name)
                base_q = self.p.resolve_expr(fn.module, f.value)
                root = base_q.split('.')[0]
                rootname = _root_name(f.value)
                is_value = rootname in fn.params or self._is_local_var(fn, rootname) or rootname == 'self'
                if not is_value and root != self.p.package:
                    # re.compile, json.dumps, dataclasses.replace, object.__setattr__, str.join ...
                    return Resolution('external', name)
            if f.attr in CONTAINER_METHODS:
                # str/list/dict/set/re/file method names on an untyped receiver: taken as the
                # builtin container method (typed receivers were resolved above)
                return Resolution('external', name)
            cands = self._methods_by_name.get(f.attr, [])
            if cands:
                return Resolution('project', name, list(cands))
            return Resolution('external', name)
        if (isinstance(f, ast.Call) and isinstance(f.func, ast.Name) and f.func.id == 'type'
                and len(f.args) == 1):
            t = self.expr_types(fn, f.args[0])
            if t:
                return self._ctor(t[0], name)
        return Resolution('unresolved', name)

    def _ctor(self, q: str, name: str) -> Resolution:
        ci = self.p.classes[q]
        targets = []
        for m in ('__init__', '__post_init__', '__new__'):
            t = self.ct.lookup(q, m)
            if t is not None:
                targets.append(t)
        return Resolution('class', name, targets, cls=ci)

    def _is_local_var(self, fn: FuncInfo, name: str) -> bool:
        for n in walk_no_defs(fn.node):
            if isinstance(n, ast.Name) and n.id == name and isinstance(n.ctx, ast.Store):
                return True
        return False


def _root_name(node: ast.expr) -> str:
    while isinstance(node, ast.Attribute):
        node = node.value
    return node.id if isinstance(node, ast.Name) else '?'


def _isinstance_guard(test: ast.expr, name: str):
    """(negated, type-expr) if TEST is [not] isinstance(NAME, T)."""
    neg = False
    if isinstance(test, ast.UnaryOp) and isinstance(test.op, ast.Not):
        neg, test = True, test.operand
    if (isinstance(test, ast.Call) and isinstance(test.func, ast.Name) and test.func.id == 'isinstance'
            and len(test.args) == 2 and isinstance(test.args[0], ast.Name) and test.args[0].id == name):
        return neg, test.args[1]
    return None


def _split_union(text: str) -> list[str]:
    out, depth, cur = [], 0, ''
    for ch in text:
        if ch == '[':
            depth += 1
        elif ch == ']':
            depth -= 1
        if ch == '|' and depth == 0:
            out.append(cur)
            cur = ''
        else:
            cur += ch
    out.append(cur)
    res = []
    for part in out:
        p = part.strip()
        if p.startswith(('Optional[', 'Union[')) and p.endswith(']'):
            res.extend(_split_union(p[p.index('[') + 1:-1].replace(',', '|')))
        else:
            res.append(p)
    return res
