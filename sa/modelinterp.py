"""Interpretation of repository methods on checker-built stand-in objects.

A `Stub` stands for an instance of a repository class (by qualified name).  Attribute reads
that are not in the stub's own dict are resolved through the *static* class table: a method
becomes a bound-method marker (its FunctionDef is interpreted when called), a
property/cached_property is interpreted on access, a class-level constant is folded.
Free names inside an interpreted function are resolved through the imports of the module
that defines it: project classes become `ClassRef`s (usable in isinstance/issubclass and as
constructors of stubs), project functions are interpreted, module constants are folded.

A `Recorder` is an opaque object that records every method call made on it (used as the
parse context handed to Model._parse methods: the trace of ctx primitives is the summary).

Everything not whitelisted raises Unsupported -> ANALYSIS-ERROR; no repository code object is run.
"""
from __future__ import annotations

import ast
from typing import Any

from .context import Analysis
from .loader import EXECUTED, FuncInfo, const_eval, dotted
from .minieval import MiniEval, Obj, Raised, Unsupported, _Break, _Continue, _Return


class ClassRef:
    def __init__(self, q: str):
        self.q = q

    def __repr__(self):
        return f'<class {self.q}>'

    def __eq__(self, o):
        return isinstance(o, ClassRef) and o.q == self.q

    def __hash__(self):
        return hash(self.q)

    def __or__(self, other):
        return (self, *(other if isinstance(other, tuple) else (other,)))

    def __ror__(self, other):
        return (*(other if isinstance(other, tuple) else (other,)), self)


class ModuleRef:
    def __init__(self, q: str):
        self.q = q


class Stub:
    def __init__(self, cls_q: str, **attrs):
        object.__setattr__(self, '_cls', cls_q)
        object.__setattr__(self, '_attrs', dict(attrs))

    def __repr__(self):
        return f'<{self._cls.split(".")[-1]} {self._attrs}>'


class Hook:
    """A checker-supplied callable placed in a stub attribute (stands for a method the rule abstracts away)."""

    def __init__(self, fn, **attrs):
        self.fn = fn
        self.attrs = attrs  # a class stand-in: RuleInfo(...) and RuleInfo.bind(...)


class Bound:
    def __init__(self, recv: Any, fn: FuncInfo):
        self.recv = recv
        self.fn = fn


class FuncRef:
    def __init__(self, fn: FuncInfo):
        self.fn = fn


class Recorder:
    """Opaque object recording calls: trace entries are (name, args, kwargs)."""

    def __init__(self, name: str = 'ctx', results: dict | None = None, trace: list | None = None, raising: dict | None = None):
        self.name = name
        self.trace: list = trace if trace is not None else []
        self.results = results or {}
        self.raising = raising or {}
        self.attrs: dict[str, Any] = {}


class ModelInterp(MiniEval):
    def __init__(self, a: Analysis, extra_globals: dict | None = None, calls: dict | None = None):
        super().__init__(extra_globals or {}, calls=calls or {})
        self.a = a
        self.modstack: list[str] = []
        self.depth = 0
        self._evaluating: set = set()

    # ----------------------------------------------------------------- names
    def lookup(self, name: str, env: dict) -> Any:
        if name in env:
            return env[name]
        if name in self.globals:
            return self.globals[name]
        if self.modstack:
            q = self.a.p.resolve(self.modstack[-1], name)
            if q in self.a.p.modules:
                return ModuleRef(q)
            if q in self.a.p.classes:
                return ClassRef(q)
            if q in self.a.p.functions:
                return FuncRef(self.a.p.functions[q])
            m, _, n = q.rpartition('.')
            mod = self.a.p.modules.get(m)
            if mod is not None and n in mod.assigns:
                try:
                    return const_eval(mod.assigns[n])
                except ValueError:
                    pass
                # a module-level constant built from names the interpreter knows: _TYPES = (weakref.ReferenceType, *weakref.ProxyTypes),
                # _TABLE = MappingProxyType({...}), _NAMES = frozenset(_A) | {...}
                key = ('<modconst>', m, n)
                if key in self.globals:
                    return self.globals[key]
                if key not in self._evaluating:
                    self._evaluating.add(key)
                    self.modstack.append(m)
                    try:
                        v = self.expr(mod.assigns[n], {})
                        self.globals[key] = v
                        return v
                    except Unsupported:
                        pass
                    finally:
                        self.modstack.pop()
                        self._evaluating.discard(key)
            ext = _EXTERNAL.get(q)
            if ext is not None:
                return ext
        return super().lookup(name, env)

    # ------------------------------------------------------------- functions
    def call_fn(self, fn: FuncInfo, args: list, kwargs: dict | None = None) -> Any:
        EXECUTED.add(fn.qualname)
        self.modstack.append(fn.module.name)
        self.depth += 1
        if self.depth > 60:
            raise Unsupported('interpretation depth exceeded')
        try:
            return self.call_function(fn.node, args, kwargs)
        finally:
            self.depth -= 1
            self.modstack.pop()

    def new(self, cls_q: str, **attrs) -> Stub:
        return Stub(cls_q, **attrs)

    def as_callable(self, v: Any):
        if isinstance(v, Hook):
            return v.fn
        if isinstance(v, (FuncRef, Bound, ClassRef)):
            return lambda *a_, **k_: self.apply(v, list(a_), k_)
        return super().as_callable(v)

    # ------------------------------------------------------------ attributes
    def get_attr(self, base: Any, attr: str) -> Any:
        if isinstance(base, Stub):
            if attr in base._attrs:
                return base._attrs[attr]
            if attr == '__class__':
                return ClassRef(base._cls)
            return self.class_attr(base, base._cls, attr)
        if isinstance(base, Recorder):
            if attr in base.attrs:
                return base.attrs[attr]
            return Bound(base, None)  # type: ignore[arg-type]
        if isinstance(base, ClassRef):
            if attr in ('__name__', '__qualname__'):
                return base.q.split('.')[-1]
            if attr == '__bases__':
                return tuple(ClassRef(b) for b in self.a.ct.bases(base.q))
            return self.class_attr(None, base.q, attr)
        if isinstance(base, (FuncRef, Bound)) and attr == '__name__':
            return base.fn.name
        if isinstance(base, ModuleRef):
            self.modstack.append(base.q)
            try:
                return self.lookup(attr, {})
            finally:
                self.modstack.pop()
        if isinstance(base, Obj) and not attr.startswith('__'):
            if hasattr(base, attr):
                return getattr(base, attr)
        if isinstance(base, Hook) and attr in base.attrs:
            return base.attrs[attr]
        # checker-made classes and their instances (class objects with bases, for code that climbs __bases__)
        if isinstance(base, type) and getattr(base, '_verif_standin', False):
            if attr in ('__name__', '__qualname__', '__bases__', '__mro__', '__module__') or (not attr.startswith('__') and hasattr(base, attr)):
                v = getattr(base, attr)
                return tuple(b for b in v if b is not object) if attr in ('__bases__', '__mro__') else v
        if getattr(type(base), '_verif_standin', False) and not isinstance(base, type):
            if attr == '__class__':
                return type(base)
            if not attr.startswith('__') and hasattr(base, attr):
                return getattr(base, attr)
        import types as _types
        if type(base) is _types.SimpleNamespace and (attr == '__dict__' or (not attr.startswith('__') and attr in vars(base))):
            return vars(base) if attr == '__dict__' else vars(base)[attr]  # a checker-supplied SimpleNamespace(**names)
        if isinstance(base, type) and base.__module__ == 'builtins' and attr in ('__name__', '__module__', '__qualname__'):
            return getattr(base, attr)
        if type(base) in (dict, list, tuple) and attr == '__getitem__':
            return Hook(base.__getitem__)  # used as key= / mapping function
        if isinstance(base, tuple) and attr in getattr(base, '_fields', ()):
            return getattr(base, attr)  # checker-made namedtuple stand-in
        raise Unsupported(f'attribute .{attr} on {type(base).__name__}')

    def class_attr(self, inst: Stub | None, cls_q: str, attr: str) -> Any:
        for c in self.a.ct.mro(cls_q):
            ci = self.a.p.classes.get(c)
            if ci is None:
                continue
            if attr in ci.methods:
                m = ci.methods[attr]
                decs = [d.split('.')[-1] for d in m.decorators]
                if 'property' in decs or 'cached_property' in decs:
                    if inst is None:
                        raise Unsupported(f'property {attr} on a class')
                    val = self.call_bound(Bound(inst, m), [], {})
                    if 'cached_property' in decs:
                        inst._attrs[attr] = val
                    return val
                if 'staticmethod' in decs:
                    return FuncRef(m)
                if 'classmethod' in decs:
                    return Bound(ClassRef(cls_q), m)
                return Bound(inst, m) if inst is not None else FuncRef(m)
            if attr in ci.assigns:
                v = ci.assigns[attr]
                if isinstance(v, ast.Name) and v.id in ci.methods:
                    return Bound(inst, ci.methods[v.id])
                try:
                    return ast.literal_eval(v)
                except Exception:  # noqa: BLE001
                    self.modstack.append(ci.module.name)
                    try:
                        return self.expr(v, {})
                    finally:
                        self.modstack.pop()
        # an instance attribute the constructor initialises to a constant (`self._last = None`, `self._seen = {}`): a stand-in the rule built by hand
        # without running __init__ starts with that value (a fresh one per stand-in)
        if inst is not None:
            for c in self.a.ct.mro(cls_q):
                ci = self.a.p.classes.get(c)
                init = ci.methods.get('__init__') if ci is not None else None
                if init is None:
                    continue
                for n in ast.walk(init.node):
                    tgt = n.targets[0] if isinstance(n, ast.Assign) and len(n.targets) == 1 else (n.target if isinstance(n, ast.AnnAssign) and n.value is not None else None)
                    if isinstance(tgt, ast.Attribute) and tgt.attr == attr and isinstance(tgt.value, ast.Name) and tgt.value.id == 'self':
                        try:
                            val = ast.literal_eval(n.value)
                        except Exception:  # noqa: BLE001 - not a constant initialiser
                            continue
                        inst._attrs[attr] = val
                        return val
        raise Unsupported(f'attribute {attr!r} not found on {cls_q.split(".")[-1]} (stub has {sorted(inst._attrs) if inst else "-"})')

    def attribute(self, e: ast.Attribute, env: dict) -> Any:
        if isinstance(e.value, ast.Call) and isinstance(e.value.func, ast.Name) and e.value.func.id == 'super' and not e.value.args:
            # super().<property or method> read as a value
            inst = env.get('self')
            cur = env.get('__class_q__')
            if isinstance(inst, Stub) and cur:
                mro = self.a.ct.mro(inst._cls)
                for c in mro[mro.index(cur) + 1:]:
                    ci = self.a.p.classes.get(c)
                    if ci and e.attr in ci.methods:
                        m = ci.methods[e.attr]
                        decs = [d.split('.')[-1] for d in m.decorators]
                        if 'property' in decs or 'cached_property' in decs:
                            return self.call_bound(Bound(inst, m), [], {})
                        return Bound(inst, m)
            raise Unsupported(f'super().{e.attr}')
        base = self.expr(e.value, env)
        return self.get_attr(base, e.attr)

    def assign(self, t: ast.expr, v: Any, env: dict) -> None:
        if isinstance(t, ast.Attribute):
            base = self.expr(t.value, env)
            if isinstance(base, Stub):
                base._attrs[t.attr] = v
                return
            if isinstance(base, Recorder):
                base.trace.append(('set:' + t.attr, (v,), {}))
                base.attrs[t.attr] = v
                return
        if isinstance(t, ast.Subscript):
            base = self.expr(t.value, env)
            if isinstance(base, Recorder):
                base.trace.append(('setitem', (self.expr(t.slice, env), v), {}))
                return
            if isinstance(base, (dict, list)):
                base[self.expr(t.slice, env)] = v
                return
        super().assign(t, v, env)

    # ----------------------------------------------------------------- calls
    def isinstance_(self, v: Any, cls: Any) -> bool:
        classes = cls if isinstance(cls, tuple) else (cls,)
        for c in classes:
            if isinstance(v, Raised):
                # an exception object of the interpreted program (caught with `except ... as e`): its class is known by name
                cname = c.q.split('.')[-1] if isinstance(c, ClassRef) else (c.attrs['q'].split('.')[-1] if isinstance(c, Hook) and 'q' in c.attrs else
                                                                          c.__name__ if isinstance(c, type) else None)
                if cname and self._exc_matches(v.cls_name, [cname]):
                    return True
                continue
            if isinstance(c, ClassRef):
                if isinstance(v, Stub) and self.a.ct.is_subclass(v._cls, c.q):
                    return True
            elif isinstance(c, Hook) and 'q' in c.attrs:
                # a checker-supplied constructor standing for the repo class attrs['q']
                if isinstance(v, Stub) and self.a.ct.is_subclass(v._cls, c.attrs['q']):
                    return True
            elif isinstance(c, type):
                if isinstance(v, c) and not isinstance(v, (Stub, Recorder, ClassRef)):
                    return True
        return False

    def call(self, e: ast.Call, env: dict) -> Any:
        f = e.func
        if dotted(f) in ('reduce', 'functools.reduce') and 'reduce' not in env and 'functools' not in env and 'reduce' not in self.globals:
            import functools
            args, kwargs = self._args(e, env)
            return functools.reduce(self.as_callable(args[0]), *args[1:], **kwargs)
        # super().m(...)
        if isinstance(f, ast.Attribute) and isinstance(f.value, ast.Call) and isinstance(f.value.func, ast.Name) \
                and f.value.func.id == 'super':
            inst = env.get('self')
            cur = env.get('__class_q__')
            if isinstance(inst, Stub) and cur:
                mro = self.a.ct.mro(inst._cls)
                args, kwargs = self._args(e, env)
                for c in mro[mro.index(cur) + 1:]:
                    ci = self.a.p.classes.get(c)
                    if ci and f.attr in ci.methods:
                        return self.call_bound(Bound(inst, ci.methods[f.attr]), args, kwargs)
                if f.attr in ('__post_init__', '__init__', '__init_subclass__'):
                    return None
            sup = self.globals.get('__super__')
            if isinstance(sup, Hook) and f.attr in sup.attrs:
                # a class method / static context: the rule answers for the inherited implementation (its contract is another rule's)
                args, kwargs = self._args(e, env)
                return self.apply(sup.attrs[f.attr], args, kwargs)
            raise Unsupported(f'super().{f.attr}')
        if isinstance(f, ast.Attribute):
            recv = self.expr(f.value, env)
            if isinstance(recv, (Stub, Recorder, ClassRef, ModuleRef)) or (isinstance(recv, Hook) and f.attr in recv.attrs):
                target = self.get_attr(recv, f.attr)
                if isinstance(target, Hook):
                    args, kwargs = self._args(e, env)
                    return target.fn(*args, **kwargs)
                args, kwargs = self._args(e, env)
                if isinstance(recv, Recorder):
                    return self.record(recv, f.attr, args, kwargs)
                return self.apply(target, args, kwargs)
        if isinstance(f, (ast.Call, ast.Subscript, ast.IfExp)):
            fv0 = self.expr(f, env)
            if isinstance(fv0, (Hook, Bound, FuncRef, ClassRef)):
                args, kwargs = self._args(e, env)
                return self.apply(fv0, args, kwargs)
            if isinstance(fv0, tuple) and fv0[:1] == ('<func>',):
                args, kwargs = self._args(e, env)
                return self.as_callable(fv0)(*args, **kwargs)
        if isinstance(f, ast.Attribute) and isinstance(f.value, ast.Name):
            recv0 = env.get(f.value.id)
            if isinstance(recv0, ExitStackM) and f.attr == 'callback':
                args, kwargs = self._args(e, env)
                return recv0.callback(*args, **kwargs)
        if isinstance(f, ast.Name):
            try:
                fv = self.lookup(f.id, env)
            except Unsupported:
                fv = None
            if isinstance(fv, (FuncRef, ClassRef, Bound, Hook)):
                args, kwargs = self._args(e, env)
                return self.apply(fv, args, kwargs)
            if f.id in ('isinstance',):
                args, _ = self._args(e, env)
                return self.isinstance_(args[0], args[1])
            if f.id == 'type' and len(e.args) == 1:
                v = self.expr(e.args[0], env)
                if isinstance(v, Stub):
                    return ClassRef(v._cls)
                if v is None or type(v) in (str, int, float, bool, tuple, list, dict, set, frozenset, bytes):
                    return type(v)
            if f.id == 'typename' and len(e.args) == 1:
                v = self.expr(e.args[0], env)
                if isinstance(v, Stub):
                    return v._cls.split('.')[-1]
            if f.id == 'callable' and len(e.args) == 1:
                v = self.expr(e.args[0], env)
                if isinstance(v, (FuncRef, Bound, Hook, ClassRef)):
                    return True
                if v is None or isinstance(v, (str, int, float, tuple, list, dict, Stub)):
                    return False
            if f.id == 'getattr':
                args, _ = self._args(e, env)
                if isinstance(args[0], (Stub, Recorder, ClassRef)) and isinstance(args[1], str):
                    try:
                        return self.get_attr(args[0], args[1])
                    except Unsupported:
                        if len(args) > 2:
                            return args[2]
                        raise
            if f.id == 'hasattr':
                args, _ = self._args(e, env)
                if not isinstance(args[0], (Stub, Recorder, ClassRef, Obj)):
                    return hasattr(args[0], args[1]) if isinstance(args[0], (str, int, float, tuple, list, dict, type(None))) else False
                if isinstance(args[0], Stub):
                    try:
                        self.get_attr(args[0], args[1])
                        return True
                    except Unsupported:
                        return False
        if isinstance(f, (ast.Name, ast.Attribute, ast.Call, ast.Subscript)):
            try:
                fv = self.expr(f, env)
            except Unsupported:
                fv = None
            if isinstance(fv, (FuncRef, ClassRef, Bound)):
                args, kwargs = self._args(e, env)
                return self.apply(fv, args, kwargs)
        return super().call(e, env)

    def _args(self, e: ast.Call, env: dict):
        args = []
        for a_ in e.args:
            if isinstance(a_, ast.Starred):
                args.extend(self.expr(a_.value, env))
            else:
                args.append(self.expr(a_, env))
        kwargs = {}
        for k in e.keywords:
            if k.arg is None:
                kwargs.update(self.expr(k.value, env))
            else:
                kwargs[k.arg] = self.expr(k.value, env)
        return args, kwargs

    def record(self, rec: Recorder, name: str, args: list, kwargs: dict) -> Any:
        rec.trace.append((name, tuple(args), dict(kwargs)))
        if name in rec.raising:
            raise Raised(rec.raising[name], ast.Pass())
        r = rec.results.get(name)
        if callable(r):
            return r(self, *args, **kwargs)
        return r

    def apply(self, target: Any, args: list, kwargs: dict) -> Any:
        if isinstance(target, Bound):
            return self.call_bound(target, args, kwargs)
        if isinstance(target, FuncRef):
            return self.call_fn(target.fn, args, kwargs)
        if isinstance(target, ClassRef):
            return self.construct(target, args, kwargs)
        if isinstance(target, Hook):
            return target.fn(*args, **kwargs)
        raise Unsupported(f'call of {target!r}')

    def call_bound(self, b: Bound, args: list, kwargs: dict) -> Any:
        if isinstance(b.recv, Recorder):
            raise Unsupported('bound recorder method escaped')
        fn = b.fn
        EXECUTED.add(fn.qualname)
        self.modstack.append(fn.module.name)
        self.depth += 1
        if self.depth > 60:
            raise Unsupported('interpretation depth exceeded')
        try:
            # expose the defining class for super()
            node = fn.node
            env_extra = {'__class_q__': fn.cls.qualname if fn.cls else None}
            return self._call_with_env(node, [b.recv, *args], kwargs, env_extra)
        finally:
            self.depth -= 1
            self.modstack.pop()

    def _call_with_env(self, fn: ast.FunctionDef, args: list, kwargs: dict, extra: dict) -> Any:
        env: dict[str, Any] = dict(extra)
        params = [a_.arg for a_ in (*fn.args.posonlyargs, *fn.args.args)]
        defaults = fn.args.defaults
        for i, name in enumerate(params):
            if i < len(args):
                env[name] = args[i]
            elif kwargs and name in kwargs:
                env[name] = kwargs[name]
            else:
                j = i - (len(params) - len(defaults))
                if j < 0:
                    raise Unsupported(f'missing argument {name}')
                env[name] = self.expr(defaults[j], {})
        for a_, d in zip(fn.args.kwonlyargs, fn.args.kw_defaults):
            if kwargs and a_.arg in kwargs:
                env[a_.arg] = kwargs[a_.arg]
            elif d is not None:
                env[a_.arg] = self.expr(d, {})
        from .minieval import _bind_star, _is_generator
        _bind_star(fn, params, args, kwargs, env)
        if _is_generator(fn):
            env['__yields__'] = []
            try:
                self.block(fn.body, env)
            except _Return:
                pass
            return env['__yields__']
        try:
            self.block(fn.body, env)
        except _Return as r:
            return r.value
        return None

    def construct(self, c: ClassRef, args: list, kwargs: dict) -> Any:
        """A project class with an explicit __init__ in its MRO: a fresh stand-in whose __init__ is interpreted."""
        for q in self.a.ct.mro(c.q):
            ci = self.a.p.classes.get(q)
            if ci is not None and '__init__' in ci.methods:
                inst = Stub(c.q)
                self.call_bound(Bound(inst, ci.methods['__init__']), args, kwargs)
                return inst
        raise Unsupported(f'construction of {c.q}')

    # try/except and with inside interpreted code
    def stmt(self, s: ast.stmt, env: dict) -> None:
        if isinstance(s, ast.Try):
            try:
                self.block(s.body, env)
            except Raised as r:
                for h in s.handlers:
                    names = [] if h.type is None else [ast.unparse(t).split('.')[-1] for t in (h.type.elts if isinstance(h.type, ast.Tuple) else [h.type])]
                    if h.type is None or self._exc_matches(r.cls_name, names):
                        if h.name:
                            env[h.name] = r
                        env['__handling__'] = r
                        self.block(h.body, env)
                        break
                else:
                    raise
            else:
                self.block(s.orelse, env)
            finally:
                if s.finalbody:
                    self.block(s.finalbody, env)
            return
        if isinstance(s, ast.Import):
            # function-level `import x`: only modules the checker supplied a stand-in for
            for al in s.names:
                top = al.name.split('.')[0]
                if top not in self.globals:
                    raise Unsupported(f'import of {al.name}')
                env[al.asname or top] = self.globals[top]
            return
        if isinstance(s, ast.ImportFrom) and self.modstack:
            # function-level import: checker overrides first, then the project entity
            cur = self.modstack[-1]
            m = self.a.p.modules.get(cur)
            pkg = cur if (m is not None and m.is_pkg) else cur.rpartition('.')[0]
            for _ in range(max(0, s.level - 1)):
                pkg = pkg.rpartition('.')[0]
            base = (pkg + '.' + s.module if s.module else pkg) if s.level else (s.module or '')
            for al in s.names:
                nm = al.asname or al.name
                if al.name in self.globals:
                    env[nm] = self.globals[al.name]
                    continue
                q = f'{base}.{al.name}'
                if q in self.a.p.modules:
                    env[nm] = ModuleRef(q)
                else:
                    q = self.a.p.resolve(base, al.name) if base in self.a.p.modules else q
                    if q in self.a.p.classes:
                        env[nm] = ClassRef(q)
                    elif q in self.a.p.functions:
                        env[nm] = FuncRef(self.a.p.functions[q])
                    else:
                        raise Unsupported(f'import of {q}')
            return
        if isinstance(s, ast.Raise) and s.exc is None and '__handling__' in env:
            raise env['__handling__']
        if isinstance(s, ast.Raise) and isinstance(s.exc, ast.Name) and isinstance(env.get(s.exc.id), Raised):
            raise env[s.exc.id]  # `raise ex` / `raise ex from e` of an exception OBJECT the program holds: that very object
        if (isinstance(s, ast.Expr) and isinstance(s.value, ast.Yield) or isinstance(s, ast.Assign) and isinstance(s.value, ast.Yield)) \
                and env.get('__with_body__') is not None:
            # the `yield` of an inlined @contextmanager function: the block of the `with` statement runs here
            body, outer_env, target = env['__with_body__']
            val = self.expr(s.value.value, env) if s.value.value is not None else None
            if target is not None:
                self.assign(target, val, outer_env)
            env['__with_body__'] = None  # a context manager yields once
            try:
                self.block(body, outer_env)
            except _Return as r:
                raise _WithReturn(r) from None  # leaves the manager through its finally clauses, then returns from the caller
            return
        if isinstance(s, ast.With) and len(s.items) >= 1:
            cmf = self._contextmanager_target(s.items[0].context_expr, env)
            if cmf is not None:
                recv, fn_, call = cmf
                inner = ast.With(items=s.items[1:], body=s.body, lineno=s.lineno, col_offset=0) if len(s.items) > 1 else None
                body = [inner] if inner is not None else s.body
                args, kwargs = self._args(call, env)
                self.modstack.append(fn_.module.name)
                self.depth += 1
                if self.depth > 60:
                    raise Unsupported('interpretation depth exceeded')
                try:
                    extra = {'__class_q__': fn_.cls.qualname if fn_.cls else None, '__with_body__': (body, env, s.items[0].optional_vars)}
                    try:
                        self._call_with_env(fn_.node, ([recv] if recv is not None else []) + list(args), kwargs, extra)
                    except _WithReturn as r:  # a `return` inside the with block, passing through the manager's finally
                        raise r.inner from None
                finally:
                    self.depth -= 1
                    self.modstack.pop()
                return
        if isinstance(s, ast.With):
            entered = []
            for it in s.items:
                cm = self.expr(it.context_expr, env)
                entered.append(cm)
                val = cm
                if isinstance(cm, Stub) and self.a.ct.lookup(cm._cls, '__enter__') is not None and '__enter__' not in cm._attrs:
                    # an instance of a repository class written as a context manager (__enter__ / __exit__)
                    val = self.call_bound(Bound(cm, self.a.ct.lookup(cm._cls, '__enter__')), [], {})
                if it.optional_vars is not None:
                    self.assign(it.optional_vars, val, env)

            def _leave(exc):
                suppressed = False
                for cm in reversed(entered):
                    if isinstance(cm, ExitStackM):
                        cm.close(self)
                    elif isinstance(cm, Stub) and '__exit__' not in cm._attrs and self.a.ct.lookup(cm._cls, '__exit__') is not None:
                        r_ = self.call_bound(Bound(cm, self.a.ct.lookup(cm._cls, '__exit__')), [exc, exc, None] if exc is not None else [None, None, None], {})
                        if exc is not None and r_:
                            suppressed, exc = True, None
                return suppressed
            try:
                self.block(s.body, env)
            except Raised as r:
                if any(isinstance(cm, SuppressM) and cm.matches(self, r) for cm in entered):
                    _leave(None)
                    return
                if _leave(r):
                    return
                raise
            except (_Return, _WithReturn, _Break, _Continue):
                _leave(None)
                raise
            _leave(None)
            return
        if isinstance(s, ast.Assert):
            return
        super().stmt(s, env)

    def _contextmanager_target(self, e: ast.expr, env: dict):
        """(receiver or None, FuncInfo, call) when E calls a repository function decorated with @contextmanager"""
        if not isinstance(e, ast.Call):
            return None
        f = e.func
        try:
            if isinstance(f, ast.Name):
                if f.id in env or f.id in self.globals:
                    return None
                tv = self.lookup(f.id, env)
                fn_, recv = (tv.fn, None) if isinstance(tv, FuncRef) else (None, None)
            elif isinstance(f, ast.Attribute):
                base = self.expr(f.value, env)
                if not isinstance(base, Stub) or f.attr in base._attrs:
                    return None
                tv = self.get_attr(base, f.attr)
                fn_, recv = (tv.fn, tv.recv) if isinstance(tv, Bound) and tv.fn is not None else (None, None)
            else:
                return None
        except Unsupported:
            return None
        if fn_ is None or not any(d.split('.')[-1] == 'contextmanager' for d in fn_.decorators):
            return None
        return recv, fn_, e

    def _exc_matches(self, raised: str, handler_names: list[str]) -> bool:
        rq = None
        short = raised.split('(')[0].split('.')[-1]
        for q in self.a.p.classes:
            if q.split('.')[-1] == short and q.startswith('tatsu.exceptions'):
                rq = q
        import builtins as _b
        for h in handler_names:
            if h == short or h in ('Exception', 'BaseException'):
                return True
            bs, bh = getattr(_b, short, None), getattr(_b, h, None)
            if isinstance(bs, type) and isinstance(bh, type) and issubclass(bs, BaseException) and issubclass(bs, bh):
                return True  # the builtin exception hierarchy (KeyError is a LookupError)
            if rq:
                for c in self.a.ct.mro(rq):
                    if c.split('.')[-1] == h:
                        return True
        return False


class SuppressM:
    """contextlib.suppress(*classes) for interpreted code"""

    def __init__(self, classes):
        self.names = [c.q.split('.')[-1] if isinstance(c, ClassRef) else getattr(c, '__name__', str(c)) for c in classes]

    def matches(self, interp, raised) -> bool:
        return interp._exc_matches(raised.cls_name, self.names)


class _WithReturn(Exception):
    def __init__(self, inner):
        self.inner = inner


class ExitStackM:
    """contextlib.ExitStack for interpreted code: callbacks run, last first, when the with block is left"""

    def __init__(self):
        self.callbacks: list = []

    def callback(self, fn, *args, **kwargs):
        self.callbacks.append((fn, args, kwargs))
        return fn

    def close(self, interp):
        while self.callbacks:
            fn, args, kwargs = self.callbacks.pop()
            if isinstance(fn, (Bound, FuncRef, Hook)):
                interp.apply(fn, list(args), dict(kwargs))
            else:
                interp.as_callable(fn)(*args, **kwargs)


import operator as _operator  # noqa: E402
import keyword as _keyword  # noqa: E402  (pure, total predicates of the standard library: safe to answer for)

_EXTERNAL: dict[str, Any] = {'contextlib.ExitStack': Hook(lambda: ExitStackM()), 'contextlib.suppress': Hook(lambda *classes: SuppressM(classes)),
                             'operator': Hook(None, iadd=Hook(_operator.iadd), add=Hook(_operator.add), mul=Hook(_operator.mul), or_=Hook(_operator.or_),
                                              and_=Hook(_operator.and_), eq=Hook(_operator.eq), itemgetter=Hook(_operator.itemgetter)),
                             'keyword': Hook(None, iskeyword=Hook(_keyword.iskeyword), issoftkeyword=Hook(_keyword.issoftkeyword),
                                             kwlist=list(_keyword.kwlist), softkwlist=list(_keyword.softkwlist))}
