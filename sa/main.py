"""Entry point: python -m sa.main <Cnn> [--tier quick|thorough]"""
from __future__ import annotations

import argparse
import importlib
import os
import sys
import time
import traceback

from .context import Analysis
from .loader import AnalysisError
from .report import RuleReport, finish


def run_property(prop: str, tier: str) -> int:
    t0 = time.time()
    try:
        mod = importlib.import_module(f'sa.props.{prop.lower()}')
    except ModuleNotFoundError:
        print(f'ANALYSIS-ERROR property={prop} no check implemented')
        return 2
    errors: list[str] = []
    reports: list[RuleReport] = []
    a = None
    try:
        a = Analysis()
        for rule in mod.RULES:
            try:
                res = rule(a, tier)
                if isinstance(res, RuleReport):
                    reports.append(res)
                else:
                    reports.extend(res)
            except AnalysisError as e:
                errors.append(f'{rule.__name__}: {e}')
            except RecursionError:
                errors.append(f'{rule.__name__}: recursion limit in analysis')
            except Exception as e:  # noqa: BLE001 - a traceback must not look like a violation
                tb = traceback.format_exc().strip().splitlines()
                errors.append(f'{rule.__name__}: internal error {type(e).__name__}: {e} @ {tb[-3].strip() if len(tb) > 2 else ""}')
    except AnalysisError as e:
        errors.append(str(e))
    return finish(
        prop,
        tier,
        mod.LEVEL,
        reports,
        t0=t0,
        explanation=mod.EXPLANATION,
        assumptions=mod.ASSUMPTIONS,
        analysis_errors=errors,
        project_stats=a.stats() if a else None,
        extra_coverage={**_consulted(a), **getattr(mod, 'extra_coverage', lambda *_: {})(reports, tier)},
    )


def _consulted(a) -> dict:
    """Which repository functions the rules of this run looked up by name, executed abstractly or interpreted."""
    from .loader import ANCHORED, CONSULTED, EXECUTED
    if a is None:
        return {}
    have = lambda s_: sorted(q for q in s_ if dict.__contains__(a.p.functions, q))  # noqa: E731
    ex, an = have(EXECUTED), have(ANCHORED)
    return {'functions_executed_or_anchored': len(set(ex) | set(an)), 'functions_executed': ex, 'functions_anchored': an,
            'functions_resolved': len(have(CONSULTED | EXECUTED | ANCHORED)),
            'functions_rule': 'executed = the function body was executed abstractly (paths) or interpreted (minieval / modelinterp), directly or as a '
                              'callee; anchored = a rule asked for it by qualified name (its absence is an ANALYSIS-ERROR); resolved = additionally looked '
                              'up as a call target by the resolver / raise summaries; package-wide scans (who-may rules) count for none of these'}


def explain(path: str) -> int:
    """./vcheck explain <violation file>: print the recorded violation and re-run its property; exit 1 while the same (rule, construct, key) is
    still reported on the current tree, 0 when it is gone."""
    import io
    import json
    from contextlib import redirect_stdout
    try:
        v = json.loads(open(path, encoding='utf-8').read())
    except (OSError, ValueError) as e:
        print(f'ANALYSIS-ERROR cannot read {path}: {e}')
        return 2
    print(json.dumps({k: v.get(k) for k in ('property', 'rule', 'construct', 'key', 'loc', 'message', 'path')}, indent=1))
    print('rule:', v.get('rule_text', '')[:1200])
    buf = io.StringIO()
    import pathlib
    import shutil
    import tempfile

    from . import report
    scratch = tempfile.mkdtemp(prefix='verif-explain.')  # the evidence of the registered checks is not touched by an explanation
    report.EVIDENCE_DIR = pathlib.Path(scratch)
    with redirect_stdout(buf):
        run_property(str(v.get('property', '')).upper(), 'quick')
    still = [ln for ln in buf.getvalue().splitlines() if f"[{v.get('rule')}]" in ln and str(v.get('construct')) in ln]
    vdir = os.path.join(scratch, 'violations')
    same = False
    if os.path.isdir(vdir):
        for fn in os.listdir(vdir):
            try:
                w = json.loads(open(os.path.join(vdir, fn), encoding='utf-8').read())
            except (OSError, ValueError):
                continue
            if all(w.get(k) == v.get(k) for k in ('property', 'rule', 'construct', 'key')):
                same = True
    shutil.rmtree(scratch, ignore_errors=True)
    print('STILL REPORTED on the current tree' if (same or still) else 'no longer reported on the current tree')
    for ln in still[:5]:
        print(ln)
    return 1 if (same or still) else 0


def main(argv=None) -> int:
    argv = list(sys.argv[1:] if argv is None else argv)
    if argv and argv[0] == 'explain':
        if len(argv) != 2:
            print('usage: ./vcheck explain <violation.json>')
            return 2
        return explain(argv[1])
    ap = argparse.ArgumentParser()
    ap.add_argument('prop')
    ap.add_argument('--tier', default=os.environ.get('VERIF_TIER', 'quick'), choices=['quick', 'thorough'])
    args = ap.parse_args(argv)
    sys.setrecursionlimit(10000)
    return run_property(args.prop.upper(), args.tier)


if __name__ == '__main__':
    sys.exit(main())
