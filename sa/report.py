"""Findings, rule reports, evidence files, known findings, exit codes."""
from __future__ import annotations

import json
import os
import re
import time
from dataclasses import asdict, dataclass, field
from pathlib import Path
from typing import Any

VERIF = Path(__file__).resolve().parent.parent
EVIDENCE_DIR = Path(os.environ.get('VERIF_EVIDENCE_DIR', VERIF / 'evidence'))
KNOWN_FILE = VERIF / 'known_findings.json'


@dataclass
class Finding:
    rule: str  # e.g. C05.R3
    construct: str  # qualified function/class/site
    key: str  # stable, line-number-free discriminator (normalised statement / semantic key)
    message: str
    loc: str = ''  # file:line
    path: list[str] = field(default_factory=list)  # offending path / call chain
    info_only: bool = False

    def ident(self) -> tuple[str, str, str]:
        return (self.rule, self.construct, self.key)


@dataclass
class RuleReport:
    rule: str
    text: str  # the rule, in words
    instances: list[Any] = field(default_factory=list)  # what was checked (JSON-able)
    findings: list[Finding] = field(default_factory=list)
    floor: int = 1  # hand-confirmed minimum number of instances
    notes: list[str] = field(default_factory=list)

    def add(self, inst: Any) -> None:
        self.instances.append(inst)

    def fail(self, construct: str, key: str, message: str, loc: str = '', path: list[str] | None = None) -> None:
        self.findings.append(Finding(self.rule, construct, key, message, loc, path or []))


def load_known() -> list[dict]:
    if not KNOWN_FILE.exists():
        return []
    data = json.loads(KNOWN_FILE.read_text())
    return data.get('findings', [])


def match_known(prop: str, f: Finding, known: list[dict]) -> dict | None:
    for k in known:
        if k.get('status') != 'known':
            continue  # `fixed` entries suppress nothing
        if k['property'] != prop or k['rule'] != f.rule:
            continue
        if k['construct'] != f.construct or k['key'] != f.key:
            continue
        return k
    return None


def _slug(s: str) -> str:
    return re.sub(r'[^A-Za-z0-9_.-]+', '_', s)[:80]


def finish(
    prop: str,
    tier: str,
    level: str,
    reports: list[RuleReport],
    *,
    t0: float,
    explanation: str,
    assumptions: list[str],
    extra_coverage: dict | None = None,
    analysis_errors: list[str] | None = None,
    project_stats: dict | None = None,
) -> int:
    """Print the verdict, write evidence, return the exit code."""
    known = load_known()
    analysis_errors = list(analysis_errors or [])
    for r in reports:
        if len(r.instances) < r.floor and not any(not getattr(f_, "info_only", False) for f_ in r.findings):
            analysis_errors.append(
                f'{r.rule}: only {len(r.instances)} instances found, hand-confirmed floor is {r.floor} '
                f'(rule would pass vacuously)'
            )

    violations: list[Finding] = []
    known_hits: list[tuple[Finding, dict]] = []
    seen_idents: set = set()
    for r in reports:
        for f in r.findings:
            if f.info_only or f.ident() in seen_idents:
                continue
            seen_idents.add(f.ident())
            k = match_known(prop, f, known)
            if k:
                known_hits.append((f, k))
            else:
                violations.append(f)

    vdir = EVIDENCE_DIR / 'violations'
    for f, k in known_hits:
        print(f'KNOWN-FINDING: property={prop} {f.rule} {f.construct}: {k.get("what", f.message)}')
    for f in violations:
        vdir.mkdir(parents=True, exist_ok=True)
        rp = vdir / f'{prop}-{_slug(f.rule)}-{_slug(f.construct)}-{_slug(f.key)}.json'
        rule_text = next((r.text for r in reports if r.rule == f.rule), '')
        rp.write_text(json.dumps({'property': prop, 'rule_text': rule_text, **asdict(f)}, indent=1))
        print(f'  {f.loc or "?"}: [{f.rule}] {f.construct}: {f.message}')
        for step in f.path:
            print(f'      via {step}')
        print(f'VIOLATION property={prop} replay={rp}')
    for e in analysis_errors:
        print(f'ANALYSIS-ERROR property={prop} {e}')

    n_inst = sum(len(r.instances) for r in reports)
    distinct = len({json.dumps(i, sort_keys=True, default=str) for r in reports for i in r.instances})
    samples = []
    for r in reports:
        samples.append({
            'rule': r.rule,
            'text': r.text,
            'instances_checked': len(r.instances),
            'floor': r.floor,
            'findings': [f'{f.construct}: {f.message}' for f in r.findings],
            'instances': r.instances[:40],
            'notes': r.notes,
        })
    coverage = {
        'explanation': explanation,
        'evaluations': max(1, n_inst),
        'distinct_nontrivial': max(2, distinct) if n_inst >= 2 else distinct,
        'rule': 'one evaluation = one rule instance (a construct of /repo the rule was applied to: function, '
                'call site, class, table cell, path); distinct = distinct JSON descriptions of those instances; '
                'every instance names repo source, none is a constant of the checker',
        'samples': samples,
        'rules': len(reports),
        'known_findings_matched': len(known_hits),
        'analysis_errors': analysis_errors,
    }
    if project_stats:
        coverage['analysed'] = project_stats
    if extra_coverage:
        coverage.update(extra_coverage)
    ev = {
        'property_id': prop,
        'tier': tier,
        'seed': int(os.environ.get('VERIF_SEED', '0') or 0),
        'level': level,
        'coverage': coverage,
        'assumptions': assumptions,
        'wall_s': round(time.time() - t0, 3),
        'violations': len(violations),
    }
    EVIDENCE_DIR.mkdir(parents=True, exist_ok=True)
    (EVIDENCE_DIR / f'{prop}.json').write_text(json.dumps(ev, indent=1, default=str))

    if violations:
        return 1  # a violation stands even if another rule could not run (its ANALYSIS-ERROR line is printed above)
    if analysis_errors:
        return 2
    print(f'OK property={prop} tier={tier} rules={len(reports)} instances={n_inst} '
          f'known_findings={len(known_hits)} wall={ev["wall_s"]}s')
    return 0
