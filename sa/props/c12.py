"""C12 - source positions and parse information are exact (structural clauses)."""
from __future__ import annotations

import ast
import re

from ..loader import AnalysisError, dotted, norm, walk_no_defs
from ..regexlang import Unsupported as RxUnsupported
from ..regexlang import compile_nfa, included
from ..report import RuleReport
from ..rules.common import run_flags

LEVEL = 'other'
TECHNIQUE = ('static: regular-language inclusion for the line splitter of both input implementations, sibling agreement of the '
             'line index construction, exhaustive finite-domain interpretation of build_line_cache/lineinfo/lineat/poscol over {letter, LF, CR}, '
             ' def-use dataflow of the ParseInfo fields, placement of the memo key after whitespace')
LEVEL_TEXT = ('Decides from the source: both input implementations split lines with str.splitlines(keepends) or with a regex '
              'whose language is included in `[^\\r\\n]*(\\r\\n|\\r|\\n)|[^\\r\\n]+` (no line contains an inner LF/CR/CRLF break), '
              'build their offset->line cache with the one shared builder and read it under the same guards; every ParseInfo '
              'is built from the invoked rule\'s name, the key position taken after whitespace skipping, the position at rule '
              'exit, and lineat() of those same two offsets; the line/column/line-text arithmetic of both inputs is decided '
              'exhaustively for all texts over {letter, LF, CR} up to length 4 (thorough: 6) and all offsets inside them. Longer texts, '
              'other line-boundary characters and the line/column values reported at offset == len(text) are not decided.')
TECHNIQUE += "; origin tracing of every ParseInfo field to the invoked rule's RuleInfo and key; edge-position interpretation of all input implementations at len(text) and on the empty text"
LEVEL_TEXT += " Added clauses: the rule name in ParseInfo is the invoked rule's (not the top of the call stack); line queries at the end of text and on the empty text do not index out of range."
TECHNIQUE += '; delivery of the ParseInfo (set_parseinfo interpreted on nodes with a set_parseinfo method, with a parseinfo attribute, and plain values; AST.set_parseinfo stores under the key its property reads)'
LEVEL_TEXT += ' Added clause: parse information reaches both dict-like ASTs and model nodes, and nothing when it is off.'
TECHNIQUE += '; freshness of make_parseinfo (a new record per call; no reuse keyed on a subset of the fields)'
LEVEL_TEXT += ' Added clause: two invocations with the same rule and start get their own end positions.'
LEVEL_TEXT += " Added clauses (rounds 9-11): lineinfo answers do not depend on earlier queries; the start offset's dependence on is_tokn (name table)."
TECHNIQUE += '; the skip before a rule is a fixpoint (= C09.R2a)'
TECHNIQUE += '; a memo hit hands the stored result back unchanged (= C04.R2)'
TECHNIQUE += '; answers have no memory: one stand-in input asked for all offsets in three orders (R3b)'
TECHNIQUE += "; is_tokn derivation decides where a rule's start offset is taken (R7 = C09.R1)"
LEVEL_NOTE = 'Trusted: str.splitlines(True) ends lines at \\n, \\r and \\r\\n (and keeps the terminators).'
EXPLANATION = ('Static analysis of /repo sources, TatSu not imported. split_block_lines is resolved through helper functions to '
               'its splitting primitive; regex literals are compiled to NFAs by the checker and compared by language inclusion.')
ASSUMPTIONS = [LEVEL_NOTE]

ENGINE = 'tatsu.contexts.engine.ParserEngine'
LINE_LANGUAGE = r'[^\r\n]*(?:\r\n|\r|\n)|[^\r\n]+'
TEXTS = ['tatsu.input.textlines.TextLines', 'tatsu.input.buffer.Buffer']


def _regex_literals(a, fn):
    """(pattern, flags) of the regex a splitting helper applies: re.findall(P, s) / RE.findall(s) / RE.finditer(s)."""
    out = []
    for n in walk_no_defs(fn.node):
        if not isinstance(n, ast.Call) or not isinstance(n.func, ast.Attribute) or n.func.attr not in ('findall', 'finditer', 'split', 'match', 'fullmatch'):
            continue
        recv = n.func.value
        if isinstance(recv, ast.Name) and recv.id == 're' and n.args and isinstance(n.args[0], ast.Constant):
            out.append((n.func.attr, n.args[0].value))
        elif isinstance(recv, ast.Name):
            q = a.p.resolve(fn.module.name, recv.id)
            m, _, nm = q.rpartition('.')
            mod = a.p.modules.get(m)
            v = mod.assigns.get(nm) if mod else None
            if isinstance(v, ast.Call) and dotted(v.func).endswith('compile') and v.args and isinstance(v.args[0], ast.Constant):
                out.append((n.func.attr, v.args[0].value))
    return out


def r0_line_splitter(a, tier):
    rep = RuleReport(
        'C12.R0',
        'line splitting agrees with the three line-break conventions in BOTH input implementations: split_block_lines resolves '
        '(through helpers) to str.splitlines(keepends=True), or to a regex splitter whose language is included in '
        '`[^\\r\\n]*(\\r\\n|\\r|\\n)|[^\\r\\n]+` - no "line" may contain an inner LF, CR or CRLF; both implementations use the '
        'same primitive',
        floor=2,
    )
    prims = {}
    for c in TEXTS:
        fn = a.p.func(f'{c}.split_block_lines')
        rets = [r.value for r in walk_no_defs(fn.node) if isinstance(r, ast.Return) and r.value is not None]
        if len(rets) != 1:
            raise AnalysisError(f'{fn.qualname}: expected a single return')
        e = rets[0]
        verdict = None
        for _ in range(4):
            if isinstance(e, ast.Call) and isinstance(e.func, ast.Attribute) and e.func.attr == 'splitlines':
                keep = (e.args and isinstance(e.args[0], ast.Constant) and e.args[0].value is True) or any(
                    k.arg == 'keepends' and isinstance(k.value, ast.Constant) and k.value.value is True for k in e.keywords)
                verdict = ('splitlines(keepends)' if keep else 'splitlines() WITHOUT keepends', keep, None)
                break
            if isinstance(e, ast.Call) and isinstance(e.func, ast.Name):
                q = a.p.resolve(fn.module.name, e.func.id)
                helper = a.p.functions.get(q)
                if helper is None:
                    break
                lits = _regex_literals(a, helper)
                if lits:
                    kind, pat = lits[0]
                    try:
                        ok, witness = included(compile_nfa(pat), compile_nfa(LINE_LANGUAGE))
                    except RxUnsupported as ex:
                        raise AnalysisError(f'{helper.qualname}: cannot decide the splitter regex {pat!r}: {ex}') from ex
                    verdict = (f're {kind} {pat!r}', ok, witness)
                    fn_for_loc = helper
                    break
                hrets = [r.value for r in walk_no_defs(helper.node) if isinstance(r, ast.Return) and r.value is not None]
                if len(hrets) != 1:
                    break
                e, fn = hrets[0], helper
                continue
            break
        if verdict is None:
            raise AnalysisError(f'{c}.split_block_lines: cannot resolve the line-splitting primitive from `{norm(rets[0])}`')
        what, ok, witness = verdict
        prims[c] = what
        rep.add({'input_class': c, 'splitter': what, 'agrees_with_LF_CR_CRLF': ok, 'counterexample_line': witness})
        if not ok:
            loc = a.p.func(f'{c}.split_block_lines').loc
            rep.fail(f'{c}.split_block_lines', f'splitter:{what}',
                     f'lines are split with {what}: ' + (f'the "line" {witness!r} is in its language although it contains an inner line '
                                                         f'break - line numbers, columns and line text after a CR-only (or other) break are wrong'
                                                         if witness is not None else 'line terminators are dropped, offsets no longer add up'), loc)
    if len(set(prims.values())) > 1:
        rep.fail(TEXTS[1] + '.split_block_lines', 'splitter-siblings', f'the two input implementations split lines differently: {prims}', '')
    return rep


def r1_parseinfo(a, tier):
    rep = RuleReport(
        'C12.R1',
        'parse information dataflow: every ParseInfo is built by make_parseinfo(name, pos) with rule <- name, pos <- pos, '
        'endpos <- the position at rule exit (self.pos), line/endline <- cursor.lineat of those same two offsets; every '
        'caller passes the invoked rule\'s name (ri.name) and the position of the memo key, which call() reads after '
        'next_token(ri)',
        floor=4,
    )
    mp = a.p.func(f'{ENGINE}.make_parseinfo')
    ctor = [n for n in walk_no_defs(mp.node) if isinstance(n, ast.Call) and dotted(n.func) == 'ParseInfo']
    if len(ctor) != 1:
        raise AnalysisError('make_parseinfo: expected one ParseInfo(...) construction')
    from ..rules.common import through_locals
    # freshness: what make_parseinfo returns is None or the ParseInfo built IN THIS CALL from the current state (a remembered object
    # carries the end position of an earlier exit of the rule: a left-recursive rule exits several times from the same start)
    built_targets = {norm(t) for n in walk_no_defs(mp.node) if isinstance(n, ast.Assign) and n.value is ctor[0] for t in n.targets}
    other_sources = {norm(t) for n in walk_no_defs(mp.node) if isinstance(n, ast.Assign) and n.value is not ctor[0] for t in n.targets}
    for r in [n for n in walk_no_defs(mp.node) if isinstance(n, ast.Return)]:
        v = r.value
        fresh = v is None or (isinstance(v, ast.Constant) and v.value is None) or v is ctor[0] or (norm(v) in built_targets and norm(v) not in other_sources)
        rep.add({'make_parseinfo_returns': norm(v) if v is not None else 'None', 'built_in_this_call_or_None': fresh})
        if not fresh:
            rep.fail(mp.qualname, f'parseinfo-not-fresh:{norm(v)[:30]}', f'make_parseinfo returns `{norm(v)}`, which is not the ParseInfo constructed in this call: '
                     f'the end offset and end line it carries belong to an earlier exit', f'{mp.module.relpath}:{r.lineno}')

    # read-only properties of the engine that only hand out an attribute chain (cursor -> self.state.cursor, state -> self.states.state,
    # pos -> self.states.state.cursor.pos): `self.cursor.lineat(p)` and `cur = self.state.cursor; cur.lineat(p)` are the same read
    props: dict[str, str] = {}
    for q_ in a.ct.mro(ENGINE):
        ci_ = a.p.classes.get(q_)
        for nm_, m_ in (ci_.methods.items() if ci_ else ()):
            body_ = [x for x in m_.node.body if not (isinstance(x, ast.Expr) and isinstance(x.value, ast.Constant))]
            if nm_ not in props and any(d.split('.')[-1] in ('property', 'cached_property') for d in m_.decorators) and len(body_) == 1 \
                    and isinstance(body_[0], ast.Return) and body_[0].value is not None and re.fullmatch(r'self(\.\w+)+', norm(body_[0].value)):
                props[nm_] = norm(body_[0].value)

    def canon_text(t: str) -> str:
        for _ in range(8):
            t2 = re.sub(r'\bself\.(\w+)\b(?!\()', lambda m: props.get(m.group(1), m.group(0)) if m.group(1) in props else m.group(0), t)
            if t2 == t:
                break
            t = t2
        return t

    def _res(fn, e):
        e = through_locals(fn, e)
        if isinstance(e, ast.Call):
            return f'{_res(fn, e.func)}({", ".join(_res(fn, x) for x in e.args)})'
        if isinstance(e, ast.Attribute):
            return f'{_res(fn, e.value)}.{e.attr}'
        return norm(e)

    def res(fn, e):
        """text of E with single-assignment locals of FN looked through (endpos -> self.pos, cur -> self.cursor) and the engine's
        attribute-chain properties expanded"""
        return canon_text(_res(fn, e))

    engine_fns = [f for f in a.p.functions.values() if f.qualname.startswith('tatsu.contexts.')]

    def origins(fn, e, depth=0) -> set:
        """where the value of E (an expression of FN) comes from, followed through parameters to the outermost callers in the
        engine: a set of (function, annotation-of-the-root-name, text)"""
        e = through_locals(fn, e)
        if isinstance(e, ast.Name) and e.id in fn.params and depth < 6:
            sites = []
            for g in engine_fns:
                for n in walk_no_defs(g.node):
                    if isinstance(n, ast.Call) and isinstance(n.func, ast.Attribute) and n.func.attr == fn.name and norm(n.func.value) == 'self':
                        params = fn.params[1:] if fn.params and fn.params[0] == 'self' else fn.params
                        arg = None
                        if e.id in params and params.index(e.id) < len(n.args):
                            arg = n.args[params.index(e.id)]
                        for k in n.keywords:
                            if k.arg == e.id:
                                arg = k.value
                        sites.append((g, arg))
            if sites:
                out = set()
                for g, arg in sites:
                    out |= origins(g, arg, depth + 1) if arg is not None else {(g.name, '?', '<not passed>')}
                return out
        root = e
        while isinstance(root, ast.Attribute):
            root = root.value
        ann = ''
        if isinstance(root, ast.Name):
            for x in ast.walk(fn.node.args):
                if isinstance(x, ast.arg) and x.arg == root.id and x.annotation is not None:
                    ann = norm(x.annotation)
        return {(fn.name, ann, res(fn, e))}

    kwn = {k.arg: k.value for k in ctor[0].keywords}
    kw = {k: res(mp, v) for k, v in kwn.items()}
    POS = tuple(dict.fromkeys(canon_text(x) for x in ('self.pos', 'self.cursor.pos', 'self.state.cursor.pos')))
    LINEAT = canon_text('self.cursor.lineat')
    # rule <- the name of the INVOKED rule (a RuleInfo parameter of the function that starts the flow), never the call stack
    rule_or = origins(mp, kwn['rule']) if 'rule' in kwn else set()
    ok = bool(rule_or) and all(ann.endswith('RuleInfo') and text.endswith('.name') and text.count('.') == 1 for _f, ann, text in rule_or)
    rep.add({'ParseInfo_field': 'rule', 'comes_from': sorted(f'{f}: {t}' for f, _a, t in rule_or), 'ok': ok})
    if not ok:
        rep.fail(mp.qualname, 'field:rule', f'ParseInfo.rule comes from {sorted(f"{f}: {t}" for f, _a, t in rule_or)}; required: the name of the '
                 f'invoked rule (`<ri>.name` of the RuleInfo the caller was invoked with) on every flow - the top of the call stack is '
                 f'the caller for a @nostak rule', mp.loc)
    pos_or = origins(mp, kwn['pos']) if 'pos' in kwn else set()
    ok = bool(pos_or) and all(ann.endswith('MemoKey') and text.endswith('.pos') and text.count('.') == 1 for _f, ann, text in pos_or)
    rep.add({'ParseInfo_field': 'pos', 'comes_from': sorted(f'{f}: {t}' for f, _a, t in pos_or), 'ok': ok})
    if not ok:
        rep.fail(mp.qualname, 'field:pos', f'ParseInfo.pos comes from {sorted(f"{f}: {t}" for f, _a, t in pos_or)}; required: the position of '
                 f'the memo key (`<key>.pos`, taken after whitespace skipping) on every flow', mp.loc)
    line_arg = None
    if 'line' in kwn and isinstance(through_locals(mp, kwn['line']), ast.Call):
        lc = through_locals(mp, kwn['line'])
        if res(mp, lc.func) == LINEAT and len(lc.args) == 1:
            line_arg = lc.args[0]
    ok = line_arg is not None and origins(mp, line_arg) == pos_or
    rep.add({'ParseInfo_field': 'line', 'from': kw.get('line'), 'ok': ok})
    if not ok:
        rep.fail(mp.qualname, 'field:line', f'ParseInfo.line is built from `{kw.get("line")}`, required cursor.lineat() of the start offset', mp.loc)
    for fld, ws in {'endline': tuple(f'{LINEAT}({x})' for x in POS), 'endpos': POS}.items():
        ok = kw.get(fld) in ws
        rep.add({'ParseInfo_field': fld, 'from': kw.get(fld), 'want': ws[0], 'ok': ok})
        if not ok:
            rep.fail(mp.qualname, f'field:{fld}', f'ParseInfo.{fld} is built from `{kw.get(fld)}`, required `{ws[0]}` (the position at rule exit)', mp.loc)
    if kw.get('endline', '').replace(f'{LINEAT}(', '').rstrip(')') != kw.get('endpos'):
        rep.fail(mp.qualname, 'field:endline-endpos', f'ParseInfo.endline `{kw.get("endline")}` is not the line of ParseInfo.endpos '
                 f'`{kw.get("endpos")}`', mp.loc)
    # semantics_call receives pos=key.pos from rule_call
    rc = a.p.func(f'{ENGINE}.rule_call')
    sc = [n for n in walk_no_defs(rc.node) if isinstance(n, ast.Call) and dotted(n.func) == 'self.semantics_call']
    keyp = rc.params[2] if len(rc.params) > 2 else 'key'

    def is_keypos(e):
        return norm(through_locals(rc, e)) == f'{keyp}.pos'  # also through a local alias (`pos = key.pos`)
    ok = bool(sc) and all(any(k.arg == 'pos' and is_keypos(k.value) for k in n.keywords) or (len(n.args) >= 3 and is_keypos(n.args[2])) for n in sc)
    rep.add({'rule_call_passes_key.pos_to_semantics_call': ok})
    if not ok:
        rep.fail(rc.qualname, 'sem-pos', 'rule_call does not pass key.pos to semantics_call', rc.loc)
    # key after next_token in call()
    call = a.p.func(f'{ENGINE}.call')

    def flagger(ex, fn, node, state):
        nm = dotted(node.func)
        if fn is call and nm == 'self.next_token':
            return ('skipped',)
        if fn is call and (nm == 'self.memokey' or nm.endswith('MemoKey')) and 'skipped' not in state:
            return ('key_before_skip',)
        return ()

    bad = any('key_before_skip' in o.state for o in run_flags(a, call, flagger))
    rep.add({'memo_key_after_next_token': not bad})
    if bad:
        rep.fail(call.qualname, 'key-before-skip', 'the key position (ParseInfo.pos) is read before whitespace is skipped: the '
                 'offsets would include leading whitespace', call.loc)
    return rep


def r2_one_index(a, tier):
    rep = RuleReport(
        'C12.R2',
        'one line index: both input implementations build their offset cache with PosLine.build_line_cache(lines, len(text)) '
        'from the lines produced by their own split_block_lines; at the end of every text over {a, LF} up to length 2 and in the empty '
        'text, lineinfo / lineat / poscol of all three implementations (interpreted) answer without an exception',
        floor=4,
    )
    for c, post in (('tatsu.input.textlines.TextLines', '_postprocess'), ('tatsu.input.buffer.Buffer', '_postprocess')):
        fn = a.p.func(f'{c}.{post}')
        calls = [n for n in walk_no_defs(fn.node) if isinstance(n, ast.Call) and dotted(n.func).endswith('build_line_cache')]
        ok = len(calls) == 1 and len(calls[0].args) == 2 and norm(calls[0].args[0]) == 'self.lines' and norm(calls[0].args[1]).startswith('len(self.text')
        rep.add({'class': c, 'cache_built_by': [norm(n) for n in calls], 'ok': ok})
        if not ok:
            rep.fail(fn.qualname, 'cache-builder', f'{c.split(".")[-1]} does not build its line cache with '
                     f'PosLine.build_line_cache(self.lines, len(<text>))', fn.loc)
    for row in edge_positions(a):
        rep.add(row)
        if not row['ok']:
            rep.fail(row['fn'], f'edge:{row["text"]!r}:{row["offset"]}', f'{row["impl"]}.{row["query"]}({row["offset"]}) on the text {row["text"]!r} '
                     f'{row["result"]}: a position at the end of the text (where "unexpected end of input" failures are reported) or in an '
                     f'empty text must be answered, with a line start inside the text', a.p.func(row['fn']).loc)
    return rep


def edge_positions(a):
    """lineinfo / lineat-posline / poscol of the three implementations, interpreted at the offsets the exhaustive rule leaves
    out: offset == len(text) for every text over {a, LF} up to length 2, and offset 0 of the empty text.  Required: no exception,
    and lineinfo's start <= len(text)."""
    import itertools
    from collections import namedtuple

    from ..minieval import Unsupported
    from ..modelinterp import Hook, ModelInterp, Stub
    PL = namedtuple("PosLine", "startpos lineno length")
    hooks = {'PosLine': Hook(PL), 'LineInfo': Hook(lambda **kw: kw)}
    blc = a.p.func('tatsu.input.infos.PosLine.build_line_cache')
    impls = [
        ('tatsu.input.textlines.TextLinesCursor', 'lineat', lambda cache, idx, text: Stub('tatsu.input.textlines.TextLinesCursor', pos=0, _input=Stub(
            'tatsu.input.textlines.TextLines', line_cache=cache, line_index=idx, textstr=text, len=len(text), source='src'))),
        ('tatsu.input.buffer.BufferCursor', 'lineat', lambda cache, idx, text: Stub('tatsu.input.buffer.BufferCursor', pos=0, buffer=Stub(
            'tatsu.input.buffer.Buffer', linecache=cache, lineindex=idx, text=text, source='src'), textstr=text)),
        ('tatsu.input.buffer.Buffer', 'posline', lambda cache, idx, text: Stub('tatsu.input.buffer.Buffer', pos=0, linecache=cache, lineindex=idx,
                                                                            text=text, source='src', len=len(text))),
    ]
    rows = []
    for k in range(0, 3):
        for tup in itertools.product('a\n', repeat=k):
            text = ''.join(tup)
            lines = text.splitlines(True)
            try:
                built = ModelInterp(a, dict(hooks)).call_fn(blc, [lines, len(text)])
            except Unsupported as e:
                raise AnalysisError(f'cannot interpret build_line_cache: {e}') from e
            cache = built[0] if isinstance(built, tuple) else built
            idx = [('src', i) for i in range(len(lines))]
            for q, lineq, mk in impls:
                for query in ('lineinfo', lineq, 'poscol'):
                    cur = mk(cache, idx, text)
                    it = ModelInterp(a, dict(hooks))
                    try:
                        r = it.apply(it.get_attr(cur, query), [len(text)], {})
                        ok = True
                        if query == 'lineinfo':
                            ok = 0 <= r['start'] <= len(text) and r['col'] >= 0
                        res = f'gives {r}'
                    except Unsupported as e:
                        raise AnalysisError(f'cannot interpret {q}.{query}: {e}') from e
                    except Exception as e:  # noqa: BLE001 - an exception of the interpreted code (IndexError ...)
                        ok, res = False, f'raises {type(e).__name__}: {e}'
                    rows.append({'fn': f'{q}.{query}', 'impl': q.split('.')[-1], 'query': query, 'text': text, 'offset': len(text), 'result': res, 'ok': ok})
    return rows


def r3_line_index_exhaustive(a, tier):
    import itertools
    from collections import namedtuple

    from ..minieval import Unsupported
    from ..modelinterp import Bound, Hook, ModelInterp, Stub
    n = 6 if tier == 'thorough' else 4
    rep = RuleReport(
        'C12.R3',
        f'line index, exhaustively over the abstract alphabet {{letter, LF, CR}}: for every text up to length {n} and every offset '
        'inside it, PosLine.build_line_cache and the lineinfo / lineat / poscol methods of TextLinesCursor, BufferCursor and Buffer '
        '(all interpreted on stand-in inputs, with the cursor standing at the start and at the end of the text) report the line number, column, line start and line text obtained by splitting the '
        'text at LF, CR and CRLF; lineat and poscol of the cursors agree with lineinfo',
        floor=300,
    )
    PL = namedtuple("PosLine", "startpos lineno length")
    hooks = {'PosLine': Hook(PL), 'LineInfo': Hook(lambda **kw: kw)}
    blc = a.p.func('tatsu.input.infos.PosLine.build_line_cache')
    impls = [
        ('tatsu.input.textlines.TextLinesCursor', lambda cache, idx, text: Stub('tatsu.input.textlines.TextLinesCursor', pos=0, _input=Stub(
            'tatsu.input.textlines.TextLines', line_cache=cache, line_index=idx, textstr=text, len=len(text), source='src'))),
        ('tatsu.input.buffer.BufferCursor', lambda cache, idx, text: Stub('tatsu.input.buffer.BufferCursor', pos=0, buffer=Stub(
            'tatsu.input.buffer.Buffer', pos=0, linecache=cache, lineindex=idx, text=text, source='src', len=len(text)), textstr=text)),
        ('tatsu.input.buffer.Buffer', lambda cache, idx, text: Stub('tatsu.input.buffer.Buffer', pos=0, linecache=cache, lineindex=idx,
                                                                 text=text, source='src', len=len(text))),
    ]
    n_bad = 0
    for k in range(0, n + 1):
        for tup in itertools.product('a\n\r', repeat=k):
            text = ''.join(tup)
            lines = text.splitlines(True)
            it = ModelInterp(a, dict(hooks))
            try:
                cache, count = it.call_fn(blc, [lines, len(text)])
            except Unsupported as e:
                raise AnalysisError(f'cannot interpret build_line_cache: {e}') from e
            idx = [('src', i) for i in range(len(lines))]
            # oracle
            want = []
            start = 0
            for ln, line in enumerate(lines):
                for j in range(len(line)):
                    want.append((ln, j, start, line))
                start += len(line)
            for q, mk in impls:
                for p_, w, at in [(p_, w, at) for p_, w in enumerate(want) for at in sorted({0, len(text)})]:
                    cur = mk(cache, idx, text)
                    cur._attrs['pos'] = at  # where the cursor stands must not matter for an explicit offset
                    it = ModelInterp(a, dict(hooks))
                    try:
                        li = it.apply(it.get_attr(cur, 'lineinfo'), [p_], {})
                        la = it.apply(it.get_attr(cur, 'lineat' if q != 'tatsu.input.buffer.Buffer' else 'posline'), [p_], {})
                        pc = it.apply(it.get_attr(cur, 'poscol'), [p_], {})
                    except Unsupported as e:
                        raise AnalysisError(f'cannot interpret {q}.lineinfo/lineat/poscol: {e}') from e
                    got = (li['line'], li['col'], li['start'], li['text'])
                    ok = got == w and la == w[0] and pc == w[1]
                    if at == 0:
                        # without an argument the position is the CURSOR's own (a failure asks its cursor with no argument); the
                        # underlying buffer of a BufferCursor keeps standing at 0
                        cur2 = mk(cache, idx, text)
                        cur2._attrs['pos'] = p_
                        it2 = ModelInterp(a, dict(hooks))
                        try:
                            li2 = it2.apply(it2.get_attr(cur2, 'lineinfo'), [], {})
                        except Unsupported as e:
                            raise AnalysisError(f'cannot interpret {q}.lineinfo(): {e}') from e
                        got2 = (li2['line'], li2['col'], li2['start'], li2['text'])
                        if got2 != w:
                            ok = False
                            got = got2
                    rep.add({'impl': q.split('.')[-1], 'text': text, 'cursor_at': at, 'offset': p_, 'lineinfo': list(got), 'lineat': la, 'poscol': pc, 'ok': ok})
                    if not ok and n_bad < 8:
                        n_bad += 1
                        rep.fail(f'{q}.lineinfo', f'lineindex:{text!r}:{p_}:{at}', f'{q.split(".")[-1]} on the text {text!r}, offset {p_}, cursor standing at {at}: lineinfo gives '
                                 f'(line, col, start, text) = {got}, lineat/posline {la}, poscol {pc}; splitting the text at its line breaks '
                                 f'gives {w}', a.p.func(f'{q}.lineinfo').loc)
    return rep


def _walks(n: int):
    yield 'ascending', list(range(n))
    yield 'descending', list(range(n - 1, -1, -1))
    yield 'zig-zag', [x for i in range((n + 1) // 2) for x in ([i, n - 1 - i] if i != n - 1 - i else [i])]


def r3b_answers_have_no_memory(a, tier):
    """lineinfo(offset) depends on the offset, not on what was asked before: ONE input object is asked for all offsets in several orders"""
    import itertools

    from collections import namedtuple

    from ..minieval import Unsupported
    from ..modelinterp import Hook, ModelInterp, Stub
    n = 5 if tier == 'thorough' else 4
    rep = RuleReport(
        'C12.R3b',
        f'the answer for an offset does not depend on the offsets asked before: for every text over {{letter, LF, CR}} up to length {n} with at least one '
        'line break, ONE stand-in input (one cursor, one line cache) is asked lineinfo(offset) for all offsets in ascending, descending and zig-zag '
        'order; each answer equals the split-at-line-breaks oracle (a remembered last line makes the first offset of the next line look like the end '
        'of the previous one)',
        floor=100,
    )
    helper = a.p.func('tatsu.input.infos.PosLine.build_line_cache')
    PL = namedtuple("PosLine", "startpos lineno length")
    # LineInfo as the record it is (fields read from the repository class): code may read its fields or derive a record from another (`_replace`)
    li_cls = a.p.cls('tatsu.input.infos.LineInfo')
    li_fields = [st.target.id for st in li_cls.node.body if isinstance(st, ast.AnnAssign) and isinstance(st.target, ast.Name)]
    LI = namedtuple('LineInfo', li_fields, defaults=[None] * len(li_fields))
    hooks = {'PosLine': Hook(PL), 'LineInfo': Hook(LI)}
    impls = [
        ('tatsu.input.textlines.TextLinesCursor', lambda cache, idx, text: Stub('tatsu.input.textlines.TextLinesCursor', pos=0, _input=Stub(
            'tatsu.input.textlines.TextLines', line_cache=cache, line_index=idx, textstr=text, len=len(text), source='src'))),
        ('tatsu.input.buffer.BufferCursor', lambda cache, idx, text: Stub('tatsu.input.buffer.BufferCursor', pos=0, buffer=Stub(
            'tatsu.input.buffer.Buffer', pos=0, linecache=cache, lineindex=idx, text=text, source='src', len=len(text)), textstr=text)),
    ]
    n_bad = 0
    for k in range(2, n + 1):
        for tup in itertools.product('a\n\r', repeat=k):
            text = ''.join(tup)
            if '\n' not in text and '\r' not in text:
                continue
            lines = text.splitlines(keepends=True)
            want, start = [], 0
            for ln, line in enumerate(lines):
                for j in range(len(line)):
                    want.append((ln, j, start, line))
                start += len(line)
            for q, mk in impls:
                try:
                    idx = [('src', i) for i in range(len(lines))]
                    cache, _count = ModelInterp(a, dict(hooks)).call_fn(helper, [lines, len(text)])
                except Unsupported as e:
                    raise AnalysisError(f'C12.R3b: cannot interpret build_line_cache: {e}') from e
                for wname, order in _walks(len(text)):
                    cur = mk(cache, idx, text)
                    hist = []
                    for p_ in order:
                        it = ModelInterp(a, dict(hooks))
                        try:
                            li = it.apply(it.get_attr(cur, 'lineinfo'), [p_], {})
                        except Unsupported as e:
                            raise AnalysisError(f'C12.R3b: cannot interpret {q}.lineinfo: {e}') from e
                        got = (li.line, li.col, li.start, li.text)
                        hist.append(p_)
                        if got != want[p_]:
                            if n_bad < 6:
                                n_bad += 1
                                rep.fail(f'{q}.lineinfo', f'history:{text!r}:{wname}:{p_}', f'{q.split(".")[-1]} on the text {text!r}, asked for the offsets {hist} in this order on ONE '
                                         f'input: lineinfo({p_}) gives (line, col, start, text) = {got}, splitting the text at its line breaks gives {want[p_]} - '
                                         f'the answer depends on what was asked before', a.p.func(f'{q}.lineinfo').loc)
                            break
                    rep.add({'impl': q.split('.')[-1], 'text': text, 'order': wname, 'offsets_asked': len(hist), 'ok': len(hist) == len(order) and not (hist and got != want[hist[-1]])})
    return rep


def r4_delivery(a, tier):
    from ..minieval import Obj, Unsupported
    from ..modelinterp import Bound, Hook, ModelInterp, Stub
    rep = RuleReport(
        'C12.R4',
        'delivery of the parse information: set_parseinfo(node, name, pos), interpreted on stand-in nodes, hands the ParseInfo it built '
        'to a node that offers set_parseinfo() (the dict-like AST: the class defines it and stores the value under the key its parseinfo '
        'property reads), assigns it to a node that has a parseinfo attribute (model nodes), and leaves every other value alone; with '
        'parse information off nothing is delivered',
        floor=4,
    )
    ENGINE = 'tatsu.contexts.engine.ParserEngine'
    fn = a.ct.lookup(ENGINE, 'set_parseinfo')
    if fn is None:
        raise AnalysisError('ParserEngine.set_parseinfo not found')
    PI = ('PARSEINFO',)
    _UNDEF = object()
    for what, pi in (('parseinfo on', PI), ('parseinfo off', None)):
        got: list = []
        with_method = Stub('tatsu.contexts.ast.AST', set_parseinfo=Hook(lambda v: got.append(('method', v))))
        with_attr = Stub('tatsu.objectmodel.node.Node', parseinfo=None)
        born_with = Stub('tatsu.objectmodel.node.Node', parseinfo=('PARSEINFO OF AN INNER RULE',))
        plain = 'text'
        for label, node in (('node with set_parseinfo()', with_method), ('node with a parseinfo attribute', with_attr),
                            ('node whose parseinfo attribute already holds the information of an inner rule', born_with), ('a plain string', plain)):
            me = Stub(ENGINE, make_parseinfo=Hook(lambda *x, **k: pi))
            it = ModelInterp(a, {'hasattr': Hook(lambda o, n: isinstance(o, Stub) and n in o._attrs), 'Undefined': _UNDEF,
                                 'getattr': Hook(lambda o, n, *d: (o._attrs[n] if isinstance(o, Stub) and n in o._attrs else (d[0] if d else None)))})
            try:
                it.call_bound(Bound(me, fn), [node, 'rule', 3][:len(fn.node.args.args) - 1], {})
            except Unsupported as e:
                raise AnalysisError(f'C12.R4: cannot interpret set_parseinfo: {e}') from e
            if node is with_method:
                delivered = got[-1][1] if got else None
            elif node is with_attr or node is born_with:
                delivered = node._attrs.get('parseinfo')
            else:
                delivered = None
            want = pi if node is not plain else None
            if node is born_with and pi is None:
                want = ('PARSEINFO OF AN INNER RULE',)
            ok = delivered == want
            rep.add({'config': what, 'node': label, 'delivered': repr(delivered), 'want': repr(want), 'ok': ok})
            if not ok:
                rep.fail(fn.qualname, f'delivery:{what}:{label}', f'set_parseinfo with {what} on a {label} delivers {delivered!r}; required {want!r}', fn.loc)
            got.clear()
    # the AST side: set_parseinfo stores under the key the parseinfo property reads
    astc = a.p.classes.get('tatsu.contexts.ast.AST')
    setter = astc.methods.get('set_parseinfo') if astc else None
    getter = astc.methods.get('parseinfo') if astc else None
    if setter is None or getter is None:
        rep.fail('tatsu.contexts.ast.AST', 'delivery:ast-api', 'AST no longer defines set_parseinfo() and the parseinfo property', astc.loc if astc else None)
    else:
        stored = {n.args[0].value for n in ast.walk(setter.node) if isinstance(n, ast.Call) and isinstance(n.func, ast.Attribute) and n.func.attr == '__setitem__'
                  and n.args and isinstance(n.args[0], ast.Constant)}
        read = {n.args[0].value for n in ast.walk(getter.node) if isinstance(n, ast.Call) and isinstance(n.func, ast.Attribute) and n.func.attr in ('get', '__getitem__')
                and n.args and isinstance(n.args[0], ast.Constant)} | {n.slice.value for n in ast.walk(getter.node) if isinstance(n, ast.Subscript) and isinstance(n.slice, ast.Constant)}
        ok = bool(read) and read <= stored
        rep.add({'AST.set_parseinfo_stores': sorted(stored), 'AST.parseinfo_reads': sorted(read), 'ok': ok})
        if not ok:
            rep.fail(setter.qualname, 'delivery:ast-keys', f'AST.set_parseinfo stores under {sorted(stored)} but AST.parseinfo reads {sorted(read)}', setter.loc)
    return rep


def r5_skip_is_a_fixpoint(a, tier):
    """the start offset of a rule is taken after ONE next_token(): it delimits the text after leading whitespace and comments only if that call skips the whole run"""
    from . import c09
    rep = c09.r2_next_token_fixpoint(a, tier)
    rep.rule = 'C12.R5'
    for f in rep.findings:
        f.rule = 'C12.R5'
    rep.text = '[= C09.R2a] ' + rep.text
    return rep


def r6_memo_hit_unchanged(a, tier):
    """a memoized result is handed back as it is: relabelling its node on a memo hit computes the end offset from a cursor that has not been advanced yet"""
    from . import c04
    rep = c04.r2_ownership(a, tier)
    rep.rule = 'C12.R6'
    for f in rep.findings:
        f.rule = 'C12.R6'
    rep.text = '[= C04.R2] ' + rep.text
    return rep


def r7_whitespace_placement(a, tier):
    """the start offset of a rule's parse information is the position after leading whitespace: whether whitespace is skipped at a rule's entry follows from is_tokn, derived from the first cased character of its name in both back-ends (= C09.R1)"""
    from . import c09
    rep = c09.r1_placement(a, tier)
    rep.rule = 'C12.R7'
    for f in rep.findings:
        f.rule = 'C12.R7'
    rep.text = '[= C09.R1] ' + rep.text
    return rep


RULES = [r0_line_splitter, r1_parseinfo, r2_one_index, r3_line_index_exhaustive, r3b_answers_have_no_memory, r4_delivery, r5_skip_is_a_fixpoint, r6_memo_hit_unchanged, r7_whitespace_placement]
