"""C15 - the shipped bootstrap parser agrees with the shipped TatSu grammar (static translation validation)."""
from __future__ import annotations

import ast

from ..loader import AnalysisError, norm
from ..pegir import FrontEndError, canon, decompile_parser, first_difference, parse_ebnf, read_model
from ..report import RuleReport

LEVEL = 'translation_validation'
TECHNIQUE = ('static translation validation: three artefacts (tatsu/_tatsu.ebnf text, generated parser tatsu/boot/bootstrap.py, '
             'model expression GRAMMAR_MODEL in tatsu/boot/bootparser.py) are translated by three independent front-ends into one '
             'PEG IR, normalised by semantics-preserving rewrites and compared rule by rule; directives/keywords/rule parameters too; literal operands read back from what the generator emits')
LEVEL_TEXT = ('Decides, for every rule of the shipped grammar at once, that the grammar file, the checked-in generated parser and '
              'the checked-in grammar model denote the same PEG expression (after dropping groups, flattening sequences, expanding '
              'rule includes, comparing regexes as parse trees and constants by value), with the same rule order, parameters, '
              'decorators, directives and keywords. Equal IR implies the same accept/reject decision and the same semantic actions '
              'for every grammar text, assuming the runtime primitives of the two back-ends agree (that is C02.R2).')
TECHNIQUE += "; generated configuration read back from the emitted ParserConfig(...) call (every setting is the model's own value or absent)"
LEVEL_TEXT += ' Added clause: regeneration does not resolve unset settings at generation time.'
TECHNIQUE += '; optimizer equivalence (= C01.R11): the bootstrap is regenerated from the optimized model'
TECHNIQUE += '; cut scoping of the context managers generated parsers run on (= C05.R3)'
LEVEL_TEXT += ' Added clause: the runtime the shipped bootstrap runs on scopes cuts as the model does.'
TECHNIQUE += "; who-may-read: the grammar actions read nothing of the running parser's configuration"
LEVEL_TEXT += ' Added clause: the model a text compiles to does not depend on which of the three parsers read it.'
LEVEL_TEXT += ' Added clauses (rounds 9-11): the generator emits, for every node class, the run-time primitive the model uses.'
TECHNIQUE += '; unset and empty namechars are the same to both inputs (= C09.R2c)'
TECHNIQUE += '; the generator emits for every node class the run-time primitive the model uses (C15.R10 = C02.R2)'
LEVEL_NOTE = ('Trusted: the three front-ends of the checker (EBNF reader written from docs/syntax.rst, decompiler of the emitted '
              'with-block idiom, reader of the repr-as-source) and the canonicaliser, whose rewrites subsume Model.optimized().')
EXPLANATION = ('Static translation validation on /repo sources; TatSu is not imported, no grammar is compiled. programs = rule '
               'comparisons performed (rules x artefact pairs); disagreements_checked = differing rules examined and reported with '
               'the first differing sub-expression.')
ASSUMPTIONS = [LEVEL_NOTE]

_stats = {'programs': 0, 'disagreements': 0}


def _load(a):
    root = a.p.root
    try:
        ebnf = parse_ebnf((root / 'tatsu' / '_tatsu.ebnf').read_text(encoding='utf-8'))
        boot = decompile_parser(a.p.module('tatsu.boot.bootstrap').tree)
        tree = a.p.module('tatsu.boot.bootparser').tree
        gm = None
        for n in tree.body:
            if isinstance(n, (ast.Assign, ast.AnnAssign)):
                t = n.targets[0] if isinstance(n, ast.Assign) else n.target
                if getattr(t, 'id', '') == 'GRAMMAR_MODEL':
                    gm = n.value
        if gm is None:
            raise AnalysisError('anchor vanished: GRAMMAR_MODEL in tatsu/boot/bootparser.py')
        model = read_model(gm)
    except FrontEndError as e:
        raise AnalysisError(f'front-end: {e}') from e
    return ebnf, boot, model


def _compare(rep, a, left, right, lname, rname, lfile, rfile):
    for name in left.order:
        if name not in right.rules:
            rep.fail(f'{rfile}:{name}', f'missing-rule:{name}', f'rule `{name}` of {lname} does not exist in {rname}', rfile)
            continue
        _stats['programs'] += 1
        ca = canon(left.rules[name].exp, left.rules)
        cb = canon(right.rules[name].exp, right.rules)
        same = ca == cb
        rep.add({'rule': name, 'left': lname, 'right': rname, 'equal': same})
        if not same:
            _stats['disagreements'] += 1
            d = first_difference(ca, cb)
            rep.fail(f'{rfile}:{name}', f'differs:{name}',
                     f'rule `{name}` ({lfile}:{left.rules[name].line} vs {rfile}:{right.rules[name].line}): {lname} and {rname} denote '
                     f'different expressions - first difference at {d}', f'{rfile}:{right.rules[name].line}')
    for name in right.order:
        if name not in left.rules:
            rep.fail(f'{rfile}:{name}', f'extra-rule:{name}', f'rule `{name}` exists in {rname} but not in {lname}', rfile)
    if left.order and right.order and left.order[0] != right.order[0]:
        rep.fail(rfile, 'start-rule', f'the first rule differs: {left.order[0]} vs {right.order[0]} (it is the default start rule)', rfile)
    lo = [n for n in left.order if n in right.rules]
    ro = [n for n in right.order if n in left.rules]
    if lo != ro:
        rep.fail(rfile, 'rule-order', f'the rules are listed in a different order in {rname}', rfile)


def r1_ebnf_vs_parser(a, tier):
    rep = RuleReport(
        'C15.R1',
        'every rule of tatsu/_tatsu.ebnf and the method of the same name in tatsu/boot/bootstrap.py (class *Rules) denote the same '
        'PEG expression in canonical form; same rule set, same order',
        floor=80,
    )
    ebnf, boot, _ = _load(a)
    _compare(rep, a, ebnf, boot, 'the grammar file', 'the generated bootstrap parser', 'tatsu/_tatsu.ebnf', 'tatsu/boot/bootstrap.py')
    return rep


def r2_ebnf_vs_model(a, tier):
    rep = RuleReport(
        'C15.R2',
        'every rule of tatsu/_tatsu.ebnf and the Rule(...) of the same name in GRAMMAR_MODEL (tatsu/boot/bootparser.py) denote the '
        'same PEG expression in canonical form; same rule set, same order',
        floor=80,
    )
    ebnf, _, model = _load(a)
    _compare(rep, a, ebnf, model, 'the grammar file', 'GRAMMAR_MODEL', 'tatsu/_tatsu.ebnf', 'tatsu/boot/bootparser.py')
    return rep


def r3_config(a, tier):
    rep = RuleReport(
        'C15.R3',
        'directives, keywords, rule parameters and decorators agree: the @@directives of the grammar file equal the directives of '
        'GRAMMAR_MODEL and the configuration the generated parser builds (grammar name, comments, eol_comments, parseinfo, '
        'whitespace, nameguard, ignorecase, namechars); @@keyword lists agree; for every rule the [Params] of the grammar file equal '
        '@tatsu.rule(<params>) and Rule(params=...), and name/leftrec/token decorators agree',
        floor=90,
    )
    ebnf, boot, model = _load(a)
    for k, v in ebnf.directives.items():
        mv = model.directives.get(k, '<absent>')
        ok = mv == v
        rep.add({'directive': k, 'grammar_file': v, 'GRAMMAR_MODEL': mv, 'ok': ok})
        if not ok:
            rep.fail('tatsu/boot/bootparser.py:GRAMMAR_MODEL', f'directive:{k}', f'@@{k} is {v!r} in the grammar file and {mv!r} in GRAMMAR_MODEL', 'tatsu/boot/bootparser.py')
    for k in model.directives:
        if k not in ebnf.directives:
            rep.fail('tatsu/boot/bootparser.py:GRAMMAR_MODEL', f'directive:{k}', f'GRAMMAR_MODEL has the directive {k} that the grammar file lacks', 'tatsu/boot/bootparser.py')
    cfg_map = {'grammar': 'name', 'comments': 'comments', 'eol_comments': 'eol_comments', 'parseinfo': 'parseinfo', 'whitespace': 'whitespace',
               'nameguard': 'nameguard', 'ignorecase': 'ignorecase', 'namechars': 'namechars'}
    defaults = {'whitespace': None, 'nameguard': None, 'ignorecase': False, 'namechars': '', 'parseinfo': False, 'comments': None, 'eol_comments': None}
    for d, c in cfg_map.items():
        want = ebnf.directives.get(d, defaults.get(d, '<default>'))
        got = boot.directives.get(c, '<absent>')
        ok = want == got or (want == '<default>')
        rep.add({'config': c, 'grammar_file': want, 'generated_parser': got, 'ok': ok})
        if not ok:
            rep.fail('tatsu/boot/bootstrap.py:ParserConfig', f'config:{c}', f'the generated parser is configured with {c}={got!r}, the grammar file '
                     f'says {want!r}', 'tatsu/boot/bootstrap.py')
    for nm, other, label in (('bootstrap', boot, 'tatsu/boot/bootstrap.py'), ('model', model, 'tatsu/boot/bootparser.py')):
        ok = tuple(sorted(ebnf.keywords)) == tuple(sorted(other.keywords))
        rep.add({'keywords': nm, 'grammar_file': list(ebnf.keywords), 'other': list(other.keywords), 'ok': ok})
        if not ok:
            rep.fail(label, 'keywords', f'keyword tables differ: {sorted(ebnf.keywords)} vs {sorted(other.keywords)}', label)
    for name in ebnf.order:
        e = ebnf.rules[name]
        for nm, other, label in (('bootstrap', boot, 'tatsu/boot/bootstrap.py'), ('model', model, 'tatsu/boot/bootparser.py')):
            o = other.rules.get(name)
            if o is None:
                continue
            _stats['programs'] += 1
            p_ok = tuple(e.params) == tuple(o.params) and dict(e.kwparams) == dict(o.kwparams)
            want_decos = {d for d in e.decorators if d in ('name', 'isname')} and {'name'} or set()
            got_decos = {d for d in o.decorators if d == 'name'}
            upper = name.lstrip('_')[:1].isupper()
            tok_ok = ('token' in o.decorators) == upper
            d_ok = want_decos == got_decos and tok_ok and 'leftrec' not in o.decorators
            rep.add({'rule': name, 'artefact': nm, 'params': list(o.params), 'decorators': list(o.decorators), 'ok': p_ok and d_ok})
            if not p_ok:
                _stats['disagreements'] += 1
                rep.fail(f'{label}:{name}', f'params:{name}:{nm}', f'rule `{name}`: parameters {list(e.params)} {dict(e.kwparams)} in the grammar file, '
                         f'{list(o.params)} {dict(o.kwparams)} in {label}: semantic actions get other arguments', f'{label}:{o.line}')
            if not d_ok:
                _stats['disagreements'] += 1
                rep.fail(f'{label}:{name}', f'decorators:{name}:{nm}', f'rule `{name}`: decorators {list(o.decorators)} in {label} do not match the '
                         f'grammar file ({list(e.decorators)}; upper-case rule: {upper}; left_recursion is off)', f'{label}:{o.line}')
    return rep


def extra_coverage(reports, tier):
    samples = []
    for r in reports:
        samples.extend(r.instances[:3])
    return {'programs': max(1, _stats['programs']), 'disagreements_checked': _stats['disagreements'], 'exhaustive': True}


def r4_regeneration_literals(a, tier):
    """regenerating the bootstrap parser: the operands of the grammar's own constants (`None` after @@whitespace ::, `True` ...)
    reach the regenerated source unchanged - the leaf emitters of the code generator, decided as in C02.R6"""
    from .c02 import r6_leaf_literals
    rep = r6_leaf_literals(a, tier, rule_id='C15.R4')
    rep.text = ('regenerating the shipped parser from tatsu/_tatsu.ebnf keeps the operands of its constants and tokens (e.g. the `None` '
                'of a value-less @@whitespace directive): ' + rep.text)
    return rep


def r5_regeneration_config(a, tier):
    """regenerating the bootstrap parser: the configuration written into the regenerated source is the grammar's (decided as in C02.R7)"""
    from .c02 import r7_generated_configuration
    rep = r7_generated_configuration(a, tier, rule_id='C15.R5')
    rep.text = 'regenerating the shipped parser from tatsu/_tatsu.ebnf (which sets none of whitespace/nameguard/namechars): ' + rep.text
    return rep


def r6_optimizer(a, tier):
    """the regenerated bootstrap is generated from the OPTIMIZED model: the optimisation pass preserves every expression"""
    from . import c01_optimizer
    rep = c01_optimizer.r11_optimizer(a, tier)
    rep.rule = 'C15.R6'
    for f in rep.findings:
        f.rule = 'C15.R6'
    rep.text = '[= C01.R11] ' + rep.text
    return rep


def r7_generated_primitives(a, tier):
    """the shipped bootstrap parser is GENERATED code: it runs on the context managers only generated parsers use (option, group, ...),
    whose cut scoping must be the model's, or the bootstrap and the model compiled from the grammar file part ways (= C05.R3)"""
    from . import c05
    rep = c05.r3_frame_classification(a, tier)
    rep.rule = 'C15.R7'
    for f in rep.findings:
        f.rule = 'C15.R7'
    rep.text = '[= C05.R3] ' + rep.text
    return rep


def _reads_running_config(tree: ast.AST) -> list[ast.AST]:
    """reads of the configuration of the parser that runs the action: self.context.config..., getattr(self.context, 'config' ...),
    self.context._config / .settings"""
    hits = []
    for n in ast.walk(tree):
        if isinstance(n, ast.Attribute) and isinstance(n.ctx, ast.Load) and n.attr in ('config', '_config', 'settings', 'active_config', '_active_config') \
                and norm(n.value).split('.')[:2] == ['self', 'context']:
            hits.append(n)
        if isinstance(n, ast.Call) and isinstance(n.func, ast.Name) and n.func.id == 'getattr' and len(n.args) >= 2 and norm(n.args[0]).startswith('self.context') \
                and isinstance(n.args[1], ast.Constant) and isinstance(n.args[1].value, str) and 'config' in n.args[1].value:
            hits.append(n)
    return hits


def r8_text_determines_the_model(a, tier):
    rep = RuleReport(
        'C15.R8',
        'the model a grammar text compiles to is a function of the text: the same text is read by the shipped generated parser, by the '
        'parser regenerated from the grammar file and by the model compiled from the grammar file, whose configurations differ (the TatSu '
        'grammar carries its own directives, e.g. @@left_recursion :: False) - so the semantic actions that build the model '
        '(GrammarSemantics) read nothing of the configuration of the parser that runs them (self.context.config ...): a setting taken from '
        'there makes the three parsers build different models, or accept different texts',
        floor=1,
    )
    probe = ast.parse("x = getattr(self.context, 'config', None)\ny = self.context.config.left_recursion\nz = self.context.pos\n")
    if len(_reads_running_config(probe)) != 2:
        raise AnalysisError('C15.R8: the matcher does not recognise its own positive examples')
    gs = a.p.classes.get('tatsu.peg.semantics.GrammarSemantics')
    if gs is None:
        raise AnalysisError('GrammarSemantics not found')
    for mname, m_ in sorted(gs.methods.items()):
        hits = _reads_running_config(m_.node)
        rep.add({'action': mname, 'reads_of_the_running_parser_configuration': [norm(h) for h in hits]})
        for h in hits:
            rep.fail(m_.qualname, f'running-config:{norm(h)[:40]}', f'`{norm(h)}` in GrammarSemantics.{mname} reads the configuration of the parser that is reading the grammar text: '
                     f'the model built from a text then depends on which parser read it (the compiled grammar file carries @@left_recursion :: False, the shipped '
                     f'bootstrap parser does not)', f'{m_.module.relpath}:{h.lineno}')
    return rep


def r9_unset_is_empty(a, tier):
    """the shipped generated parser pins namechars='' / the settings it was generated with, the model compiled from the grammar file leaves
    them unset: the inputs must read both the same way (= C09.R2c)"""
    from . import c09
    rep = c09.r2c_input_configuration(a, tier)
    rep.rule = 'C15.R9'
    for f in rep.findings:
        f.rule = 'C15.R9'
    rep.text = '[= C09.R2c] ' + rep.text
    return rep


def r10_regeneration_primitives(a, tier):
    """regenerating the bootstrap parser reproduces its behaviour only if the generator emits, for every node class, the run-time primitive
    the model uses (= C02.R2): the shipped parser is compared with the grammar by R1/R2, the GENERATOR by this rule"""
    from . import c02
    rep = c02.r2_primitives(a, tier)
    reps = rep if isinstance(rep, list) else [rep]
    for r in reps:
        r.rule = 'C15.R10'
        for f in r.findings:
            f.rule = 'C15.R10'
        r.text = '[= C02.R2] ' + r.text
    return reps


RULES = [r1_ebnf_vs_parser, r2_ebnf_vs_model, r3_config, r4_regeneration_literals, r5_regeneration_config, r6_optimizer, r7_generated_primitives, r8_text_determines_the_model, r9_unset_is_empty, r10_regeneration_primitives]
