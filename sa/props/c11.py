"""C11 - reserved words are never accepted where a name is required (structural clauses)."""
from __future__ import annotations

import ast

from ..loader import AnalysisError, dotted, norm, walk_no_defs
from ..minieval import MiniEval, Obj, Raised
from ..paths import FP
from ..report import RuleReport
from ..rules.common import run_flags

LEVEL = 'other'
TECHNIQUE = ('static: must-pass-through placement of the keyword check, writer/reader agreement of the case-folding and of '
             'the keyword table (per-parse configuration), interpretation of the check over a situation table, flag '
             'transfer for @name')
LEVEL_TEXT = ('Decides from the source: for a @name rule the keyword check runs on every successful body before the action '
              'lookup and before the result is memoized, and raises a FailedParse subclass through the failure factory; '
              'the table it consults is rebuilt for every parse from the same active configuration that supplies '
              'ignorecase; the fold applied to the table (Grammar.__init__, ParserConfig.__post_init__) and to the candidate '
              'is the same function under the same condition; the generated parser receives the normalised table and the '
              '@name flag. Acceptance of particular sentences is not decided.')
TECHNIQUE += '; read-back of the keyword table the generator emits (ast.literal_eval of the emitted literal for keyword sets of 0..40 words compared as sets); per-parse folding clause'
LEVEL_TEXT += ' Added clauses: the emitted keyword table denotes exactly the declared set for every table size (row breaks included); folding under a per-parse ignorecase is recorded as a known finding (the table is folded at construction).'
TECHNIQUE += '; the keyword check only accepts or rejects: semantics_call + validator interpreted, identity of the value handed on'
LEVEL_TEXT += ' Added clause: an accepted name is handed on unchanged, also under ignorecase.'
TECHNIQUE += '; the optimisation pass keeps calls of @name rules (= C01.R13)'
LEVEL_TEXT += ' Added clause: an alias of an @name rule is not optimised away.'
TECHNIQUE += '; Grammar.__init__ interpreted with quoted, non-identifier keywords'
LEVEL_TEXT += ' Added clause: every declared keyword reaches the table.'
LEVEL_NOTE = 'Trusted: dataclasses.replace re-runs __post_init__ (so a per-parse ignorecase=True re-normalises the keyword table).'
EXPLANATION = ('Static analysis of /repo sources, TatSu not imported. rule_call/semantics_call are executed abstractly with '
               'flags; validate_is_not_keyword is interpreted by the mini-evaluator on model contexts; table writers are '
               'located on the call graph of ParserEngine.bound.')
ASSUMPTIONS = [LEVEL_NOTE]

ENGINE = 'tatsu.contexts.engine.ParserEngine'
CORE = 'tatsu.contexts.core.ParserCore'


def r1_placement(a, tier):
    rep = RuleReport(
        'C11.R1',
        'in semantics_call, for ri.is_name, validate_is_not_keyword(node) runs before the action is looked up or called; in '
        'rule_call it therefore runs before memoize(key, RuleResult); the check raises newexcept(..., KeywordError) and '
        'KeywordError is a FailedParse (an ordinary failure: other alternatives are tried)',
        floor=3,
    )
    sc = a.p.func(f'{ENGINE}.semantics_call')
    ri, node = sc.params[1], sc.params[2]

    def flagger(ex, fn, call, state):
        nm = dotted(call.func)
        if fn is sc and nm == 'self.validate_is_not_keyword' and call.args and norm(call.args[0]) == node:
            return ('validated',)
        if fn is sc and nm in ('self.find_semantic_action', 'find_cached_semantic_action', 'boundcall') and 'validated' not in state:
            return ('action_before_check',)
        return ()

    # the check must be under `if ri.is_name` (or unconditional)
    guard_ok = False
    for n in walk_no_defs(sc.node):
        if isinstance(n, ast.If) and norm(n.test) == f'{ri}.is_name':
            guard_ok = any(isinstance(x, ast.Call) and dotted(x.func) == 'self.validate_is_not_keyword' for s in n.body for x in ast.walk(s))
    first_stmt = next((s for s in sc.node.body if not (isinstance(s, ast.Expr) and isinstance(s.value, ast.Constant))), None)
    first_ok = isinstance(first_stmt, ast.If) and norm(first_stmt.test) == f'{ri}.is_name'
    rep.add({'fn': sc.qualname, 'check_under_is_name': guard_ok, 'check_is_first_statement': first_ok})
    if not guard_ok:
        rep.fail(sc.qualname, 'no-keyword-check', f'semantics_call does not call validate_is_not_keyword({node}) under `if {ri}.is_name`', sc.loc)
    if not first_ok:
        rep.fail(sc.qualname, 'check-not-first', 'the keyword check is not the first statement of semantics_call: the action may be '
                 'looked up / run for a reserved word', sc.loc)
    rc = a.p.func(f'{ENGINE}.rule_call')

    def flagger2(ex, fn, call, state):
        nm = dotted(call.func)
        if fn is rc and nm == 'self.semantics_call':
            return ('checked',)
        if fn is rc and nm == 'self.memoize' and len(call.args) >= 2 and 'checked' not in state:
            # memoizing a success before the check
            pm = ex.resolver.parents(rc)
            inside_handler = False
            cur = call
            while id(cur) in pm:
                cur = pm[id(cur)]
                if isinstance(cur, ast.ExceptHandler):
                    inside_handler = True
            if not inside_handler:
                return ('memo_before_check',)
        return ()

    outs = run_flags(a, rc, flagger2)
    bad = [o for o in outs if 'memo_before_check' in o.state]
    rep.add({'fn': rc.qualname, 'success_memoized_only_after_check': not bad})
    if bad:
        rep.fail(rc.qualname, 'memo-before-check', 'rule_call memoizes the successful result before semantics_call (keyword check) ran: '
                 'a reserved word is replayed from the memo as a valid name', rc.loc)
    v = a.p.func(f'{ENGINE}.validate_is_not_keyword')
    raises = [n for n in walk_no_defs(v.node) if isinstance(n, ast.Raise) and n.exc is not None]
    ok = bool(raises) and all(isinstance(r.exc, ast.Call) and dotted(r.exc.func) == 'self.newexcept'
                              and any('KeywordError' in norm(x) for x in [*r.exc.args[1:], *[k.value for k in r.exc.keywords]]) for r in raises)
    ke = 'tatsu.exceptions.KeywordError'
    is_fp = FP in a.ct.mro(ke)
    rep.add({'raises_through_newexcept_KeywordError': ok, 'KeywordError_is_FailedParse': is_fp})
    if not ok:
        rep.fail(v.qualname, 'keyword-raise', 'validate_is_not_keyword does not raise self.newexcept(..., KeywordError)', v.loc)
    if not is_fp:
        rep.fail(ke, 'keyworderror-class', 'KeywordError is not a FailedParse: a reserved word aborts the parse instead of failing the alternative', '')
    return rep


def r2_folding(a, tier):
    rep = RuleReport(
        'C11.R2',
        'the keyword table and the candidate are folded by the same function under the same condition: Grammar.__init__ and '
        'ParserConfig.__post_init__ upper-case the table iff ignorecase, validate_is_not_keyword (interpreted) upper-cases the '
        'candidate iff config.ignorecase and tests membership in self.keywords; self.keywords is rebuilt from the ACTIVE '
        '(per-parse) configuration on the ParserEngine.bound path, after the active configuration is installed',
        floor=8,
    )
    v = a.p.func(f'{ENGINE}.validate_is_not_keyword')
    cases = [
        ('if', {'if'}, False, True), ('IF', {'if'}, False, False), ('iff', {'if'}, False, False),
        ('if', {'IF'}, True, True), ('If', {'IF'}, True, True), ('IF', {'IF'}, True, True), ('iff', {'IF'}, True, False),
        ('x', set(), False, False), ('x', set(), True, False),
    ]
    for word, table, ic, want in cases:
        # the table was folded under the ACTIVE configuration; a Text object handed to parse() carries its own settings, which may differ: the
        # candidate must be folded under the configuration the table was folded under (the input says the opposite here)
        me = Obj(config=Obj(ignorecase=ic), active_config=Obj(ignorecase=ic), keywords=table, input=Obj(ignorecase=not ic, config=Obj(ignorecase=not ic)),
                 cursor=Obj(ignorecase=not ic))

        def methods(recv, name, args, kwargs):
            if name == 'newexcept':
                return 'exc'
            return NotImplemented

        try:
            MiniEval({'KeywordError': 'KeywordError'}, methods=methods).call_function(v.node, [me, word])
            got = False
        except Raised:
            got = True
        rep.add({'candidate': word, 'table': sorted(table), 'ignorecase': ic, 'rejected': got, 'want': want})
        if got != want:
            rep.fail(v.qualname, f'check:{word}:{sorted(table)}:{ic}', f'validate_is_not_keyword({word!r}) with table {sorted(table)} and '
                     f'ignorecase={ic}: rejected={got}, documented: {want}', v.loc)
    # table normalisation sites
    gi = a.p.func('tatsu.peg.base.Grammar.__init__')
    pc = a.p.func('tatsu.config.ParserConfig.__post_init__')
    # Grammar.__init__: decided by interpretation (whatever helper does the folding): the table it ends with is upper-case iff ignorecase
    for ic_ in (False, True):
        table_ = _grammar_keyword_table(a, ic_, ('if', 'Else'))
        want_ = {'IF', 'ELSE'} if ic_ else {'if', 'Else'}
        ok_ = table_ is not None and set(table_) == want_
        rep.add({'table_built_by': gi.qualname, 'ignorecase': ic_, 'declared': ['if', 'Else'], 'table': sorted(table_) if table_ is not None else None, 'ok': ok_})
        if not ok_:
            rep.fail(gi.qualname, 'table-fold', f'{gi.qualname} with ignorecase={ic_} builds the keyword table {sorted(table_) if table_ is not None else None} from the declared '
                     f'keywords if, Else; required {sorted(want_)}: the candidate is upper-cased under ignorecase, so no keyword can match otherwise', gi.loc)
    for fn, cond_names in ((pc, ('self.ignorecase',)),):
        ok = False
        for n in walk_no_defs(fn.node):
            if isinstance(n, ast.If):
                conj = n.test.values if isinstance(n.test, ast.BoolOp) else [n.test]
                if any(norm(c) in cond_names for c in conj):
                    for x in ast.walk(ast.Module(body=n.body, type_ignores=[])):
                        if isinstance(x, ast.Call) and isinstance(x.func, ast.Attribute) and x.func.attr == 'upper':
                            ok = True
        if not ok:
            # ... or in a module-level helper that is handed the setting: _normalized(keywords, self.config.ignorecase) ... `if ignorecase:`
            for c in [x for x in walk_no_defs(fn.node) if isinstance(x, ast.Call) and isinstance(x.func, ast.Name) and x.func.id in fn.module.functions]:
                h = fn.module.functions[c.func.id]
                bound = {p_: norm(v) for p_, v in zip(h.params, c.args)} | {k.arg: norm(k.value) for k in c.keywords if k.arg}
                flags = {p_ for p_, v in bound.items() if v in cond_names}
                for n in walk_no_defs(h.node):
                    if isinstance(n, ast.If):
                        conj = n.test.values if isinstance(n.test, ast.BoolOp) else [n.test]
                        if any(isinstance(t_, ast.Name) and t_.id in flags for t_ in conj) and any(
                                isinstance(x, ast.Call) and isinstance(x.func, ast.Attribute) and x.func.attr == 'upper'
                                for x in ast.walk(ast.Module(body=n.body, type_ignores=[]))):
                            ok = True
        rep.add({'table_normalised_in': fn.qualname, 'upper_iff_ignorecase': ok})
        if not ok:
            rep.fail(fn.qualname, 'table-fold', f'{fn.qualname} does not upper-case the keyword table under ignorecase while the '
                     f'candidate is upper-cased: no keyword can match', fn.loc)
    # writers of self.keywords on the bound() path
    writers = []
    for f in a.p.functions.values():
        if not f.qualname.startswith('tatsu.contexts.'):
            continue
        for n in walk_no_defs(f.node):
            tg = n.targets if isinstance(n, ast.Assign) else ([n.target] if isinstance(n, ast.AnnAssign) and n.value is not None else [])
            for t in tg:
                if norm(t) == 'self.keywords':
                    writers.append((f, n))
    bound = a.p.func(f'{ENGINE}.bound')
    # functions called by bound after `self._active_config = config`
    after_install: set[str] = set()
    installed = False
    for s in ast.walk(bound.node):
        pass
    for n in sorted((x for x in walk_no_defs(bound.node) if isinstance(x, (ast.Assign, ast.Call))), key=lambda x: (x.lineno, x.col_offset)):
        if isinstance(n, ast.Assign) and any(norm(t) == 'self._active_config' for t in n.targets):
            installed = True
        if installed and isinstance(n, ast.Call) and isinstance(n.func, ast.Attribute) and norm(n.func.value) == 'self':
            after_install.add(n.func.attr)
    ok_writer = False
    for f, n in writers:
        src = norm(n.value)
        per_parse = f.name in after_install and 'self.config.keywords' in src
        rep.add({'keywords_writer': f.qualname, 'source': src, 'on_bound_path_after_active_config': per_parse})
        if per_parse:
            ok_writer = True
    # the table is folded at CONSTRUCTION (Grammar.__init__ / ParserConfig.__post_init__ replace the keywords by their upper-case
    # form under the grammar's ignorecase) while the candidate is folded under the ignorecase of THIS parse: the two agree only
    # if the per-parse writer folds again from a spelling that was kept
    refolds = any('upper' in norm(n.value) and 'ignorecase' in norm(n.value) for f, n in writers)
    rep.add({'per_parse_table_is_folded_under_the_per_parse_ignorecase': refolds})
    if not refolds:
        w0 = writers[0][0] if writers else bound
        rep.fail(w0.qualname, 'fold-not-per-parse', 'the keyword table is upper-cased once, when the grammar or the configuration is built '
                 '(under the ignorecase in force then), and the per-parse table is a copy of that: with @@ignorecase :: True in the '
                 'grammar and ignorecase=False given to parse(), the table holds IF while the candidate `if` is compared as written, so '
                 'the keyword is accepted by an @name rule (and `IF`, which is no keyword then, is rejected)', w0.loc)
    if not ok_writer:
        w = writers[0][0] if writers else bound
        rep.fail(w.qualname, 'keywords-not-per-parse',
                 'self.keywords (the table validate_is_not_keyword consults) is not rebuilt from self.config.keywords in a function '
                 f'that bound() calls after installing the per-parse configuration (writers: {[x[0].qualname.split(".")[-1] for x in writers]}): '
                 'a parse-time ignorecase=True upper-cases the candidate but the table keeps its construction-time spelling, and '
                 'a parse-time keywords= override is ignored', w.loc)
    return rep


def r3_generated(a, tier):
    rep = RuleReport(
        'C11.R3',
        'generated parsers: gen_keywords emits grammar.keywords (already normalised by Grammar.__init__), _gen_init passes '
        'keywords=KEYWORDS and ignorecase to the parser configuration, walk_Rule emits @tatsu.name for rule.is_name, the '
        'decorator sets is_name and RuleInfo.new reads it; @tatsu.rule is printed above the flag decorators',
        floor=5,
    )
    gen = 'tatsu.ngcodegen.ngparser_gen.PythonParserGenerator'
    gk = a.p.func(f'{gen}.gen_keywords')
    # gen_keywords interpreted on stand-in grammars; the emitted `KEYWORDS = (...)` is read back with ast.literal_eval
    import contextlib

    from ..minieval import Unsupported
    from ..modelinterp import Hook, ModelInterp, Stub
    long_table = [f'kw{i:02d}{"x" * (i % 7)}' for i in range(40)]
    for what, kws in (('no keywords', []), ('one keyword', ['if']), ('three keywords', ['while', 'if', 'else']),
                      ('a keyword with a quote', ["it's", 'END']), ('forty keywords (more than one line of 88 columns)', long_table)):
        out = []
        genobj = Stub(gen, print=Hook(lambda *x, **_k: out.append(' '.join(str(y) for y in x))),
                      indent=Hook(lambda *_a, **_k: contextlib.nullcontext()),
                      fitsfmt=Hook(lambda line, addlevels=1, **_k: len(line) + 4 * addlevels <= 88))
        grammar = Stub('tatsu.peg.base.Grammar', keywords=tuple(kws))
        try:
            ModelInterp(a).call_fn(gk, [genobj, grammar])
        except Unsupported as e:
            raise AnalysisError(f'cannot interpret {gk.qualname}: {e}') from e
        text = '\n'.join(out)
        got = None
        try:
            tree = ast.parse(text)
            for st in tree.body:
                if isinstance(st, ast.Assign) and norm(st.targets[0]) == 'KEYWORDS':
                    got = ast.literal_eval(st.value)
        except (SyntaxError, ValueError):
            got = None
        ok = isinstance(got, tuple) and sorted(got) == sorted(kws)
        rep.add({'gen_keywords': what, 'table_read_back': (list(got)[:6] if isinstance(got, tuple) else repr(got)), 'entries': len(got) if isinstance(got, tuple) else None,
                 'declared': len(kws), 'ok': ok})
        if not ok:
            lost = sorted(set(kws) - set(got or ())) if isinstance(got, tuple) else kws
            extra = sorted(set(got or ()) - set(kws)) if isinstance(got, tuple) else []
            rep.fail(gk.qualname, f'keyword-table:{what}', f'gen_keywords for {what}: the emitted KEYWORDS table reads back as '
                     f'{len(got) if isinstance(got, tuple) else repr(got)} entries; not reserved in the generated parser: {lost[:6]}; reserved '
                     f'although never declared: {extra[:6]} (adjacent string literals are concatenated by Python)', gk.loc)
    gi = a.p.func(f'{gen}._gen_init')
    text = ' '.join(n.value for n in ast.walk(gi.node) if isinstance(n, ast.Constant) and isinstance(n.value, str))
    for needle in ('keywords=KEYWORDS', 'ignorecase='):
        ok = needle in text
        rep.add({'_gen_init_emits': needle, 'ok': ok})
        if not ok:
            rep.fail(gi.qualname, f'init:{needle}', f'the generated configuration no longer passes `{needle}`', gi.loc)
    wr = a.p.func(f'{gen}.walk_Rule')
    isname_ok = any(isinstance(n, ast.IfExp) and norm(n.test).endswith('.is_name') and isinstance(n.body, ast.Constant)
                    and '@tatsu.name' in str(n.body.value) for n in walk_no_defs(wr.node))
    rep.add({'walk_Rule_emits_@tatsu.name_iff_is_name': isname_ok})
    if not isname_ok:
        rep.fail(wr.qualname, 'emit-name', 'walk_Rule does not emit @tatsu.name for rule.is_name', wr.loc)
    # order: @tatsu.rule first in the printed template
    tmpl = [n for n in walk_no_defs(wr.node) if isinstance(n, ast.JoinedStr)]
    order_ok = False
    for t in tmpl:
        parts = [norm(v.value) if isinstance(v, ast.FormattedValue) else str(v.value) for v in t.values]
        flat = ' '.join(parts)
        if '@tatsu.rule' in flat and 'isname' in flat:
            order_ok = flat.index('@tatsu.rule') < flat.index('isname') < flat.index('def ')
    rep.add({'rule_decorator_above_flag_decorators': order_ok})
    if not order_ok:
        rep.fail(wr.qualname, 'decorator-order', '@tatsu.rule must be the outermost decorator (printed first): it reads the flag '
                 'attributes set by the decorators below it when it wraps the function', wr.loc)
    dec = a.p.func('tatsu.contexts.decorator.basic.name')
    sets = any(isinstance(n, ast.Assign) and isinstance(n.targets[0], ast.Attribute) and n.targets[0].attr == 'is_name'
               and isinstance(n.value, ast.Constant) and n.value.value is True for n in walk_no_defs(dec.node))
    rep.add({'@tatsu.name_sets_is_name': sets})
    if not sets:
        rep.fail(dec.qualname, 'name-decorator', '@tatsu.name does not set is_name = True', dec.loc)
    exported = 'name' in (a.p.module('tatsu.decorators').all_names or []) and 'name' in (a.p.module('tatsu').all_names or [])
    rep.add({'name_decorator_exported': exported})
    if not exported:
        rep.fail('tatsu.decorators', 'name-export', 'the name decorator emitted as @tatsu.name is not exported by tatsu / tatsu.decorators', '')
    # Rule.is_name from decorators and into RuleInfo
    ri = a.p.func('tatsu.peg.base.Rule.ruleinfo')
    ok = any(isinstance(n, ast.keyword) and n.arg == 'is_name' and norm(n.value) == 'self.is_name' for n in ast.walk(ri.node))
    rep.add({'Rule.ruleinfo_carries_is_name': ok})
    if not ok:
        rep.fail(ri.qualname, 'ruleinfo-is_name', 'Rule.ruleinfo does not pass is_name=self.is_name', ri.loc)
    return rep


def r4_accepted_names_unchanged(a, tier):
    from ..minieval import Obj, Raised, Unsupported
    from ..modelinterp import Bound, Hook, ModelInterp, Stub
    rep = RuleReport(
        'C11.R4',
        'the keyword check only accepts or rejects: semantics_call with validate_is_not_keyword (both interpreted on a stand-in engine), for '
        'a rule decorated @name, with and without ignorecase, with and without a semantic action, raises the keyword failure for a '
        'reserved word (in any case spelling when ignorecase is on) and otherwise hands on the VALUE THE RULE MATCHED, unchanged - to the '
        'action as its argument, or back to the caller: what an @name rule returns for a non-keyword is what the undecorated rule returns',
        floor=12,
    )
    sc = a.p.func(f'{ENGINE}.semantics_call')

    class Name(str):
        """the value of the rule (a str subclass instance: `is` tells whether it was handed on or rebuilt)"""
    for ignorecase, with_action in ((False, False), (True, False), (False, True), (True, True)):
        keywords = {'IF', 'if'} if ignorecase else {'if'}  # folded table: whichever folding (upper / lower / casefold) the engine uses
        for text in ('foo', 'Foo', 'FOO', 'if', 'IF', 'iF', 'ifx'):
            is_kw = (text.upper() == 'IF') if ignorecase else (text in keywords)
            node = Name(text)
            seen: list = []
            action = Hook(lambda *x, **k: 'ACTION-RESULT')
            me = Stub(ENGINE, config=Obj(ignorecase=ignorecase, parseinfo=False), keywords=keywords, pos=3, input=Obj(ignorecase=not ignorecase),
                      find_semantic_action=Hook(lambda n: action if with_action else None), newexcept=Hook(lambda *x, **k: Stub('tatsu.exceptions.KeywordError')))
            ri = Obj(is_name=True, name='ident', params=(), kwparams={})
            it = ModelInterp(a, {'boundcall': Hook(lambda act, known, *args, **kw: (seen.append(args[0]), 'ACTION-RESULT')[1])})
            try:
                got = it.call_bound(Bound(me, sc), [ri, node, 0], {})
                outcome = 'returns'
            except Raised as r:
                got, outcome = r.cls_name, 'raises'
            except Unsupported as e:
                raise AnalysisError(f'C11.R4: cannot interpret semantics_call: {e}') from e
            if is_kw:
                ok = outcome == 'raises'
            elif with_action:
                ok = outcome == 'returns' and got == 'ACTION-RESULT' and len(seen) == 1 and seen[0] is node
            else:
                ok = outcome == 'returns' and got is node
            rep.add({'ignorecase': ignorecase, 'action': with_action, 'matched': text, 'reserved': is_kw, 'outcome': outcome,
                     'value': repr(got if not with_action or is_kw else seen[:1])[:40], 'ok': ok})
            if not ok:
                rep.fail(sc.qualname, f'name-value:{ignorecase}:{with_action}:{text}', f'@name rule, ignorecase={ignorecase}, {"with" if with_action else "without"} a semantic '
                         f'action, matched {text!r} ({"a reserved word" if is_kw else "not reserved"}): semantics_call {outcome} {got!r}' + (
                             f', the action received {seen}' if with_action else '') + '; required: ' + (
                             'the keyword failure' if is_kw else 'the matched value itself, unchanged'), sc.loc)
    return rep


def r5_calls_keep_their_rule(a, tier):
    from .c01_optimizer import calls_keep_their_rule
    return calls_keep_their_rule(a, 'C11.R5')


def _grammar_keyword_table(a, ic: bool, declared):
    """the keyword table Grammar.__init__ ends with (interpreted on a stand-in configuration), or None"""
    from ..minieval import Unsupported
    from ..modelinterp import Bound, Hook, ModelInterp, Stub
    G, PC = 'tatsu.peg.base.Grammar', 'tatsu.config.ParserConfig'
    fn = a.ct.lookup(G, '__init__')
    cfg = Stub(PC, ignorecase=ic, keywords=(), name=None, source=None)
    cfg._attrs['hard_override'] = Hook(lambda **k: cfg)
    cfg._attrs['override'] = Hook(lambda **k: cfg)
    me = Stub(G, _resolve_name=Hook(lambda n: n or 'G'), initialize=Hook(lambda *x, **k: None), config=cfg)
    it = ModelInterp(a, {'ParserConfig': Hook(lambda *x, **k: cfg, q=PC, new=Hook(lambda *x, **k: cfg))})
    try:
        it.call_bound(Bound(me, fn), ['G', ()], {'config': cfg, 'keywords': tuple(declared)})
    except Unsupported as e:
        raise AnalysisError(f'C11.R2: cannot interpret Grammar.__init__: {e}') from e
    t = me._attrs.get('keywords')
    return set(t) if isinstance(t, (tuple, list, set, frozenset)) else None


def r6_table_complete(a, tier):
    from ..minieval import Unsupported
    from ..modelinterp import Bound, Hook, ModelInterp, Stub
    rep = RuleReport(
        'C11.R6',
        'every declared keyword reaches the table: Grammar.__init__, interpreted on a stand-in configuration with the declared keywords '
        '"if", "If", "end-if", "#else", ".data", "2nd", "x y" (a keyword is any non-empty text - quoted keywords need not be identifiers) '
        'and an empty entry, ends with a keyword table that holds each non-empty one (folded under ignorecase) and hands the same table to '
        'the configuration the parse contexts read',
        floor=2,
    )
    G, PC = 'tatsu.peg.base.Grammar', 'tatsu.config.ParserConfig'
    fn = a.ct.lookup(G, '__init__')
    declared = ('if', 'If', 'end-if', '#else', '.data', '2nd', 'x y', '')
    for ic in (False, True):
        handed: dict = {}
        cfg = Stub(PC, ignorecase=ic, keywords=(), name=None, source=None)
        cfg._attrs['hard_override'] = Hook(lambda **k: cfg)
        cfg._attrs['override'] = Hook(lambda **k: (handed.update(k), cfg)[1])
        me = Stub(G, _resolve_name=Hook(lambda n: n or 'G'), initialize=Hook(lambda *x, **k: None), config=cfg)
        it = ModelInterp(a, {'ParserConfig': Hook(lambda *x, **k: cfg, q=PC, new=Hook(lambda *x, **k: cfg))})
        try:
            it.call_bound(Bound(me, fn), ['G', ()], {'config': cfg, 'keywords': declared})
        except Unsupported as e:
            raise AnalysisError(f'C11.R6: cannot interpret Grammar.__init__: {e}') from e
        table = me._attrs.get('keywords')
        fold = (lambda k: k.upper()) if ic else (lambda k: k)
        folded = set()
        if isinstance(table, (tuple, list, set, frozenset)):
            folded = {k.upper() if ic else k for k in table}
        missing = sorted(k for k in declared if k and fold(k) not in folded)
        same = handed.get('keywords') is not None and set(handed['keywords']) == set(table or ())
        ok = not missing and same and '' not in (table or ())
        rep.add({'ignorecase': ic, 'declared': list(declared), 'table': sorted(table) if table is not None else None, 'missing': missing, 'handed_to_the_configuration': same, 'ok': ok})
        if not ok:
            rep.fail(fn.qualname, f'table-complete:{ic}', f'with ignorecase={ic} the declared keywords {list(declared)} give the table {sorted(table) if table is not None else None}'
                     + (f': {missing} are dropped, so an @name rule accepts them' if missing else ': the configuration of the parse contexts gets another table'), fn.loc)
    return rep


RULES = [r1_placement, r2_folding, r3_generated, r4_accepted_names_unchanged, r5_calls_keep_their_rule, r6_table_complete]
