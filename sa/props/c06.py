"""C06 - semantic actions receive each rule's AST and their result replaces it (structural clauses)."""
from __future__ import annotations

import ast
import re

from ..callgraph import CallGraph
from ..loader import AnalysisError, dotted, norm, walk_no_defs
from ..minieval import module_constants, MiniEval, Obj, Unsupported
from ..paths import FP, PE, Executor, Semantics
from ..report import RuleReport
from ..rules.common import through_locals, run_flags

LEVEL = 'other'
TECHNIQUE = ('static: must-pass-through of the action call on every successful rule body, store-what-you-raise agreement '
             'of the failure handlers, handler discipline (exception transparency) on the call-graph extent of action '
             'calls, handler-order rule over the package, writer/reader agreement for rule decorators, interpretation of '
             'the action lookup over a situation table')
LEVEL_TEXT = ('Decides, for all paths and call sites: a successful rule body always passes through the action call and the '
              'stored/returned node is the action result, called with the folded AST and the declared parameters; the '
              'lookup prefers the rule-named method over _default; a FailedSemantics is converted to one FailedParse that '
              'is both memoized and raised; no handler on the way from an action call to the API boundary can catch or '
              'swallow a foreign exception; every rule decorator the grammar accepts reaches the field the engine reads '
              '(@nomemo -> no memo store). How often an action runs for a given input is not decided.')
TECHNIQUE += '; per-parse-state rule (no action lookup or result is cached on an object that outlives the parse under a key that omits the semantics object)'
LEVEL_TEXT += ' Added clause: nothing that depends on the semantics object is cached across parses on the engine or model.'
TECHNIQUE += '; memo store gated by memoizable (= C04.R2)'
TECHNIQUE += '; contract of semantics_call with falsy action results and falsy rule values'
LEVEL_TEXT += " Added clause: whatever the action returns (0, '', [], None) is the rule value; without an action the value itself."
TECHNIQUE += '; the semantics object stored on a cached model is part of the cache key (= C10.R1 stored-parameter clause)'
LEVEL_TEXT += ' Added clause: the actions that run are those of the object supplied to this compile().'
LEVEL_TEXT += ' Added clauses (rounds 9-11): what rule_call raises is the object it memoized (FailedSemantics converted, foreign exceptions untouched), decided by interpretation; the bind-cache key tells equal-but-distinct arguments apart; the optimizer keeps rule invocations.'
TECHNIQUE += '; foreign exceptions pass the negative lookahead (= C01.R7b)'
TECHNIQUE += '; store-what-you-raise decided by interpreting rule_call with scripted failing body / action (exception objects with identity); decorator consumption by interpreting Rule.__post_init__; calls keep their rule (R11 = C01.R13)'
TECHNIQUE += '; the bind-cache key tells equal-but-distinct arguments apart (R12, BoundCallable._arg_key interpreted on 1 / True / 1.0, equal lists and dicts)'
LEVEL_NOTE = ('Trusted: call-graph resolution (unresolved value calls are assumed to reach actions); exception hierarchy '
              'read from tatsu/exceptions.py.')
EXPLANATION = ('Static analysis of /repo sources, TatSu not imported. rule_call/semantics_call are executed abstractly with '
               'flags; try/except and suppress() on every function that can reach the action call are enumerated and '
               'their handler classes compared with the ParseException hierarchy; the decorator production is read '
               'from tatsu/_tatsu.ebnf and matched against what Rule.__post_init__/GrammarSemantics consume.')
ASSUMPTIONS = [LEVEL_NOTE]

CORE = 'tatsu.contexts.core.ParserCore'
ENGINE = 'tatsu.contexts.engine.ParserEngine'
CTX = 'tatsu.contexts.context.ParseContext'


def r1_action_on_success(a, tier):
    rep = RuleReport(
        'C06.R1',
        'in rule_call every path from the rule body (func_call) to the memo store / normal return passes semantics_call; '
        'the node put in the RuleResult is the value semantics_call returned, and semantics_call hands the action the '
        'node, *ri.params and **ri.kwparams and returns the action result (or the node when there is no action)',
        floor=3,
    )
    rc = a.p.func(f'{ENGINE}.rule_call')

    def flagger(ex, fn, node, state):
        nm = dotted(node.func)
        if fn is rc and nm == 'self.func_call':
            return ('body',)
        if fn is rc and nm == 'self.semantics_call':
            return ('action',)
        if fn is rc and nm.endswith('RuleResult') and 'body' in state and 'action' not in state:
            return ('result_without_action',)
        return ()

    outs = run_flags(a, rc, flagger)
    bad = [o for o in outs if 'result_without_action' in o.state or (o.kind == 'return' and 'body' in o.state and 'action' not in o.state)]
    rep.add({'fn': rc.qualname, 'paths': len(outs), 'action_on_every_successful_body': not bad})
    if bad:
        rep.fail(rc.qualname, 'action-skipped', 'a path evaluates the rule body and builds/returns the RuleResult without '
                 'calling semantics_call: the action is skipped for that invocation', rc.loc)
    # dataflow: node = semantics_call(...) ; RuleResult(node, ...)
    sem_targets = {n.targets[0].id for n in walk_no_defs(rc.node) if isinstance(n, ast.Assign) and isinstance(n.value, ast.Call)
                   and dotted(n.value.func) == 'self.semantics_call' and isinstance(n.targets[0], ast.Name)}
    rr = [n for n in walk_no_defs(rc.node) if isinstance(n, ast.Call) and dotted(n.func).endswith('RuleResult')]
    ok = bool(rr) and all(n.args and isinstance(n.args[0], ast.Name) and n.args[0].id in sem_targets for n in rr)
    rep.add({'RuleResult_node_is_action_result': ok, 'constructions': [norm(n) for n in rr]})
    if not ok:
        rep.fail(rc.qualname, 'result-not-action-value', 'the node stored in the RuleResult is not the value returned by '
                 'semantics_call: the action result does not replace the rule value', rc.loc)
    # semantics_call passes the folded body value of func_call
    body_targets = {n.targets[0].id for n in walk_no_defs(rc.node) if isinstance(n, ast.Assign) and isinstance(n.value, ast.Call)
                    and dotted(n.value.func) == 'self.func_call' and isinstance(n.targets[0], ast.Name)}
    sc_calls = [n for n in walk_no_defs(rc.node) if isinstance(n, ast.Call) and dotted(n.func) == 'self.semantics_call']
    ok = bool(sc_calls) and all(len(n.args) >= 2 and norm(n.args[0]) == rc.params[1] and isinstance(n.args[1], ast.Name)
                                and n.args[1].id in body_targets for n in sc_calls)
    rep.add({'semantics_call_gets_rule_and_body_value': ok})
    if not ok:
        rep.fail(rc.qualname, 'action-argument', 'semantics_call is not given (ri, <value of func_call>)', rc.loc)
    sc = a.p.func(f'{ENGINE}.semantics_call')
    ri, node = sc.params[1], sc.params[2]
    bc = [n for n in walk_no_defs(sc.node) if isinstance(n, ast.Call) and dotted(n.func).split('.')[-1] == 'boundcall']
    ok = False
    for n in bc:
        pos = [norm(x) for x in n.args]
        kws = [norm(k.value) for k in n.keywords if k.arg is None]
        if len(pos) >= 4 and pos[2] == node and f'*{ri}.params' in pos and f'{ri}.kwparams' in kws:
            ok = True
    rets = [r for r in walk_no_defs(sc.node) if isinstance(r, ast.Return) and r.value is not None]
    returns_ok = any(isinstance(r.value, ast.Call) and dotted(r.value.func).split('.')[-1] == 'boundcall' for r in rets) and any(
        norm(r.value) == node for r in rets) and len(rets) == 2
    rep.add({'boundcall': [norm(n) for n in bc], 'passes_node_params_kwparams': ok, 'returns_action_result_or_node': returns_ok})
    if not ok:
        rep.fail(sc.qualname, 'action-params', 'the action is not called with (node, *ri.params, **ri.kwparams)', sc.loc)
    if not returns_ok:
        rep.fail(sc.qualname, 'action-result', 'semantics_call does not return exactly the action result, or the node '
                 'itself when no action is found', sc.loc)
    # the action looked up is the one named after the invoked rule
    fa = [n for n in walk_no_defs(sc.node) if isinstance(n, ast.Call) and dotted(n.func) in ('self.find_semantic_action', 'find_cached_semantic_action')]
    ok = bool(fa) and all(norm(n.args[-1]) == f'{ri}.name' for n in fa)
    rep.add({'lookup_by_rule_name': ok})
    if not ok:
        rep.fail(sc.qualname, 'lookup-name', 'the action is not looked up by the name of the invoked rule', sc.loc)
    return rep


def r2_lookup_order(a, tier):
    rep = RuleReport(
        'C06.R2',
        'find_cached_semantic_action, interpreted over semantics objects built by the checker: no semantics -> None; a '
        'method named after the rule wins over _default; only _default -> _default; neither -> None; a non-callable '
        'attribute of that name is ignored',
        floor=5,
    )
    fn = a.p.func('tatsu.contexts.core.find_cached_semantic_action')

    class S:
        def __init__(self, **kw):
            self.__dict__.update(kw)

        def __bool__(self):
            return True

    m_rule, m_def = (lambda *x: 'rule'), (lambda *x: 'default')
    cases = [
        ('no semantics', None, 'expr', None),
        ('rule method and _default', S(expr=m_rule, _default=m_def), 'expr', m_rule),
        ('only _default', S(_default=m_def), 'expr', m_def),
        ('neither', S(other=m_rule), 'expr', None),
        ('non-callable attribute of the rule name', S(expr=42, _default=m_def), 'expr', m_def),
        ('method for another rule only', S(term=m_rule), 'expr', None),
        ('underscore-wrapped rule method', S(_expr_=m_rule, _default=m_def), 'expr', m_rule),
    ]

    def _getattr(o, n, *d):
        if isinstance(o, S):
            return getattr(o, n, *d)
        raise Unsupported('getattr on non-semantics object')

    for what, sem, name, want in cases:
        ev = MiniEval(dict(module_constants(fn.module)), calls={'getattr': _getattr, 'safe_name': lambda s, *x: s, 'callable': callable, 'id': id})
        for hn, hf in fn.module.functions.items():  # module-level helpers of the lookup are interpretable too
            if hn not in ev.calls and hf is not fn and not hf.decorators:
                ev.globals.setdefault(hn, ('<func>', hf.node, {}))
        got = ev.call_function(fn.node, [sem, name])
        ok = got is want
        rep.add({'case': what, 'ok': ok})
        if not ok:
            rep.fail(fn.qualname, f'lookup:{what}', f'action lookup for rule {name!r} with {what}: got '
                     f'{"rule method" if got is m_rule else "_default" if got is m_def else got!r}, documented: '
                     f'{"rule method" if want is m_rule else "_default" if want is m_def else want!r}', fn.loc)
    return rep


def _handler_classes(a, fn, h: ast.ExceptHandler) -> list[str]:
    if h.type is None:
        return ['builtins.BaseException']
    ex = Executor(a.p, a.ct, a.resolver, Semantics())
    return ex.exc_class(fn, h.type)


def r3_failure_conversion(a, tier):
    rep = RuleReport(
        'C06.R3',
        'failure handlers of rule_call: the FailedSemantics handler precedes every handler of a superclass, converts '
        'through newexcept, and in every handler the exception that is memoized is the very exception that is raised '
        '(store-what-you-raise); in the engine/api/objectmodel packages no except clause is shadowed by an earlier clause of '
        'the same try naming a superclass',
        floor=3,
    )
    rc = a.p.func(f'{ENGINE}.rule_call')
    # contract, interpreted with scripted callees (whatever the shape of the handlers): what rule_call raises is the object it memoized
    from ..minieval import Raised, Unsupported as _Uns
    from ..modelinterp import Bound as _Bound, Hook as _Hook, ModelInterp as _MI, Recorder as _Rec, Stub as _Stub
    RR = 'tatsu.contexts.infos.RuleResult'

    def run(body_raises=None, action_raises=None):
        memoized: list = []
        converted: list = []
        raised_in = Raised(body_raises or action_raises or 'none', ast.Pass())

        def newexcept(*x, **k):
            ex = Raised('FailedParse', ast.Pass())
            converted.append(ex)
            return ex

        def body(ri):
            if body_raises:
                raise raised_in
            return 'BODY'

        def action(ri, node, pos=None):
            if action_raises:
                raise raised_in
            return node
        me = _Stub(ENGINE, states=_Rec('states'), pos=5, memo=_Hook(lambda key: None), set_left_recursion_guard=_Hook(lambda key: None), next_token=_Hook(lambda *x: None),
                   set_parseinfo=_Hook(lambda *x, **k: None), memoize=_Hook(lambda key, res: memoized.append(res)), semantics_call=_Hook(action), func_call=_Hook(body),
                   newexcept=_Hook(newexcept), set_furthest_exception=_Hook(lambda e: None), clear_left_recursion_guard=_Hook(lambda key: None))
        it = _MI(a, {'RuleResult': _Hook(lambda node, newpos: _Stub(RR, node=node, newpos=newpos), q=RR), 'str': _Hook(lambda o: 'message')})
        try:
            it.call_bound(_Bound(me, rc), [Obj(name='r', is_name=False, is_tokn=False, is_lrec=False), Obj(pos=5)], {})
            out = None
        except Raised as r:
            out = r
        except _Uns as e:
            raise AnalysisError(f'C06.R3: cannot interpret rule_call: {e}') from e
        return raised_in, out, memoized, converted
    seen_fs = True
    for what, kw, foreign in (('the body fails with FailedToken', dict(body_raises='FailedToken'), False), ('the action fails with FailedParse', dict(action_raises='FailedParse'), False),
                              ('the action raises FailedSemantics', dict(action_raises='FailedSemantics'), False), ('the action raises ValueError', dict(action_raises='ValueError'), True)):
        raised_in, out, memoized, converted = run(**kw)
        if foreign:
            ok = out is raised_in and not memoized
            rep.add({'rule_call': what, 'raised_unchanged': out is raised_in, 'memoized': len(memoized), 'ok': ok})
            if not ok:
                rep.fail(rc.qualname, 'foreign-through-rule_call', f'rule_call when {what}: raises {out.cls_name if out is not None else None} and memoizes {len(memoized)} '
                         f'entries; any other exception must reach the caller unchanged and is no outcome of the rule', rc.loc)
            continue
        is_fs = kw.get('action_raises') == 'FailedSemantics'
        same = out is not None and len(memoized) == 1 and memoized[0] is out
        conv_ok = (not is_fs) or (out is not None and out is not raised_in and converted and out is converted[-1])
        keep_ok = is_fs or out is raised_in
        rep.add({'rule_call': what, 'raises': out.cls_name if out is not None else None, 'memoized_the_raised_object': same,
                 'converted_through_newexcept': bool(converted) if is_fs else None, 'ok': same and conv_ok and keep_ok})
        if not same:
            rep.fail(rc.qualname, f'store-vs-raise:{kw.get("body_raises") or kw.get("action_raises")}', f'rule_call when {what}: raises {out.cls_name if out is not None else "nothing"} '
                     f'but memoizes {[getattr(m, "cls_name", repr(m)) for m in memoized]} (same object: {same}): a replay of the remembered failure is not the failure the first invocation raised',
                     rc.loc)
        if is_fs and not conv_ok:
            seen_fs = out is not None and out is not raised_in
            rep.fail(rc.qualname, 'raises-unconverted' if out is raised_in else 'no-conversion', f'rule_call when {what}: raises {"the FailedSemantics itself" if out is raised_in else out.cls_name if out is not None else "nothing"}, '
                     f'not the positioned FailedParse made by newexcept(): choices above do not treat it as a mismatch at this position', rc.loc)
        if not is_fs and not keep_ok:
            rep.fail(rc.qualname, f'failure-replaced:{kw.get("body_raises") or kw.get("action_raises")}', f'rule_call when {what}: raises another exception object than the one that failed the rule', rc.loc)
    # package-wide handler order
    n_try = 0
    for f in a.p.functions.values():
        if not f.module.name.startswith(('tatsu.contexts', 'tatsu.peg', 'tatsu.api', 'tatsu.objectmodel', 'tatsu.semantics', 'tatsu.parsing')):
            continue
        for t in walk_no_defs(f.node):
            if not isinstance(t, ast.Try) or len(t.handlers) < 2:
                continue
            n_try += 1
            earlier: list[str] = []
            for h in t.handlers:
                cs = _handler_classes(a, f, h)
                for c in cs:
                    for e in earlier:
                        if e in a.ct.mro(c):
                            rep.fail(f.qualname, f'shadowed:{c.split(".")[-1]}', f'`except {c.split(".")[-1]}` can never run: the '
                                     f'earlier clause `except {e.split(".")[-1]}` of the same try catches it', f'{f.module.relpath}:{h.lineno}')
                earlier.extend(cs)
    rep.add({'multi_handler_try_statements_checked': n_try})
    return rep


def r4_transparency(a, tier):
    rep = RuleReport(
        'C06.R4',
        'exception transparency: on every function from which a semantic action can be reached (call graph up to the parse '
        'entry points), a try/except or suppress() whose protected region contains a call that can reach the action may '
        'name only classes of the ParseException hierarchy; any other class would catch or rewrite a foreign exception '
        'raised by a user action',
        floor=6,
    )
    cg = CallGraph(a)
    target = f'{ENGINE}.semantics_call'
    a.p.func(target)
    scope = [f for f in a.p.functions.values()
             if f.qualname.startswith(('tatsu.contexts.', 'tatsu.peg.')) and not f.qualname.startswith(('tatsu.peg.semantics', 'tatsu.peg.leftrec'))]
    # reverse reachability within scope: functions that can reach semantics_call (unresolved value calls count as reaching)
    reaches: set[str] = {target}
    changed = True
    while changed:
        changed = False
        for f in scope:
            if f.qualname in reaches:
                continue
            es = cg.edges(f)
            if any(c in reaches for c, _, _ in es) or (cg.unresolved.get(f.qualname) and _has_value_call(a, f)):
                reaches.add(f.qualname)
                changed = True

    # the sink itself: inside semantics_call, any call that invokes, or is handed, the value found by find_semantic_action
    tf = a.p.func(target)
    action_vars = {t.id for n in walk_no_defs(tf.node) if isinstance(n, (ast.Assign, ast.NamedExpr))
                   for t in ([n.target] if isinstance(n, ast.NamedExpr) else n.targets) if isinstance(t, ast.Name)
                   and isinstance(n.value, ast.Call) and dotted(n.value.func).split('.')[-1] in ('find_semantic_action', 'find_cached_semantic_action')}
    if not action_vars:
        raise AnalysisError('semantics_call: the action lookup (find_semantic_action) bound to a local was not found')

    def call_reaches(f, n: ast.Call) -> bool:
        if f is tf and any(isinstance(x, ast.Name) and x.id in action_vars for x in [n.func, *n.args, *[k.value for k in n.keywords]]):
            return True
        r = a.resolver.resolve_call(f, n)
        if r.kind == 'unresolved':
            return True
        return any(t.qualname in reaches for t in r.targets)

    ex = Executor(a.p, a.ct, a.resolver, Semantics())
    for f in scope:
        if f.qualname not in reaches:
            continue
        for t in walk_no_defs(f.node):
            regions: list[tuple[list[ast.stmt], list[tuple[str, ast.AST]]]] = []
            if isinstance(t, ast.Try) and t.handlers:
                hs = []
                for h in t.handlers:
                    for c in _handler_classes(a, f, h):
                        hs.append((c, h))
                regions.append((t.body, hs))
            elif isinstance(t, ast.With):
                for it in t.items:
                    ce = it.context_expr
                    if isinstance(ce, ast.Call) and dotted(ce.func).split('.')[-1] == 'suppress':
                        regions.append((t.body, [(c, ce) for x in ce.args for c in ex.exc_class(f, x)]))
            for body, handlers in regions:
                protected = [n for s in body for n in walk_no_defs(s) if isinstance(n, ast.Call) and call_reaches(f, n)]
                has_yield = any(isinstance(n, (ast.Yield, ast.YieldFrom)) for s in body for n in walk_no_defs(s))
                if not protected and not has_yield:
                    continue
                for c, hnode in handlers:
                    in_family = PE in a.ct.mro(c)
                    rep.add({'function': f.qualname, 'handler': c.split('.')[-1], 'in_ParseException_family': in_family,
                             'protects': [norm(n)[:50] for n in protected[:3]] or ['yield (with-body)']})
                    if not in_family and isinstance(hnode, ast.ExceptHandler) and _transparent_handler(hnode):
                        rep.instances[-1]['transparent'] = 'handles only exceptions raised in this frame (tb_next is None), re-raises the rest'
                        continue
                    if not in_family:
                        rep.fail(f.qualname, f'foreign-handler:{c.split(".")[-1]}',
                                 f'`except {c.split(".")[-1]}` protects `{norm(protected[0])[:60] if protected else "the with-body"}`, '
                                 f'from which a semantic action can be reached: a {c.split(".")[-1]} raised by a user action '
                                 f'is caught here instead of reaching the caller unchanged', f'{f.module.relpath}:{hnode.lineno}')
    rep.notes.append(f'{len(reaches)} engine functions can reach the action call')
    return rep


def _transparent_handler(h: ast.ExceptHandler) -> bool:
    """A foreign-class handler is transparent for exceptions coming out of the callee iff on every path through it that does
    not end in a bare `raise` the fact `<traceback of the caught exception>.tb_next is None` is established by the tests passed
    (the exception was raised by the call expression itself, e.g. an argument-binding TypeError).  Facts: the body of
    `if a and b` knows a, b; the code after / else of `if a or b: <leaves>` knows not a, not b."""
    tb_vars = set()
    for n in ast.walk(h):
        if isinstance(n, ast.Assign) and isinstance(n.targets[0], ast.Name) and h.name and norm(n.value) == f'{h.name}.__traceback__':
            tb_vars.add(n.targets[0].id)
    pos_atoms = {f'{v}.tb_next is None' for v in tb_vars} | ({f'{h.name}.__traceback__.tb_next is None'} if h.name else set())
    neg_atoms = {x.replace(' is None', ' is not None') for x in pos_atoms}

    def facts(test, truth: bool) -> bool:
        """does TEST evaluating to TRUTH establish the wanted fact?"""
        if isinstance(test, ast.UnaryOp) and isinstance(test.op, ast.Not):
            return facts(test.operand, not truth)
        if isinstance(test, ast.BoolOp):
            if isinstance(test.op, ast.And) and truth:
                return any(facts(v, True) for v in test.values)
            if isinstance(test.op, ast.Or) and not truth:
                return any(facts(v, False) for v in test.values)
            return False
        t = norm(test)
        return (truth and t in pos_atoms) or (not truth and t in neg_atoms)

    def ok_block(stmts, known: bool) -> bool:
        """every path through STMTS (entered with the fact KNOWN or not) ends in a bare raise or has the fact when it leaves
        otherwise (return / falling off the end)"""
        for i, s_ in enumerate(stmts):
            if isinstance(s_, ast.Raise):
                return s_.exc is None or known
            if isinstance(s_, ast.Return):
                return known
            if isinstance(s_, ast.If):
                rest = stmts[i + 1:]
                return ok_block([*s_.body, *rest], known or facts(s_.test, True)) and ok_block([*s_.orelse, *rest], known or facts(s_.test, False))
            if isinstance(s_, (ast.Assign, ast.AnnAssign, ast.Expr, ast.Pass)):
                continue
            return False
        return known
    return bool(h.body) and ok_block(list(h.body), False)


def _has_value_call(a, f) -> bool:
    """An unresolved call of a *value* (parameter / attribute holding a callable): exp(self), ri.func(...), rule(self)."""
    for n in walk_no_defs(f.node):
        if isinstance(n, ast.Call) and a.resolver.resolve_call(f, n).kind == 'unresolved':
            return True
    return False


def r5_decorators(a, tier):
    rep = RuleReport(
        'C06.R5',
        'every alternative of the grammar\'s rule-decorator production (read from tatsu/_tatsu.ebnf) is consumed into the '
        'Rule field the engine reads: name/isname -> is_name, nomemo -> no_memo, nostak -> no_stak (Rule.__post_init__), '
        'override (GrammarSemantics.rule); RuleInfo carries the field and memoize() is gated on ruleinfo.memoizable, which '
        'is false for no_memo',
        floor=5,
    )
    ebnf = (a.p.root / 'tatsu' / '_tatsu.ebnf').read_text(encoding='utf-8')
    m = re.search(r'^decorator\s*:\s*(.*?)(?:\n\s*\n|\Z)', ebnf, re.S | re.M)
    if not m:
        raise AnalysisError('decorator production not found in tatsu/_tatsu.ebnf')
    alt = re.search(r'/\(([a-z|]+)\)', m.group(1))
    if not alt:
        raise AnalysisError('cannot read the alternatives of the decorator production')
    names = alt.group(1).split('|')
    post = a.p.func('tatsu.peg.base.Rule.__post_init__')
    sem_rule = a.p.func('tatsu.peg.semantics.GrammarSemantics.rule')
    field_of = {'name': 'is_name', 'isname': 'is_name', 'nomemo': 'no_memo', 'nostak': 'no_stak'}
    from ..minieval import Unsupported as _Uns
    from ..modelinterp import Bound as _Bound, Hook as _Hook, ModelInterp as _MI, Stub as _Stub

    def post_init_flags(decorators):
        """Rule.__post_init__ interpreted on a stand-in rule with these decorators: the flags it ends up with"""
        rule = _Stub('tatsu.peg.base.Rule', name='r', exp=_Stub('tatsu.peg.basic.Token', token='x'), params=(), kwparams={}, decorators=list(decorators), base=None,
                     is_name=False, is_tokn=False, no_memo=False, no_stak=False, is_memo=True, is_lrec=False, ast=None)
        it = _MI(a, {'typename': _Hook(lambda o: o._cls.split('.')[-1] if isinstance(o, _Stub) else type(o).__name__)})
        try:
            it.call_bound(_Bound(rule, post), [], {})
        except _Uns as e:
            raise AnalysisError(f'C06.R5: cannot interpret Rule.__post_init__: {e}') from e
        return {k: rule._attrs.get(k) for k in ('is_name', 'no_memo', 'no_stak')}
    plain = post_init_flags([])
    for d in names:
        consumed_into = None
        if d in field_of:
            got = post_init_flags([d])
            if got.get(field_of[d]) is True and not plain.get(field_of[d]) and all(got[k] == plain[k] for k in got if k != field_of[d]):
                consumed_into = f'Rule.{field_of[d]}'
        else:
            if any(isinstance(c, ast.Constant) and c.value == d for c in ast.walk(sem_rule.node)):
                consumed_into = 'GrammarSemantics.rule'
        rep.add({'decorator': f'@{d}', 'consumed_into': consumed_into})
        if consumed_into is None:
            rep.fail(post.qualname, f'decorator-ignored:{d}', f'the grammar accepts `@{d}` on a rule but nothing consumes it: '
                     + (f'Rule.{field_of[d]} stays False, so the decorator has no effect' if d in field_of else 'no consumer found'), post.loc)
    # field -> RuleInfo -> gate
    ri_prop = a.p.func('tatsu.peg.base.Rule.ruleinfo')
    kw = {}
    for n in walk_no_defs(ri_prop.node):
        if isinstance(n, ast.Call) and dotted(n.func) == 'RuleInfo':
            kw = {k.arg: norm(k.value) for k in n.keywords}
    for fld in ('no_memo', 'no_stak', 'is_name', 'is_tokn', 'is_lrec', 'params', 'kwparams', 'name'):
        ok = kw.get(fld) == f'self.{fld}'
        rep.add({'RuleInfo_field': fld, 'from': kw.get(fld), 'ok': ok})
        if not ok:
            rep.fail(ri_prop.qualname, f'ruleinfo:{fld}', f'Rule.ruleinfo builds RuleInfo.{fld} from `{kw.get(fld)}`, expected `self.{fld}`', ri_prop.loc)
    mem = a.p.func('tatsu.contexts.infos.RuleInfo.memoizable')
    rets = [norm(r.value) for r in walk_no_defs(mem.node) if isinstance(r, ast.Return) and r.value is not None]
    ok = len(rets) == 1 and 'not self.no_memo' in rets[0] and 'self.is_memo' in rets[0]
    rep.add({'RuleInfo.memoizable': rets, 'ok': ok})
    if not ok:
        rep.fail(mem.qualname, 'memoizable', f'RuleInfo.memoizable is `{rets}`: must be false for no_memo rules', mem.loc)
    # decorator functions set the attribute RuleInfo.new reads
    new = a.p.func('tatsu.contexts.infos.RuleInfo.new')
    read = {}
    for n in walk_no_defs(new.node):
        if isinstance(n, ast.Call) and dotted(n.func) == 'RuleInfo':
            for k in n.keywords:
                kv = through_locals(new, k.value)  # also `no_memo = getattr(func, 'no_memo', False)` ... `no_memo=no_memo`
                cands = [kv]
                if isinstance(k.value, ast.Name):  # a local assigned more than once (a default first, then the attribute of the function)
                    cands += [x.value for x in walk_no_defs(new.node) if isinstance(x, ast.Assign) and any(isinstance(t, ast.Name) and t.id == k.value.id for t in x.targets)]
                for kv in cands:
                    if isinstance(kv, ast.Call) and dotted(kv.func) == 'getattr' and len(kv.args) >= 2 and isinstance(kv.args[1], ast.Constant):
                        read[k.arg] = kv.args[1].value
    dec_mod = a.p.module('tatsu.contexts.decorator.basic')
    for dname, fld in (('nomemo', 'no_memo'), ('nostak', 'no_stak'), ('name', 'is_name'), ('isname', 'is_name'), ('token', 'is_tokn'), ('leftrec', 'is_lrec')):
        df = dec_mod.functions.get(dname)
        sets = [norm(n.targets[0]).split('.')[-1] for n in walk_no_defs(df.node) if isinstance(n, ast.Assign) and isinstance(n.targets[0], ast.Attribute)
                and isinstance(n.value, ast.Constant) and n.value.value is True] if df else []
        ok = df is not None and fld in sets and read.get(fld) == fld
        rep.add({'python_decorator': dname, 'sets': sets, 'RuleInfo.new_reads': read.get(fld), 'ok': ok})
        if not ok:
            rep.fail(f'tatsu.contexts.decorator.basic.{dname}', f'decorator-field:{fld}', f'@tatsu.{dname} sets {sets} but RuleInfo.new '
                     f'reads `{read.get(fld)}` for {fld}', df.loc if df else '')
    return rep


CONTAINER_CTORS = {'dict', 'list', 'set', 'defaultdict', 'OrderedDict', 'deque', 'Counter', 'BoundedDict'}
MUTATING = {'append', 'extend', 'insert', 'add', 'update', 'setdefault', 'pop', 'popitem', 'remove', 'discard', 'clear', '__setitem__'}


def r6_per_parse_state(a, tier):
    rep = RuleReport(
        'C06.R6',
        'a parse context that is used for several parses (a generated parser object) starts every parse from the settings of that '
        'parse: each container attribute the context classes create in __init__ and fill during parsing is created again by the '
        'functions that start a parse (_reset / _initialize_caches, called from bound()); the action lookup consults the semantics '
        'object of the current parse (find_semantic_action returns the lookup on self.semantics, never a table that outlives it)',
        floor=2,
    )
    chain = [c for c in a.ct.mro('tatsu.contexts.context.ParseContext') if c.startswith('tatsu.contexts.') and c in a.p.classes]
    fns = [f for f in a.p.functions.values() if f.cls is not None and f.cls.qualname in chain]
    starters = {f.name for f in fns if f.name in ('_reset', '_initialize_caches')}
    if not starters:
        raise AnalysisError('ParserCore._reset / _initialize_caches not found')

    def is_container(v) -> bool:
        return isinstance(v, (ast.Dict, ast.List, ast.Set, ast.DictComp, ast.ListComp, ast.SetComp)) or (
            isinstance(v, ast.Call) and dotted(v.func).split('.')[-1] in CONTAINER_CTORS)
    created: dict[str, set[str]] = {}
    for f in fns:
        for n in walk_no_defs(f.node):
            if isinstance(n, (ast.Assign, ast.AnnAssign)) and n.value is not None and is_container(n.value):
                for t in (n.targets if isinstance(n, ast.Assign) else [n.target]):
                    if isinstance(t, ast.Attribute) and norm(t.value) == 'self':
                        created.setdefault(t.attr, set()).add(f.name)
    filled: dict[str, set[str]] = {}
    for f in fns:
        for n in walk_no_defs(f.node):
            attr = None
            if isinstance(n, (ast.Assign, ast.AugAssign, ast.Delete)):
                for t in (n.targets if isinstance(n, (ast.Assign, ast.Delete)) else [n.target]):
                    if isinstance(t, ast.Subscript) and isinstance(t.value, ast.Attribute) and norm(t.value.value) == 'self':
                        attr = t.value.attr
            elif isinstance(n, ast.Call) and isinstance(n.func, ast.Attribute) and n.func.attr in MUTATING \
                    and isinstance(n.func.value, ast.Attribute) and norm(n.func.value.value) == 'self':
                attr = n.func.value.attr
            if attr:
                filled.setdefault(attr, set()).add(f.name)
    for attr in sorted(set(created) & set(filled)):
        ok = bool(created[attr] & starters)
        rep.add({'container_attribute': attr, 'created_in': sorted(created[attr]), 'filled_in': sorted(filled[attr]), 'recreated_when_a_parse_starts': ok})
        if not ok:
            where = next(f for f in fns if f.name in filled[attr])
            rep.fail(where.qualname, f'stale-container:{attr}', f'self.{attr} is created in {sorted(created[attr])} and filled in '
                     f'{sorted(filled[attr])} but not created again by _reset()/_initialize_caches(): a parser object used for a second parse '
                     f'keeps what the first parse put there (e.g. the actions of the first parse\'s semantics object)', where.loc)
    fsa = a.p.func('tatsu.contexts.core.ParserCore.find_semantic_action')
    rets = [r.value for r in walk_no_defs(fsa.node) if isinstance(r, ast.Return) and r.value is not None]
    direct = bool(rets) and all(isinstance(through_locals(fsa, r), ast.Call) and dotted(through_locals(fsa, r).func).split('.')[-1] == 'find_cached_semantic_action'
                                and through_locals(fsa, r).args and norm(through_locals(fsa, r).args[0]) == 'self.semantics' for r in rets)
    rep.add({'find_semantic_action_returns_lookup_on_current_semantics': direct})
    if not direct:
        rep.fail(fsa.qualname, 'lookup-not-on-current-semantics', 'find_semantic_action() returns something else than the lookup '
                 'find_cached_semantic_action(self.semantics, name) on the semantics object of the current parse', fsa.loc)
    return rep


def r7_nomemo_gate(a, tier):
    """the memo store is gated by memoizable (is_memo and not @nomemo): a @nomemo rule runs body and action on every invocation"""
    from . import c04
    rep = c04.r2_ownership(a, tier)
    rep.rule = 'C06.R7'
    for f in rep.findings:
        f.rule = 'C06.R7'
    rep.text = '[= C04.R2] ' + rep.text
    return rep


def r8_action_contract(a, tier):
    from ..minieval import Raised
    from ..modelinterp import Bound, Hook, ModelInterp, Stub
    rep = RuleReport(
        'C06.R8',
        'semantics_call, interpreted on a stand-in engine: with an action, the action is called once with the rule\'s value, the rule\'s '
        'parameters and keyword parameters, and WHATEVER it returns - also a falsy result: 0, "", [], (), False, None - is the value '
        'handed back; without an action the rule\'s value itself is handed back (also when it is falsy)',
        floor=12,
    )
    sc = a.p.func(f'{ENGINE}.semantics_call')

    class Val(list):
        """an identity-carrying value"""
    node_values = [Val(['n']), Val([]), 0, '', (), False, None, 'text']
    results = ['R', 0, '', [], (), False, None]
    cases = [(nv, True, r) for nv in node_values[:3] for r in results] + [(nv, False, None) for nv in node_values]
    for nv, with_action, result in cases:
        calls: list = []

        def boundcall(act, known, *args, **kw):
            calls.append((args, kw))
            return result
        me = Stub(ENGINE, config=Obj(ignorecase=False, parseinfo=False), keywords=set(), pos=3,
                  find_semantic_action=Hook(lambda n: (lambda *x, **k: None) if with_action else None), make_parseinfo=Hook(lambda *x, **k: 'PI'))
        ri = Obj(is_name=False, name='r', params=('p1',), kwparams={'k': 'v'})
        it = ModelInterp(a, {'boundcall': Hook(boundcall)})
        try:
            got = it.call_bound(Bound(me, sc), [ri, nv, 0], {})
            raised = None
        except Raised as r:
            got, raised = None, r.cls_name
        except Unsupported as e:
            raise AnalysisError(f'C06.R8: cannot interpret semantics_call: {e}') from e
        if with_action:
            ok = raised is None and len(calls) == 1 and calls[0][0][0] is nv and calls[0][0][1:] == ('p1',) and calls[0][1].get('k') == 'v' \
                and got == result and type(got) is type(result)
        else:
            ok = raised is None and not calls and got is nv
        rep.add({'rule_value': repr(nv), 'action': with_action, 'action_returns': repr(result) if with_action else None, 'semantics_call_returns': repr(got),
                 'raised': raised, 'ok': bool(ok)})
        if not ok:
            rep.fail(sc.qualname, f'action-contract:{nv!r}:{with_action}:{result!r}', f'semantics_call with the rule value {nv!r}, {"an action returning " + repr(result) if with_action else "no action"}: '
                     f'returns {got!r} (raised {raised}; action calls {calls}); required: ' + (f'{result!r}, after one call action({nv!r}, "p1", k="v")' if with_action else 'the rule value itself'), sc.loc)
    return rep


def r9_semantics_not_shared(a, tier):
    """the actions that run are those of the object that was supplied: compile() shares models through a cache and stores the semantics
    on the shared model, so the semantics object must be part of the cache key (= C10.R1; the known findings of C10 about the settings and
    the builder options are C10's)"""
    from . import c10
    src = c10.r1_cache_key(a, tier)
    rep = RuleReport('C06.R9', '[= C10.R1, the stored-parameter clause for `semantics`] ' + src.text, floor=1)
    rep.instances = [i for i in src.instances if isinstance(i, dict) and 'stored_on_the_cached_object' in i]
    for f in src.findings:
        if f.key.startswith('key-misses-stored:') or f.key in ('id-key:semantics',):
            f.rule = 'C06.R9'
            rep.findings.append(f)
    if not rep.instances:
        rep.notes.append('compile() stores no parameter on a cached object')
        rep.instances = [{'stored_on_the_cached_object': None}]
    return rep


def r10_foreign_exceptions_pass_lookahead(a, tier):
    """an exception of an action that is not a parse failure passes through every construct, the negative lookahead included"""
    from . import c01
    rep = c01.r7b_negative_lookahead(a, tier)
    rep.rule = 'C06.R10'
    for f in rep.findings:
        f.rule = 'C06.R10'
    rep.text = '[= C01.R7b] ' + rep.text
    return rep


def r11_calls_keep_their_rule(a, tier):
    """every evaluation of a rule body calls that rule's action: the optimisation pass may not replace an invocation of a rule by an invocation
    (or the body) of the rule it refers to (= C01.R13)"""
    from .c01_optimizer import calls_keep_their_rule
    rep = calls_keep_their_rule(a, 'C06.R11')
    rep.text = '[= C01.R13] ' + rep.text
    return rep


def r12_bind_cache_key(a, tier):
    from ..minieval import Unsupported as _Uns
    from ..modelinterp import Hook as _Hook, ModelInterp as _MI
    rep = RuleReport(
        'C06.R12',
        'the action is called with THIS invocation\'s arguments: the key of the process-wide bind cache (BoundCallable._arg_key, interpreted) '
        'tells apart argument tuples that differ in any argument\'s identity - in particular values that compare and hash equal but are different '
        'values to an action (1 / True / 1.0, 0 / False / 0.0, an AST and an equal AST) - for positional, keyword and known arguments alike; '
        'a key that goes by value hands a later call the arguments bound for an earlier one',
        floor=10,
    )
    fn = a.p.functions.get('tatsu.util.typetools.BoundCallable._arg_key')
    if fn is None:
        raise AnalysisError('C06.R12: BoundCallable._arg_key not found')
    fun = object()
    l1, l2 = ['x'], ['x']
    d1, d2 = {'k': 1}, {'k': 1}
    pairs = [(1, True), (1, 1.0), (True, 1.0), (0, False), (0, 0.0), (l1, l2), (d1, d2), ((1,), (True,)), ('1', 1)]

    def key(known, args, kwargs):
        it = _MI(a, {'id': _Hook(id)})
        try:
            return it.call_function(fn.node, [fun, known, args, kwargs]) if not fn.params or fn.params[0] != 'cls' else it.call_function(fn.node, [None, fun, known, args, kwargs])
        except _Uns as e:
            raise AnalysisError(f'C06.R12: cannot interpret BoundCallable._arg_key: {e}') from e
    for x, y in pairs:
        for where, mk in (('positional', lambda v: ({}, (v,), {})), ('keyword', lambda v: ({}, (), {'p': v})), ('known', lambda v: ({'ast': v}, (), {}))):
            kx, ky = key(*mk(x)), key(*mk(y))
            same_obj = key(*mk(x)) == kx
            ok = kx != ky and same_obj
            rep.add({'arguments': [repr(x), repr(y)], 'passed_as': where, 'keys_differ': kx != ky, 'same_arguments_same_key': same_obj, 'ok': ok})
            if kx == ky:
                rep.fail(fn.qualname, f'bind-key-collision:{where}:{x!r}:{y!r}', f'the bind-cache keys of a call with the {where} argument {x!r} and of a call with {y!r} are equal: the second '
                         f'call gets the arguments bound for the first (an action declared with the parameter True receives 1)', fn.loc)
            elif not same_obj:
                rep.fail(fn.qualname, f'bind-key-unstable:{where}:{x!r}', f'two computations of the key for the same {where} argument {x!r} differ', fn.loc)
    return rep


RULES = [r1_action_on_success, r2_lookup_order, r3_failure_conversion, r4_transparency, r5_decorators, r6_per_parse_state, r7_nomemo_gate, r8_action_contract, r9_semantics_not_shared, r10_foreign_exceptions_pass_lookahead, r11_calls_keep_their_rule, r12_bind_cache_key]
