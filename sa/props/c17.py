"""C17 - constant expressions in grammars are evaluated in a sandbox."""
from __future__ import annotations

import ast
import builtins as _bi

from ..callgraph import CallGraph
from ..loader import const_eval, AnalysisError, dotted, norm, walk_no_defs
from ..minieval import MiniEval, Raised, Unsupported
from ..report import RuleReport
from ..rules.common import FlagSem, run_flags

LEVEL = 'other'
TECHNIQUE = ('static: abstract evaluation of the builtin filter over the closed builtin namespace, who-may-eval '
             'call-graph rule, must-pass-through check before eval, interpretation of the AST gate over a situation table, no-mutation rule on the memoised allowed-names tables')
LEVEL_TEXT = ('Decides from the source: (R1) the set of builtins the sandbox admits, computed by evaluating the '
              'repository filter predicate over every builtin of the interpreter, never meets the effect table; '
              '(R2) the only dynamic-evaluation site reachable from constant/alert evaluation is the guarded eval, '
              'dominated by the AST gate on the same expression/context with empty __builtins__; (R3) the AST gate, '
              'interpreted over a table of expression situations, rejects every escape route named by the property; '
              '(R4) rejected expressions stay inert and evaluation errors become FailedSemantics. Effects reachable '
              'through methods of allowed *values* other than str.format field syntax are not decided.')
TECHNIQUE += '; precedence of the evaluation context (constant() interpreted with colliding names in builtins / semantics context / AST)'
LEVEL_TEXT += ' Added clause: a name of the AST wins over a sandbox builtin of the same name, as documented.'
TECHNIQUE += '; uncalled bound str.format in the gate table; termination of constant()'
TECHNIQUE += '; forbidden accesses inside lambda bodies handed to context functions (R3)'
LEVEL_TEXT += ' Added clauses: a bound format method cannot be handed to a builtin; deep evaluation ends.'
LEVEL_TEXT += ' Added clauses (rounds 9-11): forbidden accesses inside lambda bodies are rejected.'
LEVEL_NOTE = ('Trusted: CPython eval(src, {"__builtins__": {}}, ctx) resolves names only in ctx; the builtin namespace '
              'of /venv python 3.12 (incl. site additions) is the environment model; effect classes of builtins '
              '(DESIGN appendix B) are the oracle.')
EXPLANATION = ('Static analysis; TatSu is not imported. The predicate of safe_builtins() is interpreted (whitelisted '
               'mini-evaluator over the AST) on each (name, object) of the interpreter\'s builtin namespace; the '
               'gate _check_safe_eval_cached/check_eval_context is interpreted on checker-built ast trees; '
               'dominance and who-may-call are decided on the path engine and the call graph.')
ASSUMPTIONS = [LEVEL_NOTE]

SAFEEVAL = 'tatsu.util.safeeval'

# ---- oracle (DESIGN appendix B): effect classes of CPython builtins -----------------------
MUST_NOT = {
    'open': 'opens files',
    'eval': 'runs code', 'exec': 'runs code', 'compile': 'compiles code', 'breakpoint': 'runs a debugger',
    '__import__': 'imports modules',
    'input': 'reads input', 'help': 'interactive pager, reads input',
    'exit': 'exits the process', 'quit': 'exits the process',
    'getattr': 'reaches dunder attributes by name', 'setattr': 'reaches dunder attributes by name',
    'delattr': 'reaches dunder attributes by name', 'hasattr': 'reaches dunder attributes by name',
    'vars': 'exposes __dict__', 'dir': 'enumerates dunder attributes', 'globals': 'exposes module globals',
    'locals': 'exposes frame locals', 'type': 'reaches the type system (__subclasses__, __mro__)',
    'object': 'reaches the type system', 'super': 'reaches the type system',
    'print': 'not a pure function (writes to stdout)', 'copyright': 'not pure (prints)',
    'credits': 'not pure (prints)', 'license': 'not pure (interactive pager)',
    '__build_class__': 'runs code', '__loader__': 'imports modules', '__spec__': 'import machinery',
}
PURE = {'abs', 'all', 'any', 'ascii', 'bin', 'callable', 'chr', 'divmod', 'format', 'hash', 'hex', 'iter', 'len',
        'max', 'min', 'next', 'oct', 'ord', 'pow', 'repr', 'round', 'sorted', 'sum',
        'True', 'False', 'None', 'Ellipsis', 'NotImplemented', '__debug__'}
NEUTRAL = {'id', 'isinstance', 'issubclass', 'aiter', 'anext', '__name__', '__doc__', '__package__', '_'}


def _classify(name: str, value) -> str:
    if name in MUST_NOT:
        return 'must_not'
    if name in PURE:
        return 'pure'
    if name in NEUTRAL:
        return 'neutral'
    if isinstance(value, type):
        return 'neutral'  # ordinary type objects / exception classes: no verdict
    return 'unclassified'


class _Builtins:
    """Marker standing for the `builtins` module inside the evaluated repo code."""


class _Eval(MiniEval):
    def attribute(self, e, env):
        base = self.expr(e.value, env)
        if isinstance(base, _Builtins):
            if e.attr == '__dict__':
                return dict(vars(_bi))
            if hasattr(_bi, e.attr):
                return getattr(_bi, e.attr)
        if base is ast and hasattr(ast, e.attr):
            return getattr(ast, e.attr)
        if isinstance(base, ast.AST) and e.attr in base._fields:
            return getattr(base, e.attr)
        raise Unsupported(f'attribute access {ast.unparse(e)}')


def _module_env(a, modname: str) -> dict:
    from ..minieval import module_constants
    return dict(module_constants(a.p.module(modname)))


def _add_module_functions(a, ev, modname: str, skip=()) -> None:
    """module-level helper functions of the interpreted function become interpretable too (not the ones the rule abstracts)"""
    for name, f in a.p.module(modname).functions.items():
        if name not in ev.calls and name not in skip and not f.decorators:
            ev.globals.setdefault(name, ('<func>', f.node, {}))


def allowed_builtins(a) -> dict[str, object]:
    """Evaluate safe_builtins() of the repository over the interpreter's builtin namespace."""
    fn = a.p.func(f'{SAFEEVAL}.safe_builtins')
    env = _module_env(a, SAFEEVAL)
    marker = _Builtins()
    env.update({'builtins': marker, 'type': type, 'BaseException': BaseException, 'Exception': Exception,
                'object': object})

    def _vars(x):
        if isinstance(x, _Builtins):
            return dict(vars(_bi))
        raise Unsupported('vars() of a non-builtins object')

    def _getattr(x, name, *d):
        if isinstance(x, _Builtins):
            return getattr(_bi, name, *d)
        raise Unsupported('getattr on a non-builtins object')

    ev = _Eval(env, calls={'vars': _vars, 'getattr': _getattr, 'hasattr': lambda x, n: hasattr(_bi, n) if isinstance(x, _Builtins) else False})
    _add_module_functions(a, ev, SAFEEVAL, skip=('safe_builtins',))  # a predicate moved out of safe_builtins() is interpreted with it
    res = ev.call_function(fn.node, [])
    if not isinstance(res, dict):
        raise AnalysisError(f'{fn.loc}: safe_builtins() did not evaluate to a mapping')
    return res


def r1_builtins(a, tier):
    rep = RuleReport(
        'C17.R1',
        'the set of builtins admitted by safe_builtins() (its deny/allow predicate evaluated over every name of '
        'the interpreter builtin namespace) contains no builtin that opens files, runs/compiles code, imports, '
        'reads input, exits, reaches dunder attributes/the type system or is impure; a builtin not classified '
        'by the checker table is itself a violation (a deny-list admits whatever it does not know)',
        floor=100,
    )
    fn = a.p.func(f'{SAFEEVAL}.safe_builtins')
    allowed = allowed_builtins(a)
    universe = dict(vars(_bi))
    for name, value in sorted(universe.items()):
        cls = _classify(name, value)
        is_allowed = name in allowed
        rep.add({'builtin': name, 'class': cls, 'allowed': is_allowed})
        if is_allowed and cls == 'must_not':
            rep.fail(fn.qualname, f'builtin:{name}',
                     f'sandbox context admits builtin {name!r} ({MUST_NOT[name]}): an expression such as '
                     f'`{name}(...)` in a grammar constant passes the gate', fn.loc)
        elif is_allowed and cls == 'unclassified':
            rep.fail(fn.qualname, f'builtin:{name}',
                     f'sandbox context admits builtin {name!r} which the effect table does not classify', fn.loc)
    for name in allowed:
        if name not in universe:
            rep.fail(fn.qualname, f'builtin:{name}', f'safe_builtins() yields a name {name!r} that is not a builtin', fn.loc)
    rep.notes.append(f'allowed set ({len(allowed)}): {sorted(allowed)}')
    return rep


DYNAMIC = {'eval', 'exec', 'compile', '__import__'}


def _dynamic_sites(a):
    out = []
    for f in a.p.functions.values():
        for n in walk_no_defs(f.node):
            if not isinstance(n, ast.Call):
                continue
            name = dotted(n.func)
            if isinstance(n.func, ast.Name) and n.func.id in DYNAMIC:
                q = a.p.resolve(f.module.name, n.func.id)
                if q.startswith('builtins.'):
                    out.append((f, n, n.func.id))
            elif name in ('importlib.import_module', 'import_module', 'builtins.eval', 'builtins.exec'):
                out.append((f, n, name))
    return out


def r2_who_may_eval(a, tier):
    rep = RuleReport(
        'C17.R2',
        'every eval/exec/compile/__import__/import_module call site reachable (call graph) from '
        'ParserEngine.constant, ParseContext.alert, safe_eval or is_eval_safe is the one eval in safe_eval; that '
        'eval is dominated on every path by check_safe_eval on the same expression and context variables, passes '
        'a globals mapping whose __builtins__ is an empty mapping and the checked context as locals; '
        'check_safe_eval hands both to the AST gate',
        floor=3,
    )
    cg = CallGraph(a)
    starts = ['tatsu.contexts.engine.ParserEngine.constant', 'tatsu.contexts.context.ParseContext.alert',
              f'{SAFEEVAL}.safe_eval', f'{SAFEEVAL}.is_eval_safe']
    for s in starts:
        a.p.func(s)
    pred = cg.reach(starts)
    sites = _dynamic_sites(a)
    vetted = f'{SAFEEVAL}.safe_eval'
    for f, n, kind in sites:
        reachable = f.qualname in pred
        rep.add({'site': f'{f.module.relpath}:{n.lineno}', 'function': f.qualname, 'kind': kind,
                 'reachable_from_constant_evaluation': reachable})
        if reachable and not (f.qualname == vetted and kind == 'eval'):
            rep.fail(f.qualname, f'{kind}:{norm(n)}',
                     f'dynamic evaluation `{norm(n)}` is reachable from constant/alert evaluation outside the guarded eval',
                     f'{f.module.relpath}:{n.lineno}', cg.path(pred, f.qualname))
    # the guarded eval
    se = a.p.func(vetted)
    evals = [n for n in walk_no_defs(se.node) if isinstance(n, ast.Call) and isinstance(n.func, ast.Name) and n.func.id == 'eval']
    if len(evals) != 1:
        raise AnalysisError(f'{se.loc}: expected exactly one eval() in safe_eval, found {len(evals)}')
    ev = evals[0]
    eargs = ev.args
    ok_shape = len(eargs) == 3 and isinstance(eargs[0], ast.Name) and isinstance(eargs[2], ast.Name)
    if not ok_shape:
        rep.fail(se.qualname, 'eval-shape', f'eval call `{norm(ev)}` does not pass (expression, globals, context) by name', se.loc)
        return rep
    expr_name, ctx_name = eargs[0].id, eargs[2].id
    g = eargs[1]
    empty_builtins = False
    if isinstance(g, ast.Dict):
        for k, v in zip(g.keys, g.values):
            if isinstance(k, ast.Constant) and k.value == '__builtins__':
                empty_builtins = (isinstance(v, ast.Dict) and not v.keys) or (
                    isinstance(v, ast.Call) and dotted(v.func) == 'dict' and not v.args and not v.keywords)
    rep.add({'eval': norm(ev), 'globals_has_empty___builtins__': empty_builtins})
    if not empty_builtins:
        rep.fail(se.qualname, 'eval-globals', f'eval globals `{norm(g)}` do not bind __builtins__ to an empty mapping: '
                 f'CPython then injects the real builtins module', f'{se.module.relpath}:{ev.lineno}')
    if expr_name not in se.params or ctx_name not in se.params:
        rep.fail(se.qualname, 'eval-args', 'eval arguments are not the parameters of safe_eval', se.loc)

    def flagger(ex, fn, call, state):
        nm = dotted(call.func).split('.')[-1]
        if nm in ('check_safe_eval', '_check_safe_eval_cached'):
            if (len(call.args) >= 2 and isinstance(call.args[0], ast.Name) and call.args[0].id == expr_name
                    and isinstance(call.args[1], ast.Name) and call.args[1].id == ctx_name):
                return ('checked',)
        if call is ev and 'checked' not in state:
            return ('unchecked_eval',)
        return ()

    outs = run_flags(a, se, flagger)
    bad = [o for o in outs if 'unchecked_eval' in o.state]
    rep.add({'eval_dominated_by_check_safe_eval': not bad, 'paths': len(outs)})
    if bad:
        rep.fail(se.qualname, 'eval-not-dominated',
                 f'a path reaches `{norm(ev)}` without check_safe_eval({expr_name}, {ctx_name}) having run',
                 f'{se.module.relpath}:{ev.lineno}')
    # reassignment of the checked variables between check and eval
    for n in walk_no_defs(se.node):
        if isinstance(n, ast.Name) and isinstance(n.ctx, ast.Store) and n.id in (expr_name, ctx_name):
            rep.fail(se.qualname, f'rebinding:{n.id}', f'{n.id} is re-bound inside safe_eval, the checked value may differ '
                     f'from the evaluated one', f'{se.module.relpath}:{n.lineno}')
    # check_safe_eval must reach the gate with the expression and the (hashable image of the) context
    cse = a.p.func(f'{SAFEEVAL}.check_safe_eval')
    p0, p1 = cse.params[0], cse.params[1]

    def derived_from(name_node: ast.expr, src: str) -> bool:
        if isinstance(name_node, ast.Name) and name_node.id == src:
            return True
        if isinstance(name_node, ast.Name):
            for n in walk_no_defs(cse.node):
                if (isinstance(n, ast.Assign) and len(n.targets) == 1 and isinstance(n.targets[0], ast.Name)
                        and n.targets[0].id == name_node.id):
                    return any(isinstance(x, ast.Name) and x.id == src for x in ast.walk(n.value))
        return False

    def gate_flag(ex, fn, call, state):
        if dotted(call.func).split('.')[-1] == '_check_safe_eval_cached' and len(call.args) >= 2:
            if derived_from(call.args[0], p0) and derived_from(call.args[1], p1):
                return ('gated',)
        return ()

    missing = [o for o in run_flags(a, cse, gate_flag) if o.kind == 'return' and 'gated' not in o.state]
    rep.add({'check_safe_eval_reaches_gate_on_all_returns': not missing})
    if missing:
        rep.fail(cse.qualname, 'gate-skipped', 'check_safe_eval can return without calling the AST gate '
                 f'_check_safe_eval_cached({p0}, <image of {p1}>)', cse.loc)
    return rep


# ---- R3: the gate interpreted over a situation table ----------------------------------------
GATE_CASES = [
    # (expression, context names, must be rejected?, what it stands for)
    ('a.__class__', ['a'], True, 'dunder attribute'),
    ('a.b.__globals__', ['a'], True, 'dunder attribute at the end of a chain'),
    ('().__class__.__bases__', [], True, 'dunder attribute on a literal'),
    ('zzz', [], True, 'loaded name outside the context'),
    ('zzz + 1', ['a'], True, 'loaded name outside the context in an operation'),
    ('open("f")', [], True, 'call of a name outside the context'),
    ('__import__("os")', [], True, 'call of a name outside the context (dunder name)'),
    ('(lambda: 1)()', [], True, 'call of a lambda'),
    ('a()()', ['a'], True, 'call of a call result'),
    ('[a][0]()', ['a'], True, 'call of a subscript'),
    ('f"{a.__class__}"', ['a'], True, 'dunder attribute inside an f-string'),
    ('f"{a:{b.__class__}}"', ['a', 'b'], True, 'dunder attribute inside a nested format spec'),
    ('[x.__class__ for x in a]', ['a'], True, 'dunder attribute inside a comprehension'),
    ('"{0.__class__}".format(a)', ['a'], True, 'str.format field syntax reads a dunder attribute without an ast.Attribute node'),
    ('"{x.__class__}".format_map({"x": a})', ['a'], True, 'str.format_map field syntax reads a dunder attribute'),
    ('sorted([a], key="{0.__class__}".format)', ['a', 'sorted'], True, 'the bound str.format handed UNCALLED to a context function that calls it (key=): the '
                                                                    'field syntax reads the dunder attribute'),
    ('min([a], key="{0.__class__}".format_map)', ['a', 'min'], True, 'the bound str.format_map handed uncalled to a context function'),
    ('[f("x") for f in ["{0.__class__}".format]]', [], True, 'the bound str.format stored in a display'),
    *[(f'a.{attr}', ['a'], True, f'introspection attribute .{attr} (CPython data model: reaches frames, code objects or the real builtins '
                                  f'without a dunder name, e.g. (x for x in y).gi_frame.f_back.f_builtins)')
      for attr in ('gi_frame', 'gi_code', 'gi_yieldfrom', 'cr_frame', 'cr_code', 'cr_await', 'ag_frame', 'ag_code', 'ag_await',
                   'f_back', 'f_builtins', 'f_globals', 'f_locals', 'f_code', 'f_trace', 'tb_frame', 'tb_next', 'co_consts', 'co_names', 'co_code')],
    ("(1 for z in '').gi_frame.f_builtins", [], True, 'frame of a generator expression'),
    # the same accesses inside the body of a lambda that an allowed function calls (key=, iter(callable, sentinel)): a body is checked like the rest
    ('sorted([a], key=lambda s: s.__class__)', ['a', 'sorted'], True, 'dunder attribute inside a lambda body handed to a context function'),
    ('max([a], key=lambda s: s.gi_frame)', ['a', 'max'], True, 'introspection attribute inside a lambda body'),
    ('min([a], key=lambda s: "{0.__class__}".format(s))', ['a', 'min'], True, 'str.format inside a lambda body'),
    ('next(iter(lambda s=a: s.__class__.__base__.__subclasses__(), 0))', ['a', 'next', 'iter'], True, 'dunder chain inside a lambda called through iter(callable, sentinel)'),
    ('sorted([a], key=lambda s: open(s))', ['a', 'sorted'], True, 'call of a name outside the context inside a lambda body'),
    ('a', ['a'], False, 'name bound in the AST'),
    ('a + 1', ['a'], False, 'arithmetic on a bound name'),
    ('len(a)', ['a', 'len'], False, 'call of a context function'),
    ('a.upper()', ['a'], False, 'method call on a bound value'),
    ('a.first_name', ['a'], False, 'ordinary attribute of a bound value'),
    ('"lit"', [], False, 'literal'),
    ('f"{a}"', ['a'], False, 'f-string over a bound name'),
    ('(a, 1, [2])', ['a'], False, 'display of literals and bound names'),
]


def _interp_gate(a, expression: str, ctx_names: list[str]):
    """Interpret _check_safe_eval_cached(expression, items) -> None | Raised."""
    fn = a.p.func(f'{SAFEEVAL}._check_safe_eval_cached')
    env = _module_env(a, SAFEEVAL)
    env.update({'ast': ast, 'UndefinedType': type('UndefinedType', (), {}), 'Undefined': None,
                'SecurityError': 'SecurityError', 'type': type})
    tree = ast.parse(expression, mode='eval')
    import collections
    calls = {
        'parse_expression': lambda s: tree,
        'check_eval_context': lambda c: None,
        'dict': dict,
        'deque': collections.deque,
    }

    def methods(recv, name, args, kwargs):
        if isinstance(recv, collections.deque) and name in ('popleft', 'pop', 'append', 'appendleft', 'extend', 'extendleft', 'clear'):
            return getattr(recv, name)(*args)
        if recv is ast and name == 'walk':
            return list(ast.walk(*args))
        if recv is ast and name in ('iter_child_nodes', 'iter_fields'):
            return list(getattr(ast, name)(*args))
        return NotImplemented

    ev = _Eval(env, calls=calls, methods=methods)
    _add_module_functions(a, ev, SAFEEVAL, skip={fn.name})
    items = tuple((n, 1) for n in ctx_names)
    try:
        ev.call_function(fn.node, [expression, items])
    except Raised as r:
        return r
    return None


def r3_gate(a, tier):
    rep = RuleReport(
        'C17.R3',
        'the AST gate (_check_safe_eval_cached), interpreted over a table of expression situations built by the '
        'checker, raises for: dunder attributes (plain, chained, in f-strings, nested specs, comprehensions), loaded '
        'names outside the context, calls of names outside the context, calls of anything that is not a name or '
        'attribute, str.format/format_map field access; and accepts literals, bound names, context calls and '
        'method calls; check_eval_context rejects dunder keys, lambdas and renamed callables',
        floor=20,
    )
    fn = a.p.func(f'{SAFEEVAL}._check_safe_eval_cached')
    for expression, names, must_reject, what in GATE_CASES:
        r = _interp_gate(a, expression, names)
        rejected = r is not None
        rep.add({'expression': expression, 'context': names, 'expected': 'reject' if must_reject else 'accept',
                 'gate': f'raises {r.cls_name}' if r else 'accepts', 'situation': what})
        if must_reject and not rejected:
            rep.fail(fn.qualname, f'accepts:{expression}',
                     f'gate accepts `{expression}` with context {names}: {what}', fn.loc)
        if not must_reject and rejected:
            rep.fail(fn.qualname, f'rejects:{expression}',
                     f'gate rejects the safe expression `{expression}` with context {names} ({what}): '
                     f'values that safe expressions produce are affected', fn.loc)
    # context check
    cfn = a.p.func(f'{SAFEEVAL}.check_eval_context')
    allowed = allowed_builtins(a)
    env = _module_env(a, SAFEEVAL)
    env.update({'SecurityError': 'SecurityError', 'BaseException': BaseException, 'Mapping': dict,
                'Iterable': (list, tuple, set, frozenset, dict), 'type': type})
    scan = a.p.func(f'{SAFEEVAL}.scan_for_exceptions')

    def run_ctx(ctx):
        def methods(recv, name, args, kwargs):
            if isinstance(recv, set) and name in ('add', 'remove', 'discard'):
                getattr(recv, name)(*args)
                return None
            return NotImplemented
        ev = _Eval(env, methods=methods, calls={
            'safe_builtins': lambda: allowed,
            'getattr': lambda o, n, *d: getattr(o, n, *d) if n in ('__name__',) else (_ for _ in ()).throw(Unsupported('getattr')),
            'id': id,
        })
        ev.globals['scan_for_exceptions'] = ('<func>', scan.node, {})
        _add_module_functions(a, ev, SAFEEVAL, skip={cfn.name})
        try:
            ev.call_function(cfn.node, [ctx])
        except Raised as r:
            return r
        return None

    named = lambda: 0  # noqa: E731
    ctx_cases = [
        ({'__x__': 1}, True, 'dunder key'),
        ({'f': named}, True, 'anonymous lambda'),
        ({'g': len}, True, 'callable bound under another name'),
        ({'e': ValueError}, True, 'exception class in the context'),
        ({'xs': [1, KeyError('k')]}, True, 'exception instance nested in the context'),
        ({'len': len, 'a': 1, 'b': 'text', 'c': [1, 2]}, False, 'builtin under its own name and plain values'),
    ]
    for ctx, must_reject, what in ctx_cases:
        r = run_ctx(ctx)
        rep.add({'context_case': what, 'expected': 'reject' if must_reject else 'accept',
                 'check_eval_context': f'raises {r.cls_name}' if r else 'accepts'})
        if must_reject and r is None:
            rep.fail(cfn.qualname, f'ctx-accepts:{what}', f'check_eval_context accepts a context with {what}', cfn.loc)
        if not must_reject and r is not None:
            rep.fail(cfn.qualname, f'ctx-rejects:{what}', f'check_eval_context rejects a plain context ({what})', cfn.loc)
    # the gate must call the context check on the context it validates names against
    gate_calls_ctx = any(isinstance(n, ast.Call) and dotted(n.func).split('.')[-1] == 'check_eval_context'
                         for n in walk_no_defs(fn.node))
    rep.add({'gate_calls_check_eval_context': gate_calls_ctx})
    if not gate_calls_ctx:
        rep.fail(fn.qualname, 'no-context-check', 'the AST gate no longer validates the context (check_eval_context)', fn.loc)
    return rep


def r4_inert(a, tier):
    rep = RuleReport(
        'C17.R4',
        'in ParserEngine.constant every safe_eval(e, c) call sits in the true-branch of is_eval_safe(e, c) on the '
        'same arguments (a rejected expression leaves the text unchanged), and the evaluation is enclosed by a '
        'handler for Exception that raises a TatSu failure (FailedSemantics or newexcept(...)); alert evaluates its message through constant',
        floor=2,
    )
    fn = a.p.func('tatsu.contexts.engine.ParserEngine.constant')
    pm = a.resolver.parents(fn)
    evals = [n for n in walk_no_defs(fn.node) if isinstance(n, ast.Call) and dotted(n.func).split('.')[-1] == 'safe_eval']
    if not evals:
        # constants may no longer be evaluated at all: nothing to guard
        rep.add({'safe_eval_calls': 0})
        rep.floor = 1
    for ev in evals:
        args = [norm(x) for x in ev.args]
        guarded = False
        in_try = False
        cur = ev
        while id(cur) in pm:
            par = pm[id(cur)]
            if isinstance(par, ast.If) and any(cur is s or _contains(s, cur) for s in par.body):
                conj = par.test.values if isinstance(par.test, ast.BoolOp) and isinstance(par.test.op, ast.And) else [par.test]
                for c in conj:
                    if (isinstance(c, ast.Call) and dotted(c.func).split('.')[-1] == 'is_eval_safe'
                            and [norm(x) for x in c.args] == args):
                        guarded = True
            if isinstance(par, ast.Try) and any(cur is s or _contains(s, cur) for s in par.body):
                for h in par.handlers:
                    names = [] if h.type is None else [dotted(t) for t in (h.type.elts if isinstance(h.type, ast.Tuple) else [h.type])]
                    catches_all = h.type is None or any(n.split('.')[-1] in ('Exception', 'BaseException') for n in names)
                    raises_fs = any(isinstance(x, ast.Raise) and x.exc is not None
                                    and ('FailedSemantics' in norm(x.exc) or 'newexcept' in norm(x.exc))
                                    for x in ast.walk(h))
                    if catches_all and raises_fs:
                        in_try = True
            cur = par
        rep.add({'call': norm(ev), 'line': ev.lineno, 'guarded_by_is_eval_safe': guarded, 'errors_become_FailedSemantics': in_try})
        if not guarded:
            rep.fail(fn.qualname, f'unguarded:{norm(ev)}', f'`{norm(ev)}` is not inside `if is_eval_safe({", ".join(args)})`: '
                     f'a rejected expression raises instead of staying uninterpreted text', f'{fn.module.relpath}:{ev.lineno}')
        if not in_try:
            rep.fail(fn.qualname, f'unhandled:{norm(ev)}', f'`{norm(ev)}` is not enclosed by `except Exception` -> FailedSemantics/newexcept',
                     f'{fn.module.relpath}:{ev.lineno}')
    al = a.p.func('tatsu.contexts.context.ParseContext.alert')
    via_constant = any(isinstance(n, ast.Call) and dotted(n.func) in ('self.constant', 'self._constant') for n in walk_no_defs(al.node))
    direct = any(isinstance(n, ast.Call) and dotted(n.func).split('.')[-1] in ('safe_eval', 'eval') for n in walk_no_defs(al.node))
    rep.add({'alert_evaluates_through_constant': via_constant, 'alert_evaluates_directly': direct})
    if direct:
        rep.fail(al.qualname, 'alert-direct-eval', 'alert() evaluates its message without going through constant()', al.loc)
    return rep


def _contains(root: ast.AST, node: ast.AST) -> bool:
    return any(n is node for n in ast.walk(root))


MUT_METHODS = {'update', 'setdefault', 'pop', 'popitem', 'clear', 'append', 'extend', 'insert', 'remove', 'add', 'discard', 'sort', 'reverse',
               '__setitem__', '__delitem__', '__ior__'}


def r5_shared_tables_are_read_only(a, tier):
    rep = RuleReport(
        'C17.R5',
        'the allowed-names tables stay what safe_builtins() computed: the result of a memoised function (@cache / @lru_cache: one '
        'object shared by all callers in the process) is never mutated by a caller - no augmented assignment (|=, +=), subscript '
        'store or delete, or mutating method on a name bound to such a call or on the call itself; a context is built with `|` '
        '(a new dict), so names bound by one constant expression cannot leak into the next',
        floor=3,
    )
    memo = {f.name: f for f in a.p.functions.values() if any(d.split('.')[-1] in ('cache', 'lru_cache') or d.split('.')[-1].startswith('lru_cache')
                                                             for d in f.decorators)}
    if 'safe_builtins' not in memo:
        raise AnalysisError('tatsu.util.safeeval.safe_builtins is no longer memoised: review what the gate compares names against')

    def memo_call(e) -> str | None:
        if isinstance(e, ast.Call) and not e.args and not e.keywords or isinstance(e, ast.Call):
            nm = dotted(e.func).split('.')[-1]
            if nm in memo:
                r = a.resolver.resolve_call(cur_fn, e) if cur_fn is not None else None
                if r is None or r.kind != 'project' or any(t.qualname == memo[nm].qualname for t in r.targets):
                    return nm
        return None

    for f in a.p.functions.values():
        if f.module.name.startswith(('tatsu.tool', 'tatsu.boot.bootstrap', 'tatsu.boot.bootparser')):
            continue
        cur_fn = f
        shared: dict[str, str] = {}
        for n in walk_no_defs(f.node):
            if isinstance(n, (ast.Assign, ast.AnnAssign)) and n.value is not None:
                nm = memo_call(n.value)
                tgts = n.targets if isinstance(n, ast.Assign) else [n.target]
                if nm:
                    for t in tgts:
                        if isinstance(t, ast.Name):
                            shared[t.id] = nm
        if not shared and not any(memo_call(x) for x in walk_no_defs(f.node) if isinstance(x, ast.Call)):
            continue

        def is_shared(e) -> str | None:
            if isinstance(e, ast.Name) and e.id in shared:
                return shared[e.id]
            return memo_call(e)
        for n in walk_no_defs(f.node):
            hit = None
            if isinstance(n, ast.AugAssign):
                hit = is_shared(n.target) and (is_shared(n.target), f'`{norm(n)[:70]}` updates it in place')
            elif isinstance(n, (ast.Assign, ast.Delete)):
                for t in (n.targets if isinstance(n, (ast.Assign, ast.Delete)) else []):
                    if isinstance(t, ast.Subscript) and is_shared(t.value):
                        hit = (is_shared(t.value), f'`{norm(n)[:70]}` stores into / deletes from it')
            elif isinstance(n, ast.Call) and isinstance(n.func, ast.Attribute) and n.func.attr in MUT_METHODS and is_shared(n.func.value):
                hit = (is_shared(n.func.value), f'`{norm(n)[:70]}` mutates it')
            if hit:
                rep.fail(f.qualname, f'mutates-shared:{hit[0]}', f'{hit[1]}: {hit[0]}() is memoised, every caller in the process gets the same '
                         f'object, so what this call adds (AST bindings, names exposed by one semantics object) is visible to every later '
                         f'constant expression and to is_eval_safe/safe_eval called with the table', f'{f.module.relpath}:{n.lineno}')
        rep.add({'function': f.qualname, 'names_bound_to_shared_tables': shared or None,
                 'uses': sorted({memo_call(x) for x in walk_no_defs(f.node) if isinstance(x, ast.Call) and memo_call(x)})})
    return rep


def r6_context_precedence(a, tier):
    from ..minieval import Raised, Unsupported
    from ..modelinterp import Bound, Hook, ModelInterp, Recorder, Stub
    rep = RuleReport(
        'C17.R6',
        'what a constant sees: constant(), interpreted with the gate and the evaluator replaced by stand-ins that look names up in the '
        'context they are handed, evaluates a name that is BOTH an element of the current AST and a safe builtin (or a helper of the '
        'semantics) to the AST value - the names bound in the current AST come last in the context; a name that is only a builtin / only '
        'a helper is still visible; the value is appended to the state once',
        floor=3,
    )
    fn = a.ct.lookup('tatsu.contexts.engine.ParserEngine', 'constant')

    class AstD(dict):
        pass
    BUILTIN, HELPER = ('BUILTIN',), ('HELPER',)

    def lit_eval(sx):
        import ast as _a
        try:
            return _a.literal_eval(sx)
        except (ValueError, SyntaxError) as e:
            raise Raised(type(e).__name__, _a.Pass()) from None

    def safe_eval(expr, ctx):
        if expr[:2] in ("f'", 'f"'):
            return lit_eval(expr[1:])
        return ctx[expr]
    for name, ast_has, want in (('len', True, 7), ('helper', True, 7), ('len', False, BUILTIN), ('helper', False, HELPER)):
        state = Recorder('state')
        sem = Hook(None, safe_context=Hook(lambda: {'helper': HELPER}))
        me = Stub('tatsu.contexts.engine.ParserEngine', state=state, tracer=Recorder('tracer'), next_token=Hook(lambda *x: None), semantics=sem,
                  ast=AstD({name: 7} if ast_has else {'other': 1}), newexcept=Hook(lambda *x, **k: None))
        it = ModelInterp(a, {'AST': AstD, 'safe_builtins': Hook(lambda: {'len': BUILTIN}), 'is_eval_safe': Hook(lambda e, c: True), 'safe_eval': Hook(safe_eval),
                             'stdlib_ast': Hook(None, literal_eval=Hook(lit_eval)), 'trim': Hook(lambda x: x.strip()), 'Undefined': object(),
                             'getattr': Hook(lambda o, n, *d: (o.attrs[n] if isinstance(o, Hook) and n in o.attrs else (d[0] if d else None)))})
        try:
            got = it.call_bound(Bound(me, fn), [name], {})
            raised = None
        except Raised as r:
            got, raised = None, r.cls_name
        except Unsupported as e:
            raise AnalysisError(f'C17.R6: cannot interpret constant(): {e}') from e
        appended = [t[1][0] for t in state.trace if t[0] == 'append' and t[1]]
        ok = raised is None and got == want and appended == [want]
        rep.add({'constant': f'`{name}`', 'name_is_an_AST_element': ast_has, 'value': repr(got), 'want': repr(want), 'appended': [repr(x) for x in appended], 'ok': ok})
        if not ok:
            rep.fail(fn.qualname, f'context-precedence:{name}:{ast_has}', f'the constant `{name}` in a rule whose AST {"binds" if ast_has else "does not bind"} {name} evaluates to {got!r} '
                     f'(raised {raised}); required {want!r}: a constant reads the names bound in the current AST, which shadow builtins and helpers of the same spelling', fn.loc)
    return rep


def constant_terminates(a, tier, rule_id):
    """constant() re-evaluates its result until it stops changing: with an evaluator whose result always changes it must still end"""
    from ..minieval import Raised, Unsupported
    from ..modelinterp import Bound, Hook, ModelInterp, Recorder, Stub
    rep = RuleReport(
        rule_id,
        'evaluation of a constant ends: constant() evaluates its result again until it stops changing (deep evaluation); interpreted with '
        'stand-in evaluators whose result NEVER stops changing - an interpolation that grows (the value of {a} contains {a}), one that '
        'alternates between two texts, one that doubles - it returns or raises a TatSu failure after a bounded number of evaluator calls; '
        'with an evaluator that converges (in one, two and three passes) it returns the converged value',
        floor=5,
    )
    fn = a.ct.lookup('tatsu.contexts.engine.ParserEngine', 'constant')

    class AstD(dict):
        pass

    class Diverges(Exception):
        pass
    LIMIT = 3000

    def scenario(step, start='{a}'):
        calls = [0]

        def lit_eval(sx):
            raise Raised('ValueError', ast.Pass())

        def safe_eval(expr, ctx):
            calls[0] += 1
            if calls[0] > LIMIT:
                raise Diverges()
            inner = ast.literal_eval(expr[1:]) if expr[:2] in ("f'", 'f"') else expr
            return step(inner)
        state = Recorder('state')
        exc = Stub('tatsu.exceptions.FailedParse')
        me = Stub('tatsu.contexts.engine.ParserEngine', state=state, tracer=Recorder('tracer'), next_token=Hook(lambda *x: None), semantics=Hook(None),
                  ast=AstD({'a': 1}), newexcept=Hook(lambda *x, **k: exc))
        consts = {}
        try:
            from ..minieval import module_constants
            consts = {k: v for k, v in module_constants(fn.module).items() if isinstance(v, (int, float))}
        except Exception:  # noqa: BLE001
            pass
        it = ModelInterp(a, {**consts, 'AST': AstD, 'safe_builtins': Hook(lambda: {}), 'is_eval_safe': Hook(lambda e, c: True), 'safe_eval': Hook(safe_eval),
                             'eval': Hook(lambda e, *x: safe_eval(e, None)),  # whichever evaluator the code calls (who may call eval is C17.R2's business)
                             'stdlib_ast': Hook(None, literal_eval=Hook(lit_eval)), 'trim': Hook(lambda x: x.strip()), 'Undefined': object(),
                             'getattr': Hook(lambda o, n, *d: (o.attrs[n] if isinstance(o, Hook) and n in o.attrs else (d[0] if d else None)))})
        try:
            got = it.call_bound(Bound(me, fn), [start], {})
            return ('returns', got, calls[0])
        except Raised as r:
            return ('raises', r.cls_name, calls[0])
        except Diverges:
            return ('diverges', None, calls[0])
        except Unsupported as e:
            raise AnalysisError(f'{rule_id}: cannot interpret constant(): {e}') from e
    flip = {'A': 'B', 'B': 'A'}
    conv3 = {'{a}': 'p', 'p': 'q', 'q': 'r'}
    cases = [
        ('an interpolation that grows by one character each pass', lambda t: t + 'x', None),
        ('an interpolation that doubles each pass', lambda t: t + t if len(t) < 10 ** 6 else t + 'x', None),
        ('a result that alternates between two texts', lambda t: flip.get(t, 'A'), None),
        ('a result that converges at once', lambda t: t, '{a}'),
        ('a result that converges in the second pass', lambda t: 'v' if t == '{a}' else t, 'v'),
        ('a result that converges in the fourth pass', lambda t: conv3.get(t, t), 'r'),
    ]
    for what, step, want in cases:
        kind, val, n = scenario(step)
        if want is None:
            ok = kind == 'returns' or (kind == 'raises' and str(val).split('(')[0].split('.')[-1] in ('newexcept', 'expectedexcept')) or (kind == 'raises' and any(q.split('.')[-1] == str(val).split('(')[0].split('.')[-1] and a.ct.is_subclass(q, 'tatsu.exceptions.TatSuException')
                                                                 for q in a.p.classes))
        else:
            ok = kind == 'returns' and val == want
        rep.add({'evaluator': what, 'constant()': kind, 'value_or_exception': repr(val)[:60], 'evaluator_calls': n, 'ok': ok})
        if not ok:
            rep.fail(fn.qualname, f'constant-terminates:{what}', f'constant() with {what}: {kind} {val!r} after {n} evaluator calls' + (
                f' (limit of the checker: {LIMIT}): the parse of a text such as `{{a}}x`, bound to a and used by the constant `{{a}}`, never returns' if want is None
                else f'; required: returns {want!r} (deep evaluation until the value stops changing)'), fn.loc)
    return rep


def r7_constant_terminates(a, tier):
    return constant_terminates(a, tier, 'C17.R7')


RULES = [r1_builtins, r2_who_may_eval, r3_gate, r4_inert, r5_shared_tables_are_read_only, r6_context_precedence, r7_constant_terminates]
