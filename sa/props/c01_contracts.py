"""C01.R9 - contracts of the engine functions that carry a rule's value and position, each interpreted on stand-ins.

Every function is interpreted by the whitelisted evaluator with its callees replaced by scripted hooks (modular check: the callee's
own contract is another rule); the verdict is what the function DOES with the values the hooks hand it."""
from __future__ import annotations

import ast
import contextlib

from ..loader import AnalysisError, norm
from ..minieval import Obj, Raised, Unsupported
from ..modelinterp import Bound, Hook, ModelInterp, Recorder, Stub
from ..report import RuleReport

CTX = 'tatsu.contexts.context.ParseContext'
ENGINE = 'tatsu.contexts.engine.ParserEngine'
_null = Hook(lambda *_a, **_k: contextlib.nullcontext())


def _getattr(o, n, *d):
    if isinstance(o, Stub) and n in o._attrs:
        return o._attrs[n]
    if isinstance(o, Obj) and not n.startswith('__') and hasattr(o, n):
        return getattr(o, n)
    if d:
        return d[0]
    raise Unsupported(f'getattr({type(o).__name__}, {n!r})')


_GETATTR = Hook(_getattr)


def _interp(a, extra=None):
    g = {'getattr': _GETATTR, 'suppress': _null, 'MemoKey': Hook(lambda pos, ri: ('KEY', pos)), 'RuleResult': Hook(lambda node, newpos: ('RR', node, newpos))}
    g.update(extra or {})
    return ModelInterp(a, g)


def _run(it, me, fn, args, kwargs=None):
    try:
        return it.call_bound(Bound(me, fn), args, kwargs or {}), None
    except Raised as r:
        return None, r.cls_name
    except Unsupported as e:
        raise AnalysisError(f'C01.R9: cannot interpret {fn.qualname}: {e}') from e


def r9_engine_contracts(a, tier):
    rep = RuleReport(
        'C01.R9',
        'contracts of the functions that carry a rule\'s value and position, interpreted with scripted callees: call() moves the '
        'caller to the END position of the rule result and appends the result node once; rule_call() opens its frame with new() '
        '(no names of the caller inside a rule), builds the result from the action\'s return value and the position AFTER the body, '
        'memoizes that same result and undoes the frame; repeat() appends the separator value exactly when separators are kept; '
        'gather/join and their positive forms keep/drop separators as documented; left/right join associate as named; the naming '
        'context managers bind after their block, single vs list vs override as named; skip_to() returns the value of its final '
        'expression and advances only while the lookahead fails',
        floor=14,
    )
    # ------------------------------------------------------------------ call()
    fn = a.ct.lookup(CTX, 'call')
    for lrec, NODE in [(lr, nd) for lr in (False, True) for nd in ('NODE', '', 0, False, ())]:  # a falsy rule value is a value
        state = Recorder('state')
        gotos: list = []
        me = Stub(CTX, state=state, tracer=Recorder('tracer'), callstack=[], pos=3,
                  heartbeat=Hook(lambda: None), next_token=Hook(lambda *x: None),
                  rule_call=Hook(lambda ri, key, NODE=NODE: Obj(node=NODE, newpos=42)), recursive_call=Hook(lambda ri, key, NODE=NODE: Obj(node=NODE, newpos=42)),
                  goto=Hook(lambda p: gotos.append(p)), set_furthest_exception=Hook(lambda e: None))
        ri = Obj(should_trace=False, is_lrec=lrec, is_tokn=False, name='r')
        ret, raised = _run(_interp(a), me, fn, [ri])
        appended = [t[1][0] for t in state.trace if t[0] in ('append', 'extend') and t[1]]
        kinds = [t[0] for t in state.trace if t[0] in ('append', 'extend')]
        same = lambda x, y: x == y and type(x) is type(y)  # noqa: E731
        ok = raised is None and same(ret, NODE) and gotos[-1:] == [42] and len(appended) == 1 and same(appended[0], NODE) and kinds == ['append']
        rep.add({'fn': 'call', 'left_recursive': lrec, 'rule_value': repr(NODE), 'returns': repr(ret), 'raised': raised, 'goto': gotos, 'state_ops': kinds, 'values': [repr(x) for x in appended], 'ok': ok})
        if not ok:
            rep.fail(fn.qualname, f'call:{"lrec" if lrec else "plain"}' + ('' if NODE == 'NODE' else f':{NODE!r}'), f'call() with a rule result (node {NODE!r}, end position 42): returns {ret!r}, moves the '
                     f'caller to {gotos}, state operations {kinds} with {appended}; required: goto(42), one append({NODE!r}), return {NODE!r} '
                     f'(the caller continues after the rule and the rule value is ONE element of the caller)', fn.loc)
    # -------------------------------------------------------------- rule_call()
    fn = a.ct.lookup(ENGINE, 'rule_call')
    for action_result in ('<pair>', '', 0, False, []):  # the action's result, also a falsy one, is the rule value
        states = Recorder('states')
        memoized: list = []
        me = Stub(ENGINE, states=states, pos=5, memo=Hook(lambda key: None), set_left_recursion_guard=Hook(lambda key: None),
                  next_token=Hook(lambda *x: None), set_parseinfo=Hook(lambda *x, **k: None), memoize=Hook(lambda key, res, memoized=memoized: memoized.append((key, res))),
                  semantics_call=Hook(lambda ri, node, pos=None, action_result=action_result: ('ACTION', node) if action_result == '<pair>' and isinstance(action_result, str) else action_result))
        me._attrs['func_call'] = Hook(lambda ri, me=me: (me._attrs.__setitem__('pos', 9), 'BODY')[1])
        key = Obj(pos=5)
        ret, raised = _run(_interp(a), me, fn, [Obj(name='r', is_name=False, is_tokn=False), key])
        ops = [t[0] for t in states.trace if t[0] in ('new', 'push', 'undo', 'pop', 'merge')]
        value = ('ACTION', 'BODY') if isinstance(action_result, str) and action_result == '<pair>' else action_result
        want = ('RR', value, 9)
        ok = raised is None and ret == want and type(ret[1]) is type(value) and ops[:1] == ['new'] and ops[-1:] == ['undo'] and len(ops) == 2 and memoized == [(key, want)]
        rep.add({'fn': 'rule_call', 'action_returns': repr(value), 'returns': repr(ret), 'frame_ops': ops, 'memoized_same_result': memoized == [(key, want)], 'ok': ok})
        if not ok:
            rep.fail(fn.qualname, 'rule_call' + ('' if action_result == '<pair>' and isinstance(action_result, str) else f':{action_result!r}'),
                     f'rule_call() with a body returning BODY at position 9 and an action returning {value!r}: returns {ret!r}, '
                     f'frame operations {ops}, memoized {memoized!r}; required: RuleResult({value!r}, 9) returned and memoized under the key, the '
                     f'frame opened with new() (a rule does not see the names of its caller) and closed with undo()', fn.loc)
    # ------------------------------------------------------------------ repeat()
    fn = a.ct.lookup(CTX, 'repeat')
    for omitsep in (False, True):
        state = Recorder('state')
        exp, sep = Hook(lambda *x: None), Hook(lambda *x: None)
        script = {'n': 0}
        me = Stub(CTX, state=state, pos=0, option=_null, cut=Hook(lambda: None), newexcept=Hook(lambda *x, **k: None))

        def isolate(f, me=me, exp=exp, sep=sep, script=script):
            script['n'] += 1
            if f is sep:
                if script['n'] > 2:
                    raise Raised('FailedParse', ast.Pass())
                return 'SEP'
            me._attrs['pos'] = me._attrs['pos'] + 1
            return 'ELEM'
        me._attrs['isolate'] = Hook(isolate)
        ret, raised = _run(_interp(a), me, fn, [exp], {'prefix': sep, 'omitsep': omitsep})
        appended = [t[1][0] for t in state.trace if t[0] == 'append' and t[1]]
        want = ['ELEM'] if omitsep else ['SEP', 'ELEM']
        ok = appended == want
        rep.add({'fn': 'repeat', 'omitsep': omitsep, 'appended_in_one_iteration': appended, 'want': want, 'ok': ok})
        if not ok:
            rep.fail(fn.qualname, f'repeat:omitsep={omitsep}', f'repeat(exp, prefix=sep, omitsep={omitsep}) appends {appended} for one iteration; required {want}', fn.loc)
    # -------------------------------------------------------- delegating forms
    table = {'gather': ('closure', True), 'positive_gather': ('positive_closure', True), 'join': ('closure', False), 'positive_join': ('positive_closure', False)}
    for name, (core, omit) in table.items():
        fn = a.ct.lookup(CTX, name)
        got: list = []
        me = Stub(CTX, closure=Hook(lambda *x, **k: got.append(('closure', x, k)) or 'R'),
                  positive_closure=Hook(lambda *x, **k: got.append(('positive_closure', x, k)) or 'R'))
        ret, raised = _run(_interp(a), me, fn, ['EXP', 'SEP'])
        ok = len(got) == 1 and got[0][0] == core and got[0][1][:1] == ('EXP',) and (got[0][2].get('sep') == 'SEP' or got[0][1][1:2] == ('SEP',)) \
            and bool(got[0][2].get('omitsep', got[0][1][2] if len(got[0][1]) > 2 else False)) == omit and ret == 'R'
        rep.add({'fn': name, 'calls': [(g[0], g[2]) for g in got], 'want': (core, {'omitsep': omit}), 'ok': ok})
        if not ok:
            rep.fail(fn.qualname, f'delegation:{name}', f'{name}(exp, sep) runs {[(g[0], g[1], g[2]) for g in got]} and returns {ret!r}; required: '
                     f'{core}(exp, sep=sep, omitsep={omit}) ({"separators dropped" if omit else "separators kept"} - docs/syntax.rst)', fn.loc)
    for name, want in (('left_join', ['-', ['+', 1, 2], 3]), ('right_join', ['+', 1, ['-', 2, 3]])):
        fn = a.ct.lookup(CTX, name)
        me = Stub(CTX, cst=None, positive_join=Hook(lambda e, s: [1, '+', 2, '-', 3]))
        ret, raised = _run(_interp(a), me, fn, ['EXP', 'SEP'])
        ok = ret == want and me._attrs.get('cst') == want
        rep.add({'fn': name, 'on': [1, '+', 2, '-', 3], 'returns': repr(ret), 'want': repr(want), 'ok': ok})
        if not ok:
            rep.fail(fn.qualname, f'assoc:{name}', f'{name} on the joined list 1 + 2 - 3 gives {ret!r} (scope cst {me._attrs.get("cst")!r}); required {want!r}', fn.loc)
    # ------------------------------------------------- naming context managers
    ctx = a.p.cls(CTX)
    for name, m in sorted(ctx.methods.items()):
        if not any(d.split('.')[-1] == 'contextmanager' for d in m.decorators):
            continue
        calls = [n for n in ast.walk(m.node) if isinstance(n, ast.Call) and isinstance(n.func, ast.Attribute) and n.func.attr in ('nameset', 'nameadd')
                 and 'state' in norm(n.func.value)]
        if not calls:
            continue
        yields = [n for n in ast.walk(m.node) if isinstance(n, (ast.Yield, ast.YieldFrom))]
        after = all(c.lineno > y.lineno for c in calls for y in yields) and bool(yields)
        want_attr = 'nameadd' if 'add' in name else 'nameset'
        override = name.startswith('result')
        arg_ok = all(len(c.args) == 1 and ((isinstance(c.args[0], ast.Name) and c.args[0].id == '_AT_') if override
                                           else (isinstance(c.args[0], ast.Name) and c.args[0].id in m.params)) for c in calls)
        ok = after and len(calls) == 1 and calls[0].func.attr == want_attr and arg_ok
        rep.add({'fn': name, 'binds_after_block': after, 'binds_with': [c.func.attr for c in calls], 'want': want_attr, 'key_is': 'override' if override else 'the name', 'ok': ok})
        if not ok:
            rep.fail(m.qualname, f'naming:{name}', f'{name}() must bind once, after its block, with state.{want_attr}({"_AT_" if override else "name"}); it '
                     f'binds with {[ast.unparse(c) for c in calls]} ({"after" if after else "BEFORE"} the block)', m.loc)
    # ------------------------------------------------------ the start rule
    npc = a.ct.lookup('tatsu.peg.base.Grammar', 'new_parse_config')
    for given, want in ((None, 'first'), ('other', 'other')):
        seen: dict = {}

        class _Cfg:
            pass

        def mkcfg(start):
            c = Stub('tatsu.config.ParserConfig', semantics=None, start=start)
            c._attrs['override_config'] = Hook(lambda other, c=c: c)
            c._attrs['override'] = Hook(lambda c=c, **kw: mkcfg(kw.get('start', c._attrs['start']) if kw.get('start', None) is not None or 'start' not in kw else c._attrs['start']))
            c._attrs['effective_start_rule_name'] = Hook(lambda c=c: c._attrs['start'])
            return c
        gme = Stub('tatsu.peg.base.Grammar', config=mkcfg(None), rules=(Obj(name='first'), Obj(name='other'), Obj(name='last')))
        ret, raised = _run(ModelInterp(a, {'isinstance': Hook(lambda o, c: False)}), gme, npc, [], {'start': given})
        got = ret._attrs.get('start') if isinstance(ret, Stub) else None
        ok = raised is None and got == want
        rep.add({'fn': 'Grammar.new_parse_config', 'start_given': given, 'rules': ['first', 'other', 'last'], 'start_used': got, 'want': want, 'ok': ok})
        if not ok:
            rep.fail(npc.qualname, f'start:{given}', f'a parse with start={given!r} on a grammar with the rules first, other, last starts at {got!r} (raised {raised}); required '
                     f'{want!r}: the first rule unless a start rule is named', npc.loc)
    # ---------------------------------------------------------------- skip_to()
    fn = a.ct.lookup(CTX, 'skip_to')
    n = {'exp': 0, 'adv': 0}
    me = Stub(CTX, pos=0, if_=_null, eof=Hook(lambda: False), states=Recorder('states'), state=Recorder('state'))

    def expcall(f, me=me, n=n):
        n['exp'] += 1
        if n['exp'] == 1:
            raise Raised('FailedParse', ast.Pass())
        return f'V{n["exp"]}'

    def advance(me=me, n=n):
        n['adv'] += 1
        me._attrs['pos'] = me._attrs['pos'] + 1
    me._attrs.update(expcall=Hook(expcall), next_token=Hook(lambda *x: advance()), _next=Hook(lambda: advance()))
    ret, raised = _run(_interp(a), me, fn, ['EXP'])
    ok = raised is None and ret == 'V3' and n['exp'] == 3 and n['adv'] == 1
    rep.add({'fn': 'skip_to', 'script': 'lookahead fails at 0, succeeds at 1', 'returns': repr(ret), 'expression_evaluations': n['exp'], 'advances': n['adv'], 'ok': ok})
    if not ok:
        rep.fail(fn.qualname, 'skip_to', f'skip_to() with an expression that fails at the first position and matches at the second: returns {ret!r} after '
                 f'{n["exp"]} evaluations and {n["adv"]} advances (raised {raised}); required: one advance, then the value of the final evaluation (V3)', fn.loc)
    return rep


class _AstRec(Recorder):
    """stand-in for the AST of the current frame: records stores, answers `in` from the keys stored so far"""

    def __init__(self):
        super().__init__('ast')
        self.keys: set = set()

    def __contains__(self, k):
        return k in self.keys


def r10_model_values(a, tier):
    rep = RuleReport(
        'C01.R10',
        'values of the model constructs that only pass values on or bind them, interpreted with a scripted sub-expression: a group, '
        'an optional and a choice return the value of the expression / option that matched (an optional that did not match returns '
        'None; a choice whose options all fail raises through the failure factory); name:e stores the value under the name as a '
        'single value and returns it, name+:e adds it to the list under the name, @:e stores it under the override key, @+:e as a list',
        floor=8,
    )
    PEG = 'tatsu.peg'
    AT = '__vallue__'
    try:
        from ..minieval import module_constants  # noqa: F401
    except Exception:  # noqa: BLE001
        pass
    # the override key as the repo defines it
    st = a.p.modules.get('tatsu.contexts.state')
    for n in (st.tree.body if st else []):
        if isinstance(n, ast.Assign) and any(isinstance(t, ast.Name) and t.id == '_AT_' for t in n.targets) and isinstance(n.value, ast.Constant):
            AT = n.value.value

    def mkctx():
        astrec = _AstRec()
        ctx = Recorder('ctx')
        ctx.attrs['ast'] = astrec
        states = Recorder('states')
        states.results = {'undo': lambda interp, *x: Obj(cutseen=False)}
        ctx.attrs['states'] = states
        ctx.results = {'groupexp': lambda interp, f, *x: interp.apply(f, [ctx], {}), 'newexcept': lambda interp, *x, **k: None}
        return ctx, astrec

    def exp_ok(v='V'):
        return Stub(f'{PEG}.syntax.Token', token='t', _parse=Hook(lambda c: v), _add_defined=Hook(lambda c: None), defines_single=[], defines_list=[])

    def exp_fail():
        def f(c):
            raise Raised('FailedParse', ast.Pass())
        return Stub(f'{PEG}.syntax.Token', token='t', _parse=Hook(f), _add_defined=Hook(lambda c: None), defines_single=[], defines_list=[])

    def run(node, ctx):
        fn = a.ct.lookup(node._cls, '_parse')
        return _run(ModelInterp(a), node, fn, [ctx])

    def stores(astrec):
        out = []
        for t in astrec.trace:
            if t[0] == 'setitem':
                out.append(('single', t[1][0], t[1][1]))
            elif t[0] in ('_set', '_setlist'):
                out.append(('single' if t[0] == '_set' else 'list', t[1][0], t[1][1]))
        return out

    common = dict(_add_defined=Hook(lambda c: None))
    cases = []
    # pass-through constructs
    ctx, _ = mkctx()
    ret, raised = run(Stub(f'{PEG}.syntax.Group', exp=exp_ok(), **common), ctx)
    cases.append(('Group', 'expression matches', (ret, raised), ('V', None)))
    ctx, _ = mkctx()
    ret, raised = run(Stub(f'{PEG}.syntax.Optional', exp=exp_ok(), **common), ctx)
    cases.append(('Optional', 'expression matches', (ret, raised), ('V', None)))
    ctx, _ = mkctx()
    ret, raised = run(Stub(f'{PEG}.syntax.Optional', exp=exp_fail(), **common), ctx)
    cases.append(('Optional', 'expression fails', (ret, raised), (None, None)))
    opt = lambda e: Stub(f'{PEG}.choice.Option', exp=e, **common)  # noqa: E731
    ctx, _ = mkctx()
    ret, raised = run(Stub(f'{PEG}.choice.Choice', options=[opt(exp_fail()), opt(exp_ok('SECOND')), opt(exp_ok('THIRD'))], expectingstr='x'), ctx)
    cases.append(('Choice', 'first option fails, second matches', (ret, raised), ('SECOND', None)))
    ctx, _ = mkctx()
    ret, raised = run(Stub(f'{PEG}.choice.Choice', options=[opt(exp_fail()), opt(exp_fail())], expectingstr='x'), ctx)
    cases.append(('Choice', 'every option fails', (ret, 'raises' if raised and 'newexcept' in raised else raised), (None, 'raises')))
    for cls, what, got, want in cases:
        ok = got == want
        rep.add({'class': cls, 'case': what, 'returns/raises': repr(got), 'want': repr(want), 'ok': ok})
        if not ok:
            rep.fail(f'{PEG}.{"choice" if cls == "Choice" else "syntax"}.{cls}._parse', f'value:{cls}:{what}', f'{cls}._parse, {what}: (value, exception) = {got!r}; '
                     f'required {want!r}', a.ct.lookup(f'{PEG}.{"choice" if cls == "Choice" else "syntax"}.{cls}', '_parse').loc)
    # binding constructs
    for cls, pre, want_stores, want_ret in (
        ('Named', (), [('single', 'n', 'V')], 'V'),
        ('NamedList', (), [('list', 'n', 'V')], 'V'),
        ('Override', (), [('single', AT, 'V')], {AT: 'V'}),
        ('OverrideList', (), [('single', AT, ['V'])], {AT: ['V']}),
        ('OverrideList', (AT,), [('single', AT, 'V')], {AT: 'V'}),
    ):
        ctx, astrec = mkctx()
        astrec.keys.update(pre)
        node = Stub(f'{PEG}.named.{cls}', exp=exp_ok(), name='n', **common)
        ret, raised = run(node, ctx)
        got = stores(astrec)
        ok = raised is None and got == want_stores and ret == want_ret
        rep.add({'class': cls, 'keys_bound_before': list(pre), 'stores': repr(got), 'returns': repr(ret), 'want_stores': repr(want_stores), 'want_returns': repr(want_ret), 'ok': ok})
        if not ok:
            fn = a.ct.lookup(f'{PEG}.named.{cls}', '_parse')
            rep.fail(fn.qualname, f'binding:{cls}:{len(pre)}', f'{cls}._parse (keys bound before: {list(pre)}) with an expression of value V stores {got!r} and returns {ret!r} (raised {raised}); required stores '
                     f'{want_stores!r} and return {want_ret!r}', fn.loc)
    return rep


def replay_contracts(a, rule_id):
    """memo / seed replay of rule_call and recursive_call (used by C04 and C03)"""
    rep = RuleReport(
        rule_id,
        'replay: rule_call() returns a memoized result and raises a memoized exception (also the left-recursion guard) WITHOUT opening a '
        'frame or evaluating the body; recursive_call() returns / raises what _results holds for the key before anything else (the '
        'recursive invocation inside the seed-growing loop ends there), and otherwise stores the seed before the first evaluation',
        floor=5,
    )
    RR = 'tatsu.contexts.infos.RuleResult'
    a.p.cls(RR)

    def engine(memo_value, results):
        states = Recorder('states')
        evaluated: list = []
        me = Stub(ENGINE, states=states, pos=5, _results=results, memo=Hook(lambda key: memo_value), set_left_recursion_guard=Hook(lambda key: None),
                  next_token=Hook(lambda *x: None), set_parseinfo=Hook(lambda *x, **k: None), memoize=Hook(lambda key, res: res),
                  semantics_call=Hook(lambda ri, node, pos=None: node), func_call=Hook(lambda ri: evaluated.append('body') or 'BODY'),
                  clear_recursion_errors=Hook(lambda *x, **k: None), goto=Hook(lambda p: None), save_result=Hook(lambda k, r: None),
                  newexcept=Hook(lambda *x, **k: RuntimeError('seed')),
                  config=Obj(left_recursion=True))
        return me, states, evaluated

    hit = Stub(RR, node='MEMO', newpos=8)
    boom = RuntimeError('memoized failure')
    fn = a.ct.lookup(ENGINE, 'rule_call')
    for what, memo_value in (('a memoized result', hit), ('a memoized exception', boom)):
        me, states, evaluated = engine(memo_value, {})
        ret, raised = _run(ModelInterp(a, {'getattr': _GETATTR, 'RuleResult': Hook(lambda node, newpos: Stub(RR, node=node, newpos=newpos), q=RR)}), me, fn, [Obj(name='r', is_lrec=False, is_name=False, is_tokn=False), Obj(pos=5)])
        ops = [t[0] for t in states.trace]
        ok = not ops and not evaluated and ((ret is hit and raised is None) if memo_value is hit else (raised is not None and ret is None))
        rep.add({'fn': 'rule_call', 'memo_holds': what, 'returns': repr(ret), 'raised': raised, 'frame_ops': ops, 'body_evaluated': bool(evaluated), 'ok': ok})
        if not ok:
            rep.fail(fn.qualname, f'replay:rule_call:{what.split()[-1]}', f'rule_call() with {what} for the key: returns {ret!r}, raises {raised}, frame operations {ops}, '
                     f'body evaluated: {bool(evaluated)}; required: the memo is returned / raised as it is and nothing else happens (a memoized '
                     f'left-recursion guard that is not raised lets the rule re-enter itself without bound)', fn.loc)
    fn = a.ct.lookup(ENGINE, 'recursive_call')
    for what, stored in (('a result', hit), ('an exception', boom)):
        me, states, evaluated = engine(None, {'KEY': stored})
        me._attrs['rule_call'] = Hook(lambda ri, key: evaluated.append('rule_call') or hit)
        ret, raised = _run(ModelInterp(a, {'getattr': _GETATTR, 'RuleResult': Hook(lambda node, newpos: Stub(RR, node=node, newpos=newpos), q=RR)}), me, fn, [Obj(name='r', is_lrec=True), 'KEY'])
        ok = not evaluated and ((ret is hit and raised is None) if stored is hit else (raised is not None))
        rep.add({'fn': 'recursive_call', '_results_holds': what, 'returns': repr(ret), 'raised': raised, 'evaluated': evaluated, 'ok': ok})
        if not ok:
            rep.fail(fn.qualname, f'replay:recursive_call:{what.split()[-1]}', f'recursive_call() with {what} in _results for the key: returns {ret!r}, raises {raised}, '
                     f'evaluations {evaluated}; required: returned / raised at once (this is what ends the recursive invocation of a left-recursive rule)', fn.loc)
    # no entry: the seed is stored before the first evaluation
    results: dict = {}
    me, states, evaluated = engine(None, results)
    order: list = []

    def rc(ri, key, results=results, order=order):
        order.append(('eval', 'KEY' in results))
        raise Raised('FailedParse', ast.Pass())
    me._attrs['rule_call'] = Hook(rc)
    ret, raised = _run(ModelInterp(a, {'getattr': _GETATTR, 'RuleResult': Hook(lambda node, newpos: Stub(RR, node=node, newpos=newpos), q=RR)}), me, fn, [Obj(name='r', is_lrec=True), 'KEY'])
    ok = order[:1] == [('eval', True)]
    rep.add({'fn': 'recursive_call', '_results_holds': 'nothing', 'seed_present_at_first_evaluation': order[:1], 'ok': ok})
    if not ok:
        rep.fail(fn.qualname, 'replay:seed-first', f'recursive_call() evaluates the rule before the seed is in _results ({order[:1]})', fn.loc)
    # growth: results at positions p0 <= p1 < p2 are accepted in turn, also a first result that consumes nothing (p0 == start)
    for start, positions, want in ((5, [5, 7, 7], 7), (5, [5], 5), (5, [6, 8, 8], 8)):
        results = {}
        me, states, evaluated = engine(None, results)
        me._attrs['pos'] = start
        seq = list(positions)
        saved: list = []

        def rc2(ri, key, seq=seq):
            if not seq:
                raise Raised('FailedParse', ast.Pass())
            return Stub(RR, node=f'N{len(seq)}', newpos=seq.pop(0))
        me._attrs['rule_call'] = Hook(rc2)
        me._attrs['save_result'] = Hook(lambda k, r, results=results, saved=saved: (results.__setitem__(k, r), saved.append(r._attrs['newpos']))[0])
        ret, raised = _run(ModelInterp(a, {'getattr': _GETATTR, 'RuleResult': Hook(lambda node, newpos: Stub(RR, node=node, newpos=newpos), q=RR)}), me, fn, [Obj(name='r', is_lrec=True), 'KEY'])
        got = ret._attrs['newpos'] if isinstance(ret, Stub) else None
        ok = raised is None and got == want
        rep.add({'fn': 'recursive_call', 'start': start, 'evaluations_end_at': positions, 'returns_result_ending_at': got, 'raised': raised, 'want': want, 'ok': ok})
        if not ok:
            rep.fail(fn.qualname, f'grow:{positions}', f'recursive_call() at position {start} with evaluations ending at {positions} (then failing) returns a result ending at '
                     f'{got} / raises {raised}; required {want}: every result that ends further than the previous one is kept, starting with ANY first result '
                     f'(a seed that consumes nothing is a result)', fn.loc)
    return rep
