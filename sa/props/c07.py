"""C07 - object models mirror the AST with typed, navigable nodes (structural clauses)."""
from __future__ import annotations

import ast
import re
from collections.abc import Iterable, Mapping

from ..loader import AnalysisError, dotted, norm, walk_no_defs
from ..minieval import Unsupported
from ..modelinterp import Bound, Hook, ModelInterp, Stub
from ..report import RuleReport
from ..rules.common import through_locals

LEVEL = 'other'
TECHNIQUE = ('static: interpretation of the child-discovery routine on stand-in object graphs (nodes nested in lists of lists, '
             'tuples, mappings, strings) against the documented table, interpretation of the three walkers on every ordered tree with up to 5 nodes (visit order), one-source '
             'rule for attribute names')
LEVEL_TEXT = ('Decides from the source: Node._cached_children, interpreted on checker-built attribute structures of every nesting '
              'shape (direct, list, list of lists, tuple in list, mapping value, skipped: private keys, None, strings), yields every '
              'nested node exactly once in order and sets its parent reference before yielding; each tree walker visits '
              'children_of(node) for every node it visits; generated model classes and the engine derive attribute names from the '
              'same defines lists. Attribute values, class synthesis/identity and registry effects are not decided (runtime object '
              'graphs).')
TECHNIQUE += '; interpretation of the declared-base resolution of the model builder for every subset of known names'
LEVEL_TEXT += ' Added clause: a class declared `::Name::Base` is created with the declared bases whether or not each name is already known to the builder.'
TECHNIQUE += '; construction contracts interpreted on stand-ins (untyped rule keeps its AST; typed rule hands AST and further parameters to the first name of the spec; constructor lookup registered -> builtin -> synthesized-and-registered; SynthNode/BaseNode attribute injection incl. falsy values; non-dict AST kept)'
LEVEL_TEXT += ' Added clauses: see technique (C07.R5).'
TECHNIQUE += '; dispatch namespace of the framework walkers (no framework method under the walk_ prefix other than the generic child traversal)'
LEVEL_TEXT += ' Added clause: no model class name is captured by a helper of the walker framework.'
TECHNIQUE += '; _instanceof always constructs'
LEVEL_TEXT += ' Added clause: a typed rule constructs a new node also when its AST already is an instance of the class.'
TECHNIQUE += '; history-free dispatch: _find_walker interpreted on checker-made class hierarchies in many lookup orders against a fresh walker'
LEVEL_TEXT += ' Added clause: the lookup cache never answers for another class.'
TECHNIQUE += '; generate_model interpreted whole on stand-in grammars with interleaved Derived::Base chains'
LEVEL_TEXT += ' Added clause: a class keeps the base some rule declared for it, wherever else it is mentioned.'
TECHNIQUE += '; names bound in the namespace that serves as synthesis registry'
TECHNIQUE += '; the generated model module declares no class named like a builtin type (C07.R7, whole generate_model interpreted)'
TECHNIQUE += '; no process-wide memo in the object-model modules (R10 = C10.R3)'
LEVEL_TEXT += " Added clause: only synthesized classes answer for a rule type (known finding for the module's own names)."
LEVEL_TEXT += ' Added clauses (rounds 9-11): NodeWalker.walk reaches nodes packed in lists, tuples and dicts; the generated module declares no class named like a builtin; no process-wide memo in the object-model modules.'
LEVEL_NOTE = 'Eager interpretation of generators (a generator call whose values are not consumed contributes nothing, as in Python).'
EXPLANATION = ('Static analysis of /repo sources, TatSu not imported. The dfs inside Node._cached_children is interpreted by the '
               'whitelisted evaluator; walkers are checked structurally.')
ASSUMPTIONS = [LEVEL_NOTE]

NODE = 'tatsu.objectmodel.node.Node'


def _children(a, pub):
    it = ModelInterp(a, {'_children_cache': {}, 'weakref': Hook(None), 'Mapping': Mapping, 'Iterable': Iterable})
    me = Stub(NODE, _parent_ref=None, __pub__=Hook(lambda *x, **k: pub))
    fn = a.p.func(f'{NODE}._cached_children')

    class WR:
        @staticmethod
        def ref(o):
            return ('ref', o)

    it.globals['weakref'] = None
    # weakref.ref(self) -> marker
    orig_call = it.call

    def call(e, env):
        if isinstance(e.func, ast.Attribute) and norm(e.func) == 'weakref.ref':
            return ('ref', it.expr(e.args[0], env))
        return orig_call(e, env)

    it.call = call  # type: ignore
    res = it.call_bound(Bound(me, fn), [], {})
    return me, list(res)


def r1_child_discovery(a, tier):
    rep = RuleReport(
        'C07.R1',
        'child discovery table: Node._cached_children (with its inner dfs), interpreted on checker-built public-attribute '
        'structures, returns every Node found directly, inside lists, lists of lists, tuples and mapping values - in order, each '
        'once - skips private keys, None values and strings, does not descend into a child node, and sets each child\'s parent '
        'reference to the owner before yielding it',
        floor=10,
    )
    a.p.func(f'{NODE}._cached_children')

    def N(i):
        return Stub(NODE, _parent_ref=None, tag=i)

    n = [N(i) for i in range(8)]
    inner = N(99)
    n[7]._attrs['kid'] = inner  # a node inside a child node: must NOT be reported as a child of the owner
    cases = [
        ('direct attribute', {'x': n[0]}, [0]),
        ('flat list', {'xs': [n[0], n[1]]}, [0, 1]),
        ('list of lists (closure over a group)', {'groups': [[n[0], n[1]], [n[2]]]}, [0, 1, 2]),
        ('list of lists of lists', {'deep': [[[n[0]], n[1]], [[n[2], [n[3]]]]]}, [0, 1, 2, 3]),
        ('tuple inside a list', {'pairs': [(n[0], 'and'), (n[1], 'and')]}, [0, 1]),
        ('mapping value (AST) inside a list', {'stmts': [{'k': n[0], 'v': n[1]}, {'k': n[2]}]}, [0, 1, 2]),
        ('strings and numbers between nodes', {'xs': ['a', n[0], 3, ['b', n[1]], b'c']}, [0, 1]),
        ('private key and None value skipped', {'_hidden': n[0], 'none': None, 'x': n[1]}, [1]),
        ('several attributes in order', {'a': n[0], 'b': [n[1], [n[2]]], 'c': {'d': n[3]}}, [0, 1, 2, 3]),
        ('no descent into a child node', {'x': n[7]}, [7]),
        ('empty containers', {'xs': [], 'm': {}, 't': ()}, []),
    ]
    fn = a.p.func(f'{NODE}._cached_children')
    for what, pub, want in cases:
        for x in n:
            x._attrs['_parent_ref'] = None
        try:
            me, got = _children(a, pub)
        except Unsupported as e:
            raise AnalysisError(f'cannot interpret Node._cached_children ({what}): {e}') from e
        tags = [c._attrs.get('tag') for c in got if isinstance(c, Stub)]
        parents_ok = all(isinstance(c._attrs.get('_parent_ref'), tuple) and c._attrs['_parent_ref'][1] is me for c in got)
        rep.add({'structure': what, 'children_found': tags, 'expected': want, 'parent_set_on_all': parents_ok})
        if tags != want:
            missing = [t for t in want if t not in tags]
            rep.fail(fn.qualname, f'children:{what}', f'{what}: children() yields nodes {tags}, the attribute structure holds {want}'
                     + (f' - nodes {missing} are not children of their owner (no parent, never reached by the walkers)' if missing else ''), fn.loc)
        elif not parents_ok:
            rep.fail(fn.qualname, f'parent:{what}', f'{what}: a child is yielded without its parent reference set to the owner', fn.loc)
    return rep


def _forests(n):
    """all ordered forests with n nodes, as nested tuples"""
    if n == 0:
        yield ()
        return
    for k in range(1, n + 1):  # size of the first tree
        for first_kids in _forests(k - 1):
            for rest in _forests(n - k):
                yield (first_kids, *rest)


def _shape_text(kids) -> str:
    return '(' + ''.join(_shape_text(k) for k in kids) + ')'


def r2_traversals(a, tier):
    from ..modelinterp import Hook, ModelInterp, Stub
    nmax = 6 if tier == 'thorough' else 5
    rep = RuleReport(
        'C07.R2',
        f'the tree walkers visit children: DepthFirstWalker, BreadthFirstWalker and PostOrderDepthFirstWalker, interpreted on EVERY '
        f'ordered tree with up to {nmax} nodes (children supplied by node.children()), apply the walk_* dispatch (super().walk) to every '
        f'node exactly once, in pre-order, level order and post-order respectively; children_of returns node.children()',
        floor=60,
    )
    w = 'tatsu.walkers'
    specs = [
        (f'{w}.DepthFirstWalker', 'iter_depthfirst', 'pre'),
        (f'{w}.PostOrderDepthFirstWalker', 'iter_postdepthfirst', 'post'),
        (f'{w}.BreadthFirstWalker', 'iter_breadthfirst', 'level'),
    ]

    class DQ(list):
        pass

    def build(shape, counter, nodes):
        """shape = tuple of child shapes; returns the stub node"""
        tag = counter[0]
        counter[0] += 1
        me = Stub('tatsu.objectmodel.node.Node', tag=tag)
        nodes.append(me)
        kids = [build(c, counter, nodes) for c in shape]
        me._attrs['children'] = Hook(lambda kids=kids: list(kids))
        me._attrs['kids'] = kids
        return me

    def order(root, kind):
        if kind == 'pre':
            return [root._attrs['tag']] + [t for k in root._attrs['kids'] for t in order(k, kind)]
        if kind == 'post':
            return [t for k in root._attrs['kids'] for t in order(k, kind)] + [root._attrs['tag']]
        out, q = [], [root]
        while q:
            nd = q.pop(0)
            out.append(nd._attrs['tag'])
            q.extend(nd._attrs['kids'])
        return out

    for cls_q, mname, kind in specs:
        fn = a.p.func(f'{cls_q}.{mname}')
        n_bad = 0
        for n in range(1, nmax + 1):
            for kids_shape in _forests(n - 1):
                nodes: list = []
                root = build(kids_shape, [0], nodes)
                visited: list = []

                class _I(ModelInterp):
                    def call(self, e, env, visited=visited):
                        f = e.func
                        if isinstance(f, ast.Attribute) and f.attr == 'walk' and isinstance(f.value, ast.Call) \
                                and isinstance(f.value.func, ast.Name) and f.value.func.id == 'super':
                            args, _kw = self._args(e, env)
                            visited.append(args[0]._attrs['tag'] if isinstance(args[0], Stub) else args[0])
                            return ('visited', visited[-1])
                        return super().call(e, env)
                it = _I(a, {'deque': Hook(lambda x=(): DQ(x))})

                def methods(recv, name, args, kwargs):
                    if isinstance(recv, DQ) and name == 'popleft':
                        return recv.pop(0)
                    return NotImplemented
                it.methods = methods
                me = Stub(cls_q, queue=None)
                try:
                    it.apply(it.get_attr(me, mname), [root], {})
                except Unsupported as e:
                    raise AnalysisError(f'cannot interpret {fn.qualname}: {e}') from e
                want = order(root, kind)
                ok = visited == want
                rep.add({'walker': fn.qualname, 'tree': _shape_text(kids_shape), 'visited': visited, 'expected': want, 'ok': ok})
                if not ok and n_bad < 4:
                    n_bad += 1
                    missing = sorted(set(want) - set(visited))
                    rep.fail(fn.qualname, f'traversal:{_shape_text(kids_shape)}', f'{fn.name} on the tree {_shape_text(kids_shape)} (nodes numbered in '
                             f'pre-order) applies the walk_* dispatch to {visited}; required {want} ({kind}-order, every node once)'
                             + (f' - nodes {missing} are never visited' if missing else ''), fn.loc)
    return rep


def r3_attribute_names(a, tier):
    rep = RuleReport(
        'C07.R3',
        'one source for attribute names: the model-class generator takes the fields of a rule\'s class from rule.defines_single / '
        'defines_list, the same lists Model._add_defined hands to ctx.define (the keys of the AST); SynthNode.__post_init__ sets '
        'exactly the AST items as attributes and BaseNode.__post_init__ injects AST keys into declared fields',
        floor=2,
    )
    ad = a.p.func('tatsu.peg.base.Model._add_defined')
    src = {norm(n) for n in walk_no_defs(ad.node) if isinstance(n, ast.Attribute) and n.attr in ('defines_single', 'defines_list')}
    ok = {'self.defines_single', 'self.defines_list'} <= src
    rep.add({'_add_defined_reads': sorted(src), 'ok': ok})
    if not ok:
        rep.fail(ad.qualname, 'defines-source', '_add_defined does not derive the AST keys from defines_single/defines_list', ad.loc)
    gen = a.p.cls('tatsu.ngcodegen.ngmodel_gen.PythonModelGenerator')
    reads = set()
    for m in gen.methods.values():
        for n in walk_no_defs(m.node):
            if isinstance(n, ast.Attribute) and n.attr in ('defines_single', 'defines_list', 'defines'):
                reads.add(n.attr)
    ok = bool(reads & {'defines_single', 'defines_list', 'defines'})
    rep.add({'model_generator_reads': sorted(reads), 'ok': ok})
    if not ok:
        rep.fail(gen.qualname, 'generator-defines', 'the model-class generator does not take field names from the rule\'s defines lists', gen.loc)
    # (that SynthNode / BaseNode turn the AST items into attributes is decided by interpretation: C07.R5, construction)
    a.p.func('tatsu.objectmodel.synth.SynthNode.__post_init__')
    a.p.func('tatsu.objectmodel.basenode.BaseNode.__post_init__')
    return rep


def r4_declared_bases(a, tier):
    import itertools
    rep = RuleReport(
        'C07.R4',
        'a typed rule `rule::Derived::Base1::Base2` builds its node from a class whose bases are the declared chain: '
        'ModelBuilderSemantics._default, interpreted with a stand-in builder for every subset of {Derived, Base1, Base2} already '
        'known to the builder, asks for each class of the chain with the previous one as base (outermost first) and instantiates '
        'the class whose MRO is Derived, Base1, Base2, <base type> - whatever was registered before',
        floor=8,
    )
    fn = a.p.func('tatsu.objectmodel.builder.ModelBuilderSemantics._default')
    BASE = type('Node', (), {})
    chain = ['Derived', 'Base1', 'Base2']
    for k in range(0, 4):
        for known in itertools.combinations(chain, k):
            calls = []
            made = {}

            def get_ctor(name, base=None, made=made, calls=calls):
                calls.append((name, getattr(base, '__name__', repr(base))))
                if name not in made:
                    made[name] = type(name, (base,), {})
                return made[name]
            inst = []
            builder = Stub('tatsu.objectmodel.builder.ModelBuilder',
                           _get_constructor=Hook(get_ctor),
                           _find_existing_constructor=Hook(lambda name, *_a, known=known: (lambda: None) if name in known else None),
                           _instanceof=Hook(lambda typename, *_a, base=None, **_k: inst.append((typename, base)) or 'node'))
            me = Stub('tatsu.objectmodel.builder.ModelBuilderSemantics', _builder=builder, builder=builder,
                      config=Stub('tatsu.objectmodel.builder.BuilderConfig', basetype=BASE))
            it = ModelInterp(a, {'type': type, 'mangle': Hook(lambda s_: s_)})
            try:
                it.call_fn(fn, [me, {'x': 1}, '::'.join(chain)])
            except Unsupported as e:
                raise AnalysisError(f'cannot interpret {fn.qualname}: {e}') from e
            got = [c.__name__ for c in inst[0][1].__mro__ if c is not object] if inst and isinstance(inst[0][1], type) else None
            want = [*chain, 'Node']
            ok = got == want and inst[0][0] == 'Derived'
            rep.add({'already_known_to_the_builder': list(known), 'constructor_requests': calls, 'instantiated_class_mro': got, 'ok': ok})
            if not ok:
                rep.fail(fn.qualname, f'bases:{",".join(known) or "none"}', f'for `rule::{"::".join(chain)}` with {list(known) or "nothing"} already '
                         f'known to the builder, the node class requested has the MRO {got} (constructor requests {calls}); declared: {want}: '
                         f'walkers keyed on a declared base never see the node, and the class differs from the generated model module',
                         fn.loc)
    return rep


def r5_construction(a, tier):
    from ..minieval import Obj, Raised
    from ..modelinterp import Bound, ClassRef
    rep = RuleReport(
        'C07.R5',
        'construction contracts, interpreted on stand-ins: a rule without a type keeps its plain AST (_default returns its argument); a '
        'typed rule hands the AST and the rule\'s further parameters to the constructor of the FIRST name of the type spec; the '
        'constructor is the registered one, else the builtin of that name (int, str ... convert the value), else a class synthesized '
        'with the declared base and registered, so that the second request returns the same class; SynthNode.__post_init__ turns EVERY '
        'item of a dict AST into an attribute with the same value (falsy ones too) and then drops the dict, and keeps a non-dict AST as '
        'the `ast` attribute; BaseNode.__post_init__ injects the AST value of every declared field',
        floor=8,
    )
    SEM = 'tatsu.objectmodel.builder.ModelBuilderSemantics'
    BLD = 'tatsu.objectmodel.builder.ModelBuilder'
    fn = a.p.func(f'{SEM}._default')

    def interp(extra=None):
        return ModelInterp(a, {'type': type, 'mangle': Hook(lambda s_: s_), **(extra or {})})

    # (a) untyped rule
    me = Stub(SEM, _builder=Stub(BLD, _registry={}, _find_existing_constructor=Hook(lambda *x, **k: None)), config=Stub('tatsu.objectmodel.builder.BuilderConfig', basetype=object))
    sentinel = {'k': 1}
    try:
        got = interp().call_fn(fn, [me, sentinel])
    except Unsupported as e:
        raise AnalysisError(f'C07.R5: cannot interpret _default: {e}') from e
    rep.add({'case': '_default(ast) for an untyped rule', 'returns_its_argument': got is sentinel})
    if got is not sentinel:
        rep.fail(fn.qualname, 'construct:untyped', f'_default(ast) without a type returns {got!r}, not the AST it was given: with model building on, '
                 f'untyped rules lose their value', fn.loc)
    # (b) typed rule: arguments of the instantiation
    inst: list = []
    builder = Stub(BLD, _registry={}, _find_existing_constructor=Hook(lambda *x, **k: None), _get_constructor=Hook(lambda name, base=None: type(name, (base,), {})),
                   _instanceof=Hook(lambda typename, known, *args, base=None, **kw: inst.append((typename, known, args, kw)) or 'NODE'))
    me = Stub(SEM, _builder=builder, builder=builder, config=Stub('tatsu.objectmodel.builder.BuilderConfig', basetype=object))
    got = interp().call_fn(fn, [me, sentinel, 'T::B', 'p1', 7], )
    ok = got == 'NODE' and len(inst) == 1 and inst[0][0] == 'T' and inst[0][2][:1] == (sentinel,) and inst[0][2][1:] == ('p1', 7) \
        and inst[0][1].get('ast') is sentinel
    rep.add({'case': "_default(ast, 'T::B', 'p1', 7)", 'instantiates': inst[0][0] if inst else None, 'positional': [repr(x) for x in (inst[0][2] if inst else ())], 'ok': ok})
    if not ok:
        rep.fail(fn.qualname, 'construct:typed-args', f'_default(ast, "T::B", "p1", 7) instantiates {inst}; required: class T with the AST first and the '
                 f'further rule parameters ("p1", 7) after it', fn.loc)
    # (b2) _instanceof always builds through the constructor - also when the value already is an instance of the class
    #      (a typed rule whose value is a node of its own class or of a subclass: Stmt(ast=Assign(...)))
    inst_fn = a.p.func(f'{BLD}._instanceof')
    Cls = type('Stmt', (), {})
    already = type('Assign', (Cls,), {})()
    calls: list = []
    bme = Stub(BLD, _get_constructor=Hook(lambda name, base=None, **k: Cls))
    it = interp({'boundcall': Hook(lambda ctor, known, *args, **kw: calls.append((ctor, args)) or 'BUILT'), 'isinstance': Hook(isinstance)})
    try:
        got = it.call_bound(Bound(bme, inst_fn), ['Stmt', {'ast': already, 'exp': already}, already], {'base': None})
    except Unsupported as e:
        raise AnalysisError(f'C07.R5: cannot interpret _instanceof: {e}') from e
    ok = got == 'BUILT' and len(calls) == 1 and calls[0][0] is Cls
    rep.add({'case': '_instanceof when the value already is an instance of (a subclass of) the class', 'returns': repr(got) if got == 'BUILT' else type(got).__name__, 'constructed': len(calls), 'ok': ok})
    if not ok:
        rep.fail(inst_fn.qualname, 'construct:always', f'_instanceof("Stmt", ast=<an Assign(Stmt) node>) returns {type(got).__name__ if got != "BUILT" else got} with {len(calls)} constructor '
                 f'calls; required: the constructor is called (the typed rule yields a Stmt node whose ast is the Assign node, not the bare Assign node)', inst_fn.loc)
    # (c) constructor lookup
    gc = a.p.func(f'{BLD}._get_constructor')
    class _Reg:
        __name__ = 'Known'

        def __repr__(self):
            return '<registered constructor>'

        def __call__(self, *x, **k):
            return None
    REG = _Reg()
    synth_calls: list = []

    def synth(name, bases, **kw):
        synth_calls.append((name, bases))
        return type(name, tuple(b for b in bases if isinstance(b, type)) or (object,), {})
    for name, registry, want in (('Known', {'Known': REG}, 'registered'), ('int', {}, 'builtin'), ('Fresh', {}, 'synthesized')):
        synth_calls.clear()
        bme = Stub(BLD, _registry=dict(registry), config=Stub('tatsu.objectmodel.builder.BuilderConfig', synthok=True))
        it = interp({'synthesize': Hook(synth), 'vars': Hook(lambda m: {'int': int, 'str': str, 'float': float, 'bool': bool, 'list': list, 'dict': dict}),
                     'builtins': 'builtins',
                     'getattr': Hook(lambda o, n, *d: (getattr(o, n, *d) if n == '__name__' and (isinstance(o, type) or o is REG) else (d[0] if d else None)))})
        Base = type('Base', (), {})
        try:
            c1 = it.call_bound(Bound(bme, gc), [name], {'base': Base})
            c2 = it.call_bound(Bound(bme, gc), [name], {'base': Base})
        except Unsupported as e:
            raise AnalysisError(f'C07.R5: cannot interpret _get_constructor: {e}') from e
        if want == 'registered':
            ok = c1 is REG and not synth_calls
        elif want == 'builtin':
            ok = c1 is int and not synth_calls
        else:
            ok = isinstance(c1, type) and c1.__name__ == 'Fresh' and c2 is c1 and len(synth_calls) == 1 and synth_calls[0][1] == (Base,)
        rep.add({'case': f'_get_constructor({name!r})', 'kind': want, 'first': repr(c1), 'second_is_first': c2 is c1, 'synthesized': [(n, [getattr(b, '__name__', b) for b in bs]) for n, bs in synth_calls], 'ok': ok})
        if not ok:
            rep.fail(gc.qualname, f'construct:lookup:{want}', f'_get_constructor({name!r}, base=Base) gives {c1!r} then {c2!r} with synthesize calls {synth_calls}; '
                     f'required: {"the registered constructor" if want == "registered" else "the builtin int" if want == "builtin" else "one class synthesized with bases (Base,), registered and returned again"}', gc.loc)
    # (d) SynthNode / BaseNode attribute injection
    sp = a.p.func('tatsu.objectmodel.synth.SynthNode.__post_init__')
    items = {'zero': 0, 'none': None, 'empty': [], 'text': 'x', 'flag': False}
    node = Stub('tatsu.objectmodel.synth.SynthNode', ast=dict(items), ctx=None, parseinfo=None, _in_field_order=Hook(lambda keys: list(keys)))
    it = interp({'setattr': Hook(lambda o, n, v: o._attrs.__setitem__(n, v)), 'hasattr': Hook(lambda o, n: isinstance(o, Stub) and n in o._attrs),
                 'getattr': Hook(lambda o, n, *d: o._attrs.get(n, *d) if isinstance(o, Stub) else (d[0] if d else None))})
    it.globals['inspect'] = Hook(None, ismethod=Hook(lambda x: False))
    try:
        it.call_bound(Bound(node, sp), [], {})
        got = {k: node._attrs.get(k, '<missing>') for k in items}
        ok = got == items and node._attrs.get('ast') is None
    except Unsupported as e:
        got, ok = f'not interpretable: {e}', None
    rep.add({'case': 'SynthNode.__post_init__ on a dict AST with falsy values', 'attributes': str(got), 'ast_after': repr(node._attrs.get('ast')), 'ok': ok})
    if ok is False:
        rep.fail(sp.qualname, 'construct:synth-attrs', f'SynthNode.__post_init__ on {items} leaves the attributes {got} and ast={node._attrs.get("ast")!r}; required: '
                 f'every item as an attribute with its value, ast None', sp.loc)
    # BaseNode: declared fields receive the AST values (falsy too), undeclared keys are ignored, a non-dict AST stays
    bp = a.p.func('tatsu.objectmodel.basenode.BaseNode.__post_init__')
    node = Stub('tatsu.objectmodel.basenode.BaseNode', ast={'zero': 0, 'text': 'x', 'undeclared': 1}, ctx=None, parseinfo=None, zero=None, text=None,
                _in_field_order=Hook(lambda keys: list(keys)))
    try:
        it.call_bound(Bound(node, bp), [], {})
        got = {k: node._attrs.get(k, '<missing>') for k in ('zero', 'text', 'undeclared')}
        ok = got == {'zero': 0, 'text': 'x', 'undeclared': '<missing>'} and isinstance(node._attrs.get('ast'), dict)
    except Unsupported as e:
        got, ok = f'not interpretable: {e}', None
    rep.add({'case': 'BaseNode.__post_init__ with declared fields zero, text', 'attributes': str(got), 'ok': ok})
    if ok is False:
        rep.fail(bp.qualname, 'construct:basenode-attrs', f'BaseNode.__post_init__ with declared fields zero/text and AST {{zero: 0, text: x, undeclared: 1}} leaves '
                 f'{got}; required zero=0, text=x, nothing for the undeclared key', bp.loc)
    node = Stub('tatsu.objectmodel.basenode.BaseNode', ast='VALUE', ctx=None, parseinfo=None)
    try:
        it.call_bound(Bound(node, bp), [], {})
        ok = node._attrs.get('ast') == 'VALUE'
    except Unsupported:
        ok = None
    rep.add({'case': 'BaseNode.__post_init__ on a non-dict AST', 'ast_after': repr(node._attrs.get('ast')), 'ok': ok})
    if ok is False:
        rep.fail(bp.qualname, 'construct:basenode-value', f'a node built from a rule without names must keep the rule\'s value as .ast; it is {node._attrs.get("ast")!r}', bp.loc)
    node = Stub('tatsu.objectmodel.synth.SynthNode', ast='VALUE', ctx=None, parseinfo=None)
    try:
        it.call_bound(Bound(node, sp), [], {})
        ok = node._attrs.get('ast') == 'VALUE'
    except Unsupported:
        ok = None
    rep.add({'case': 'SynthNode.__post_init__ on a non-dict AST', 'ast_after': repr(node._attrs.get('ast')), 'ok': ok})
    if ok is False:
        rep.fail(sp.qualname, 'construct:synth-value', f'a node built from a rule without names must keep the rule\'s value as .ast; it is {node._attrs.get("ast")!r}', sp.loc)
    return rep


def r6_dispatch_namespace(a, tier):
    rep = RuleReport(
        'C07.R6',
        'the walker dispatch namespace: _find_walker resolves a node to the method walk_<ClassName> / walk__<snake_name> / walk_<snake_name> of '
        'the walker, so every method the FRAMEWORK classes of tatsu/walkers.py define under that prefix captures the user\'s model classes of '
        'that name before walk_default or a base-class handler is considered. The only such method is the generic child traversal '
        '(walk_children, which treats its argument as a node); any other framework method under the prefix (a helper for mappings, '
        'collections ...) makes the walkers fail on, or skip, the subtree of every node whose class happens to have that name',
        floor=1,
    )
    mod = a.p.modules.get('tatsu.walkers')
    if mod is None:
        raise AnalysisError('tatsu.walkers not found')
    fw = a.p.func('tatsu.walkers.NodeWalker._find_walker')
    prefixes = sorted({x.value for x in ast.walk(fw.node) if isinstance(x, ast.Constant) and isinstance(x.value, str) and x.value.rstrip('_').lstrip('_') == 'walk'
                       and x.value.endswith('_')}) or ['walk_']
    generic = {'children'}   # walk_children(node): traverses node.children() - correct for a class named Children too
    fallbacks = {'default', '_default'}  # the documented fallbacks, looked up explicitly after the class search
    for c in [c for c in a.p.classes.values() if c.module is mod]:
        names = set(c.methods) | {n for n, v in c.assigns.items() if isinstance(v, ast.Name) and v.id in c.methods}
        for n in sorted(names):
            for pre in ('_walk_', 'walk_'):
                if n.startswith(pre) and n not in ('walk',):
                    rest = n[len(pre):]
                    captured = pre == 'walk_'  # only the public prefix is searched by default
                    ok = (rest.lstrip('_') in generic) or (rest in fallbacks) or not captured
                    rep.add({'class': c.qualname.split('.')[-1], 'method': n, 'captures_model_classes_named': rest if captured else None, 'generic_traversal_or_fallback': ok})
                    if not ok:
                        m = c.methods.get(n)
                        rep.fail(c.qualname + '.' + n, f'dispatch-capture:{n}', f'{c.qualname.split(".")[-1]}.{n} lies in the dispatch namespace: a model class named '
                                 f'{rest!r} (in any capitalisation the name mangling maps to it) is walked by this method instead of the user\'s handler or walk_default',
                                 m.loc if m else c.loc)
                    break
    rep.notes.append(f'dispatch prefixes read from _find_walker: {prefixes}')
    return rep


def r7_generated_model_classes(a, tier):
    import textwrap

    from ..minieval import Obj
    from ..modelinterp import Bound
    rep = RuleReport(
        'C07.R7',
        'the generated model module declares the same classes the builder synthesizes: _base_class_specs, interpreted, turns a rule typed '
        '`D::B1::B2` into the chain D(B1), B1(B2), B2(ModelBase) (the order the builder uses: first name = the class, each following name its '
        'base) and a rule without a string type into nothing; _gen_rule_class / _gen_base_class, interpreted with the printer recorded, emit '
        'a @tatsu.dataclass class with that base whose fields are ALL names the rule defines (single and list), each defaulting to None '
        '(a mutable default would be shared between nodes)',
        floor=5,
    )
    GEN = 'tatsu.ngcodegen.ngmodel_gen.PythonModelGenerator'
    if GEN not in a.p.classes:
        raise AnalysisError('PythonModelGenerator not found')
    specs_fn = a.ct.lookup(GEN, '_base_class_specs')

    def spec_hook(*args):
        return Obj(class_name=args[0], base=args[1])

    def interp(out=None):
        return ModelInterp(a, {'safe_name': Hook(lambda s_, *x: s_ + '_' if s_ in ('class', 'def', 'items') else s_), 'BaseClassSpec': Hook(spec_hook)})
    me = Stub(GEN, basetype=object, name='M')
    for params, want in ((('D::B1::B2',), [('D', 'B1'), ('B1', 'B2'), ('B2', 'ModelBase')]), (('Solo',), [('Solo', 'ModelBase')]), ((), []), ((7,), []), ((None,), [])):
        rule = Stub('tatsu.peg.base.Rule', name='r', params=params)
        try:
            got = interp().call_bound(Bound(me, specs_fn), [rule], {})
            got = [(x.class_name, x.base) for x in got]
        except Unsupported as e:
            if ('method call' in str(e) or 'attribute' in str(e)) and params and not isinstance(params[0], str):
                got = f'raises (a str method on {type(params[0]).__name__}: {e})'  # the interpreted code applies a str operation to a non-str parameter
            else:
                raise AnalysisError(f'C07.R7: cannot interpret _base_class_specs: {e}') from e
        except Exception as e:  # noqa: BLE001
            got = f'raises {type(e).__name__}'
        ok = got == want
        rep.add({'rule_type': list(map(repr, params)), 'class_chain': got, 'want': want, 'ok': ok})
        if not ok:
            rep.fail(specs_fn.qualname, f'model-specs:{params!r}', f'a rule typed {params!r} gives the class chain {got}; required {want}', specs_fn.loc)
    import builtins as _bi

    class _Base:
        _verif_standin = True
    _Base.__name__ = 'Node'

    def _topsort(nodes, edges):
        nodes, edges, res = list(nodes), set(edges), []
        while nodes:
            free = [n for n in nodes if not any(m == n and x in nodes for (x, m) in edges)] or [nodes[0]]
            res.append(free[0])
            nodes.remove(free[0])
        return res

    def generate(rules):
        """generate_model, interpreted on a stand-in grammar: the emitted lines"""
        lines_: list = []
        gram = Stub('tatsu.peg.base.Grammar', name='G', rules=rules, rulemap={r._attrs['name']: r for r in rules})
        gen = Stub(GEN, basetype=_Base, name='M', print=Hook(lambda *x, **k: lines_.append(' '.join(str(y) for y in x))), indent=Hook(lambda *x, **k: _NullCM()),
                   printed_text=Hook(lambda: '\n'.join(lines_)))
        it_ = ModelInterp(a, {'safe_name': Hook(lambda s_, *x: s_ + '_' if s_ in ('class', 'def', 'items') else s_), 'BaseClassSpec': Hook(spec_hook), 'HEADER': '',
                              'topsort': Hook(_topsort), 'vars': Hook(lambda o: vars(_bi)), 'builtins': _bi})
        try:
            it_.call_bound(Bound(gen, a.ct.lookup(GEN, 'generate_model')), [gram], {})
        except Unsupported as e:
            raise AnalysisError(f'C07.R7: cannot interpret generate_model: {e}') from e
        return lines_

    def mkrule(name, params, single=(), lst=()):
        return Stub('tatsu.peg.base.Rule', name=name, params=params, defines_single=list(single), defines_list=list(lst))
    # the declared chains of several rules together: a class keeps the base some rule declared for it, wherever else it is mentioned
    chain_cases = [
        ('the head of a chain mentioned later as a base (X::Y::Z, then W::X)', [('r1', 'X::Y::Z'), ('r2', 'W::X')], {'X': 'Y', 'Y': 'Z', 'Z': 'ModelBase', 'W': 'X'}),
        ('an inner class of a chain ending another chain later (A::B::C, then D::B)', [('r1', 'A::B::C'), ('r2', 'D::B')], {'A': 'B', 'B': 'C', 'C': 'ModelBase', 'D': 'B'}),
        ('the short chain first (D::B, then A::B::C)', [('r1', 'D::B'), ('r2', 'A::B::C')], {'A': 'B', 'B': 'C', 'C': 'ModelBase', 'D': 'B'}),
        ('two rules of one class (A::B twice)', [('r1', 'A::B'), ('r2', 'A::B')], {'A': 'B', 'B': 'ModelBase'}),
    ]
    gm = a.ct.lookup(GEN, 'generate_model')
    for what, rs, want in chain_cases:
        ls = generate([mkrule(n, (t,), ['f']) for n, t in rs])
        got = {}
        for ln in ls:
            mm = re.match(r'\s*class (\w+)\((\w+)\):', ln)
            if mm and mm.group(1) in want:
                got[mm.group(1)] = mm.group(2)
        ok = got == want
        rep.add({'rule_types': [t for _, t in rs], 'emitted_bases': got, 'want': want, 'ok': ok})
        if not ok:
            rep.fail(gm.qualname, f'model-chain:{[t for _, t in rs]}', f'{what}: the generated module declares {got}; required {want} - the builder synthesizes the class with the declared base, '
                     f'so isinstance tests and walkers keyed on the base see another tree with the generated classes', gm.loc)
    # builtin type names convert the value (int, str, float ...): the generated module never declares a class of such a name, which its
    # semantics would find before the builtin and wrap the value in
    for what, rs in (('a rule whose own type is a builtin (number::int)', [('number', 'int'), ('r2', 'Other')]),
                     ('several builtin-typed rules', [('a', 'str'), ('b', 'float'), ('c', 'bool'), ('d', 'Thing')]),
                     ('a builtin at the end of a chain (Num::int)', [('n', 'Num::int')])):
        ls = generate([mkrule(n, (t,), ['f']) for n, t in rs])
        declared = [mm.group(1) for ln in ls for mm in [re.match(r'\s*class (\w+)\(', ln)] if mm]
        clash = sorted(set(declared) & set(vars(_bi)))
        rep.add({'rule_types': [t for _, t in rs], 'classes_declared': declared, 'named_like_a_builtin': clash, 'ok': not clash})
        if clash:
            rep.fail(gm.qualname, f'model-builtin-class:{",".join(clash)}', f'{what}: the generated module declares the class(es) {clash}; its semantics class looks a type name up '
                     f'among the module\'s classes before the builtins, so `number::int` yields a node int(ast=...) instead of the Python value the synthesized classes give', gm.loc)
    out = [ln for ln in generate([mkrule('r', ('D::B1',), ['a', 'class'], ['b'])]) if '\n' not in ln]  # without the module preamble (one multi-line print)
    grc = a.ct.lookup(GEN, '_gen_rule_class')
    gbc = a.ct.lookup(GEN, '_gen_base_class')
    text = textwrap.dedent('\n'.join(out))
    # the recorded lines have no indentation (indent() is a stand-in): rebuild it for the parser
    lines = []
    for ln in '\n'.join(out).splitlines():
        st = ln.strip()
        lines.append(st if st.startswith(('@', 'class ')) or not st else '    ' + st)
    try:
        tree = ast.parse('\n'.join(lines))
        classes = {n.name: n for n in tree.body if isinstance(n, ast.ClassDef)}
    except SyntaxError as e:
        classes = {}
        rep.fail(grc.qualname, 'model-class:syntax', f'the emitted class text does not parse: {e}: {lines}', grc.loc)
    d = classes.get('D')
    if d is not None:
        bases = [ast.unparse(b) for b in d.bases]
        fields = {n.target.id: (ast.unparse(n.value) if n.value is not None else None) for n in d.body if isinstance(n, ast.AnnAssign) and isinstance(n.target, ast.Name)}
        decos = [ast.unparse(x) for x in d.decorator_list]
        ok = bases == ['B1'] and fields == {'a': 'None', 'b': 'None', 'class_': 'None'} and any('dataclass' in x for x in decos)
        rep.add({'emitted_class': 'D', 'bases': bases, 'fields': fields, 'decorators': decos, 'ok': ok})
        if not ok:
            rep.fail(grc.qualname, 'model-class:D', f'for a rule typed D::B1 defining a, class (single) and b (list) the generator emits class D with bases {bases}, fields {fields}, '
                     f'decorators {decos}; required base B1, the fields a, b, class_ all defaulting to None, a dataclass decorator', grc.loc)
    elif classes or not rep.findings:
        rep.fail(grc.qualname, 'model-class:missing', f'no class D in the emitted text {lines}', grc.loc)
    b1 = classes.get('B1')
    ok = b1 is not None and [ast.unparse(b) for b in b1.bases] == ['ModelBase']
    rep.add({'emitted_class': 'B1', 'bases': [ast.unparse(b) for b in b1.bases] if b1 is not None else None, 'ok': ok})
    if not ok:
        rep.fail(gbc.qualname, 'model-class:B1', 'the intermediate base class B1 is not emitted as `class B1(ModelBase)`', gbc.loc)
    return rep


class _NullCM:
    def __enter__(self):
        return self

    def __exit__(self, *x):
        return False


def r8_dispatch_history(a, tier):
    import itertools
    import keyword
    import re as _re

    from ..minieval import Unsupported
    from ..modelinterp import Bound, Hook, ModelInterp
    rep = RuleReport(
        'C07.R8',
        'walker dispatch depends on the class of the node, not on what was walked before: NodeWalker._find_walker, interpreted on '
        'checker-made class hierarchies of the shape the model builder produces (Derived(DeclaredBase, SynthNode), chains, plain nodes) '
        'with a walker that has methods for a declared base, an intermediate class and the root class, returns for every node class the '
        'same method in EVERY order of lookups on one walker object as on a fresh walker (the lookup cache never answers for another class); '
        'a class with its own walk_<Class> method gets it, a class in a single-inheritance chain gets the method of its nearest ancestor',
        floor=50,
    )
    fw = a.p.func('tatsu.walkers.NodeWalker._find_walker')

    class S:
        _verif_standin = True

    class Node(S):
        pass

    class SynthNode(Node):
        pass

    class Stmt(Node):
        pass

    class Expr(Node):
        pass

    class Decl(Stmt, SynthNode):
        pass

    class Call(Expr, SynthNode):
        pass

    class Plain(SynthNode):
        pass

    class Literal(Expr):
        pass

    class IntLiteral(Literal):
        pass

    class W(S):
        def walk_Stmt(self, n):
            pass

        def walk_Expr(self, n):
            pass

        def walk_Literal(self, n):
            pass

        def walk_Node(self, n):
            pass

    def lookup(w, cls):
        it = ModelInterp(a, {'re': Hook(None, sub=Hook(_re.sub)), 'callable': Hook(callable),
                             'keyword': Hook(None, iskeyword=Hook(keyword.iskeyword), issoftkeyword=Hook(keyword.issoftkeyword), kwlist=keyword.kwlist, softkwlist=keyword.softkwlist),
                             'getattr': Hook(lambda o, n, *d: getattr(o, n, *d) if isinstance(o, type) and getattr(o, '_verif_standin', False) else (d[0] if d else None))})
        try:
            r = it.call_bound(Bound(w, fw), [cls()], {})
        except Unsupported as e:
            raise AnalysisError(f'C07.R8: cannot interpret _find_walker: {e}') from e
        return getattr(r, '__name__', r)

    def walker():
        w = W()
        w._walker_cache = {}
        return w
    classes = [Node, Decl, Call, Plain, Stmt, IntLiteral]
    fresh = {c: lookup(walker(), c) for c in classes}
    for c, want in ((Stmt, 'walk_Stmt'), (Node, 'walk_Node'), (IntLiteral, 'walk_Literal')):
        ok = fresh[c] == want
        rep.add({'class': c.__name__, 'fresh_walker_dispatches_to': fresh[c], 'required': want, 'ok': ok})
        if not ok:
            rep.fail(fw.qualname, f'dispatch:{c.__name__}', f'a node of class {c.__name__} is dispatched to {fresh[c]}; required {want} (its own method / the method '
                     f'of its nearest ancestor)', fw.loc)
    orders = list(itertools.permutations(classes)) if tier == 'thorough' else [o for i, o in enumerate(itertools.permutations(classes)) if i % 6 == 0]
    n_bad = 0
    for order in orders:
        w = walker()
        got = {c: lookup(w, c) for c in order}
        diff = [(c.__name__, got[c], fresh[c]) for c in order if got[c] != fresh[c]]
        rep.add({'lookup_order': [c.__name__ for c in order], 'same_as_fresh': not diff})
        if diff and n_bad < 4:
            n_bad += 1
            c, g_, f_ = diff[0]
            rep.fail(fw.qualname, f'dispatch-history:{c}', f'after the lookups {[x.__name__ for x in order[:list(order).index(next(k for k in order if k.__name__ == c))]]} '
                     f'a node of class {c} is dispatched to {g_}; a fresh walker dispatches it to {f_}: nodes are handed to the wrong method depending on what was walked before', fw.loc)
    return rep


def r9_synthesis_registry(a, tier):
    rep = RuleReport(
        'C07.R9',
        'a typed rule gets a class synthesized FOR it: synthesize(name, bases) first asks its registry for `name` and returns what it finds '
        'when that is a type. Where the registry is the namespace of the synth module itself (vars() / globals(): synthesized classes must '
        'be attributes of their module to be picklable), every other name bound in that module - imports, helpers, the framework classes - '
        'answers for a rule typed with that name: the rule is built with that object (no attributes from the AST, no SynthNode behaviour) or '
        'the parse raises TypeError. The names that collide are reported as ONE finding keyed by their set, so a new import is a new finding',
        floor=1,
    )
    mod = a.p.modules.get('tatsu.objectmodel.synth')
    syn = a.p.functions.get('tatsu.objectmodel.synth.synthesize')
    if mod is None or syn is None:
        raise AnalysisError('C07.R9: tatsu.objectmodel.synth.synthesize not found')
    reg = [(n, v) for n, v in mod.assigns.items() if 'registry' in n.lower()]
    if not reg:
        raise AnalysisError('C07.R9: the registry of synthesized classes was not found in tatsu/objectmodel/synth.py')
    name, val = reg[0]
    namespace = isinstance(val, ast.Call) and dotted(val.func) in ('vars', 'globals') and not val.args
    rep.add({'registry': name, 'is_the_module_namespace': namespace, 'expr': norm(val)})
    if not namespace:
        rep.notes.append('the registry is a container of its own: only synthesized classes are found in it')
        return rep
    bound = set()
    for st in mod.tree.body:
        if isinstance(st, (ast.Import, ast.ImportFrom)):
            bound |= {(al.asname or al.name).split('.')[0] for al in st.names}
        elif isinstance(st, (ast.FunctionDef, ast.ClassDef)):
            bound.add(st.name)
        elif isinstance(st, (ast.Assign, ast.AnnAssign)):
            for t in (st.targets if isinstance(st, ast.Assign) else [st.target]):
                if isinstance(t, ast.Name):
                    bound.add(t.id)
    collide = sorted(n for n in bound if n.isidentifier() and not n.startswith('_'))
    rep.add({'names_that_answer_for_a_rule_type': collide})
    if collide:
        rep.fail(syn.qualname, 'registry-collision:' + ','.join(collide), f'the registry of synthesize() is the namespace of tatsu.objectmodel.synth, which also binds {collide}: a rule typed '
                 f'`::{collide[0]}` (or any of the others) is built with that object instead of a synthesized class, or raises TypeError', syn.loc)
    return rep


def r10_no_shared_node_state(a, tier):
    """what a node answers (its public attributes, hence its children, repr and JSON) is a function of that node: the object-model modules
    keep no process-wide table that one instance fills and another reads (= C10.R3, the reviewed inventory of process-wide state)"""
    from . import c10
    rep = c10.r3_inventory(a, tier)
    rep.rule = 'C07.R10'
    for f in rep.findings:
        f.rule = 'C07.R10'
    rep.text = '[= C10.R3] ' + rep.text
    return rep


def r11_walk_reaches_containers(a, tier):
    from ..minieval import Unsupported
    from ..modelinterp import Bound, Hook, ModelInterp, Stub
    rep = RuleReport(
        'C07.R11',
        'NodeWalker.walk reaches every node it is handed, however it is packed: interpreted with a dispatcher that knows two node classes, walk(x) '
        'hands a node to its handler (with the extra positional and keyword arguments) and returns the handler\'s result; walks every element of a '
        'list / tuple in order and every value of a dict, also nested, and returns a container of the same kind holding the results; returns '
        'anything else as it is',
        floor=8,
    )
    fn = a.p.func('tatsu.walkers.NodeWalker.walk')
    N1, N2 = Stub('tatsu.objectmodel.node.Node', tag='n1'), Stub('tatsu.objectmodel.node.Node', tag='n2')
    calls: list = []

    def handler(walker, node, *args, **kwargs):
        calls.append((node._attrs['tag'], args, tuple(sorted(kwargs.items()))))
        return ('walked', node._attrs['tag'])
    me = Stub('tatsu.walkers.NodeWalker', _walker_cache={})
    me._attrs['_find_walker'] = Hook(lambda node, *x, **k: Hook(handler) if isinstance(node, Stub) and node._cls.endswith('.Node') else None)
    W1, W2 = ('walked', 'n1'), ('walked', 'n2')
    cases = [
        ('a node', N1, W1, ['n1']), ('a list of nodes', [N1, N2], [W1, W2], ['n1', 'n2']), ('a tuple of nodes', (N2, N1), (W2, W1), ['n2', 'n1']),
        ('a dict of nodes', {'a': N1, 'b': N2}, {'a': W1, 'b': W2}, ['n1', 'n2']), ('a list inside a dict inside a list', [{'k': [N1, 'x', N2]}], [{'k': [W1, 'x', W2]}], ['n1', 'n2']),
        ('a scalar', 'text', 'text', []), ('None', None, None, []), ('an empty list', [], [], []), ('a number', 0, 0, []),
    ]
    for what, arg, want, order in cases:
        calls.clear()
        it = ModelInterp(a, {'as_namedtuple': Hook(lambda x: None), 'callable': Hook(lambda x: isinstance(x, Hook) or callable(x))})
        try:
            got = it.call_bound(Bound(me, fn), [arg, 'EXTRA'], {'depth': 1})
        except Unsupported as e:
            raise AnalysisError(f'C07.R11: cannot interpret NodeWalker.walk on {what}: {e}') from e
        visited = [c[0] for c in calls]
        forwarded = all(c[1] == ('EXTRA',) and c[2] == (('depth', 1),) for c in calls)
        ok = got == want and type(got) is type(want) and visited == order and forwarded
        rep.add({'walk_of': what, 'returns': repr(got)[:80], 'handlers_called_for': visited, 'arguments_forwarded': forwarded, 'ok': ok})
        if not ok:
            rep.fail(fn.qualname, f'walk:{what}', f'NodeWalker.walk of {what}: returns {got!r} (required {want!r}), handlers called for {visited} (required {order}), extra arguments '
                     f'forwarded: {forwarded} - a node packed in a container is not reached, reached out of order, or its result is dropped', fn.loc)
    return rep


RULES = [r1_child_discovery, r2_traversals, r3_attribute_names, r4_declared_bases, r5_construction, r6_dispatch_namespace, r7_generated_model_classes, r8_dispatch_history, r9_synthesis_registry, r10_no_shared_node_state, r11_walk_reaches_containers]
