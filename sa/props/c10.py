"""C10 - API results depend only on the arguments (structural clauses)."""
from __future__ import annotations

import ast

from ..callgraph import CallGraph
from ..loader import AnalysisError, dotted, norm, walk_no_defs
from ..report import RuleReport
from ..rules.common import attr_chain

LEVEL = 'other'
TECHNIQUE = ('static: cache-key completeness dataflow, no-write-through-cache effect rule, reviewed inventory of '
             'process-wide state with its writers, purity (no attribute store on self) of the model parse methods, '
             'freshness analysis of configuration objects written on the parse path, order-dependence lint for first-match '
             'loops over sets')
LEVEL_TEXT = ('Decides from the source: every argument of compile() that flows into the cached model also flows into the '
              'cache key, and nothing is written through the cache afterwards; every module-level container / ClassVar '
              'container / memoising decorator of the package is in a reviewed table with its writer functions (a new one, '
              'or a new writer, is a violation until reviewed); Model._parse methods do not store on self; configuration '
              'objects written on the parse path are freshly created there; no first-match loop iterates a set. Thread '
              'interleavings and equality with a fresh interpreter are not decided.')
TECHNIQUE += '; shared-configuration rule (no setter or method of a shared model rebinds or mutates the configuration object other holders see); class-level containers and name-keyed registries included in the inventory'
LEVEL_TEXT += ' Added clause: configuration objects held by a model are not rebound or mutated through property setters.'
TECHNIQUE += '; publish-last rule for lazily cached objects (no call on the object after it was stored where later calls return it)'
LEVEL_TEXT += ' Added clause: a thread that parses while another thread builds the optimized grammar never receives the unfinished object.'
TECHNIQUE += '; lossy key components (type(), len(), bool() of an argument in the cache key)'
LEVEL_TEXT += ' Added clause: no component of the cache key identifies an argument less precisely than the cached value depends on it.'
TECHNIQUE += '; values read from a configuration object are not mutated in place (aliases of mutable Config fields)'
LEVEL_TEXT += " Added clause: a list held by the caller's configuration is not extended by a call."
TECHNIQUE += '; parameters stored on a cached object are keyed; results of memoised functions are not mutated (= C17.R5)'
TECHNIQUE += '; process-wide containers are builtin containers (no Python-level item access shared between threads)'
TECHNIQUE += '; per-call state ends with the call: self-fed attributes of the parser (configuration) are restored on every exit of bound(), normal or exceptional (C10.R11, path-state execution)'
LEVEL_TEXT += ' Added clause: caches shared by all threads do their lookups and stores in one step.'
LEVEL_TEXT += ' Added clauses (rounds 9-11): per-call state of a parser object ends with the call on every exit of bound().'
LEVEL_NOTE = 'Trusted: dataclasses.replace / ParserConfig.new / Config.override return new objects; id(x) of a dead object can be reused.'
EXPLANATION = ('Static analysis of /repo sources, TatSu not imported. Def-use chains inside api.compile relate parameters to '
               'the cache key and to the cached value; the package is scanned for shared mutable state and each store site is '
               'attributed to a function and compared with the reviewed table.')
ASSUMPTIONS = [LEVEL_NOTE]


def _names_in(e: ast.AST) -> set[str]:
    return {n.id for n in ast.walk(e) if isinstance(n, ast.Name)}


def _flow(fn, seeds: set[str]) -> set[str]:
    """Names (locals) data-dependent on the seed names, flow-insensitive closure over assignments."""
    dep = set(seeds)
    changed = True
    while changed:
        changed = False
        for n in walk_no_defs(fn.node):
            tgt = None
            val = None
            if isinstance(n, ast.Assign):
                tgt, val = n.targets, n.value
            elif isinstance(n, ast.AnnAssign) and n.value is not None:
                tgt, val = [n.target], n.value
            elif isinstance(n, ast.NamedExpr):
                tgt, val = [n.target], n.value
            if tgt is None:
                continue
            if _names_in(val) & dep:
                for t in tgt:
                    elts = t.elts if isinstance(t, (ast.Tuple, ast.List)) else [t]
                    for x in elts:
                        if isinstance(x, ast.Starred):
                            x = x.value
                        if isinstance(x, ast.Name) and x.id not in dep:
                            dep.add(x.id)
                            changed = True
    return dep


def r1_cache_key(a, tier):
    rep = RuleReport(
        'C10.R1',
        'cache-key completeness of api.compile: every parameter with a data path into the construction of the cached model '
        'has a data path into the cache key; an id(x) component requires the cached value to keep x alive (else the id can be '
        'reused by another object)',
        floor=2,
    )
    fn = a.p.func('tatsu.api.api.compile')
    params = [p for p in fn.params]
    kwarg = fn.node.args.kwarg.arg if fn.node.args.kwarg else None
    if kwarg:
        params.append(kwarg)
    # the cache store:  model = cache[key] = <construction>   /  cache[key] = <construction>
    cache_names = {n.targets[0].id for n in walk_no_defs(fn.node) if isinstance(n, ast.Assign) and isinstance(n.targets[0], ast.Name)
                   and '__compiled_grammar_cache' in norm(n.value)} | {'__compiled_grammar_cache'}
    stores = []
    for n in walk_no_defs(fn.node):
        if isinstance(n, ast.Assign):
            for t in n.targets:
                if isinstance(t, ast.Subscript) and isinstance(t.value, ast.Name) and t.value.id in cache_names:
                    stores.append((n, t))
    if not stores:
        rep.add({'cache_store': None})
        rep.notes.append('compile() no longer stores into a module-level cache: nothing to key')
        rep.floor = 1
        return rep
    for st, sub in stores:
        key_names = _names_in(sub.slice)
        # parameters flowing into the key
        key_params = set()
        for p in params:
            if _flow(fn, {p}) & key_names or p in key_names:
                key_params.add(p)
        # parameters flowing into the constructed value
        val_names = _names_in(st.value)
        val_params = set()
        for p in params:
            if (_flow(fn, {p}) | {p}) & val_names:
                val_params.add(p)
        rep.add({'store': norm(st)[:90], 'key_depends_on': sorted(key_params), 'value_depends_on': sorted(val_params)})
        for p in sorted(val_params - key_params):
            rep.fail(fn.qualname, f'key-misses:{p}', f'the cached model is built from `{p}` but the cache key '
                     f'({norm(sub.slice) if not isinstance(sub.slice, ast.Name) else "key"}) does not depend on it: a later call '
                     f'with a different `{p}` gets the model compiled for the earlier one', f'{fn.module.relpath}:{st.lineno}')
    # a parameter stored AS IT IS on the object that came out of the cache (model.semantics = semantics) is part of what the other
    # holders of that object see: it has to be part of the key as well
    model_names = {t.id for st, _ in stores for t in st.targets if isinstance(t, ast.Name)} | {
        n.targets[0].id for n in walk_no_defs(fn.node) if isinstance(n, ast.Assign) and isinstance(n.targets[0], ast.Name)
        and isinstance(n.value, ast.Subscript) and isinstance(n.value.value, ast.Name) and n.value.value.id in cache_names}
    all_key_params = set()
    for _st, sub in stores:
        kn = _names_in(sub.slice)
        all_key_params |= {p for p in params if _flow(fn, {p}) & kn or p in kn}
    for n in walk_no_defs(fn.node):
        if isinstance(n, ast.Assign) and isinstance(n.value, ast.Name) and n.value.id in params:
            for t in n.targets:
                if isinstance(t, ast.Attribute) and isinstance(t.value, ast.Name) and t.value.id in model_names:
                    keyed = n.value.id in all_key_params
                    rep.add({'stored_on_the_cached_object': norm(n), 'parameter_in_key': keyed})
                    if not keyed:
                        rep.fail(fn.qualname, f'key-misses-stored:{n.value.id}', f'`{norm(n)}` stores the parameter on the object shared through the cache, and the key does not '
                                 f'depend on `{n.value.id}`: every caller that compiled this grammar now holds a model with THIS call\'s {n.value.id} '
                                 f'(a parser compiled without semantics runs the actions of a later caller)', f'{fn.module.relpath}:{n.lineno}')
    # lossy components: a key component computed from a parameter through a function that maps different values to the same result
    # (type(x), len(x), bool(x), x.__class__ ...) lets two calls that differ in that parameter share an entry.  Faithful forms: the
    # value itself, id(x), a content hash (hasha / hash / sha*), str / repr / tuple / frozenset / sorted of it
    FAITHFUL = {'id', 'hasha', 'hash', 'str', 'repr', 'tuple', 'frozenset', 'sorted', 'sha256', 'md5', 'hexdigest', 'encode', 'items'}
    key_vars0 = {x.id for _, sub in stores for x in ast.walk(sub.slice) if isinstance(x, ast.Name)}
    key_exprs = [sub.slice for _, sub in stores] + [n.value for n in walk_no_defs(fn.node) if isinstance(n, ast.Assign)
                                                    and isinstance(n.targets[0], ast.Name) and n.targets[0].id in key_vars0]
    for ke in key_exprs:
        for c in ast.walk(ke):
            if isinstance(c, ast.Call):
                fname = dotted(c.func).split('.')[-1]
                argp = {x.id for arg in c.args for x in ast.walk(arg) if isinstance(x, ast.Name)} & set(params)
                if argp and fname not in FAITHFUL:
                    rep.add({'key_component': norm(c), 'faithful': False})
                    rep.fail(fn.qualname, f'lossy-key:{fname}:{sorted(argp)[0]}', f'the cache key holds `{norm(c)}`: {fname}() maps different values of `{sorted(argp)[0]}` to the same '
                             f'component, so two calls that differ only there share one cached model (the later call changes what the earlier caller holds)',
                             f'{fn.module.relpath}:{c.lineno}')
                elif argp:
                    rep.add({'key_component': norm(c), 'faithful': True})
            elif isinstance(c, ast.Attribute) and c.attr in ('__class__', '__name__', '__module__') and any(isinstance(x, ast.Name) and x.id in params for x in ast.walk(c)):
                rep.fail(fn.qualname, f'lossy-key:{c.attr}', f'the cache key holds `{norm(c)}`, which is the same for different objects', f'{fn.module.relpath}:{c.lineno}')
    # id() components
    key_vars = {x.id for _, sub in stores for x in ast.walk(sub.slice) if isinstance(x, ast.Name)}
    for n in walk_no_defs(fn.node):
        if isinstance(n, ast.Assign) and isinstance(n.targets[0], ast.Name) and n.targets[0].id in key_vars:
            for c in ast.walk(n.value):
                if isinstance(c, ast.Call) and isinstance(c.func, ast.Name) and c.func.id == 'id' and c.args:
                    obj = norm(c.args[0])
                    kept = any(obj in _names_in(st.value) for st, _ in stores) or any(
                        isinstance(x, ast.Assign) and isinstance(x.targets[0], ast.Attribute) and norm(x.value) == obj
                        for x in walk_no_defs(fn.node))
                    rep.add({'id_component': obj, 'object_kept_alive_by_cached_value': kept})
                    if not kept:
                        rep.fail(fn.qualname, f'id-key:{obj}', f'the key contains id({obj}) but the cached value does not keep `{obj}` '
                                 f'alive: after it is collected another object can get the same id and hit this entry', f'{fn.module.relpath}:{n.lineno}')
    return rep


def r2_write_through(a, tier):
    rep = RuleReport(
        'C10.R2',
        'no writes through the compile cache: an object read from the module-level cache is returned as is - no attribute '
        'store on it and no call of a mutating method (semantics setter, initialize, configure ...) after the lookup, because '
        'every earlier caller holds the same object',
        floor=1,
    )
    fn = a.p.func('tatsu.api.api.compile')
    cached_vars = set()
    for n in walk_no_defs(fn.node):
        if isinstance(n, ast.Assign) and isinstance(n.value, ast.Subscript) and 'cache' in norm(n.value.value):
            for t in n.targets:
                if isinstance(t, ast.Name):
                    cached_vars.add(t.id)
        if isinstance(n, ast.Assign) and any(isinstance(t, ast.Subscript) and 'cache' in norm(t.value) for t in n.targets):
            for t in n.targets:
                if isinstance(t, ast.Name):
                    cached_vars.add(t.id)
    rep.add({'variables_holding_cached_objects': sorted(cached_vars)})
    mutators = {'initialize', 'configure', 'link', 'merge', 'update', '_update_patterns'}
    for n in walk_no_defs(fn.node):
        if isinstance(n, ast.Assign):
            for t in n.targets:
                if isinstance(t, ast.Attribute) and isinstance(t.value, ast.Name) and t.value.id in cached_vars:
                    rep.add({'write': norm(n)})
                    rep.fail(fn.qualname, f'write:.{t.attr}', f'`{norm(n)}` writes to the model object shared through the compile '
                             f'cache: models returned by earlier compile() calls with the same key change behaviour', f'{fn.module.relpath}:{n.lineno}')
        if isinstance(n, ast.Call) and isinstance(n.func, ast.Attribute) and isinstance(n.func.value, ast.Name) \
                and n.func.value.id in cached_vars and n.func.attr in mutators:
            rep.add({'mutating_call': norm(n)})
            rep.fail(fn.qualname, f'mutate:.{n.func.attr}', f'`{norm(n)}` re-initialises the model object shared through the compile '
                     f'cache (also while another thread may be parsing with it)', f'{fn.module.relpath}:{n.lineno}')
    return rep


# reviewed inventory: container -> (kind, {writer functions}, note)
INVENTORY = {
    'tatsu.api.api.__compiled_grammar_cache': ({'tatsu.api.api.compile'}, 'compiled-grammar cache (R1/R2)'),
    'tatsu.util.fromjson.__from_json__class__': ({'tatsu.util.fromjson.JSONBase.__init_subclass__'}, 'class registry by name, written at class creation'),
    'tatsu.peg.base._model_classes': ({'tatsu.peg.base.Model.__init_subclass__'}, 'list of model classes, written at class creation'),
    'tatsu.objectmodel.synth.__registry': ({'tatsu.objectmodel.synth.synthesize'}, 'synthesized classes by name (module namespace)'),
    'tatsu.objectmodel.node._children_cache': ({'tatsu.objectmodel.node.Node._cached_children'}, 'weak per-node children cache'),
    'tatsu.packetz.queue._defer_deinit_queues': ({'tatsu.packetz.queue.PacketzQueue.__init__', 'tatsu.packetz.queue.PacketzQueue.__del__',
                                                  'tatsu.packetz.queue.PacketzQueue._deinit', 'tatsu.packetz.queue._defer_deinit_all'}, 'queues to close at exit'),
    'tatsu.util.safeeval.argcounts': (set(), 'constant table'),
    'tatsu.util.safeeval.unsafe_builtins': (set(), 'constant table'),
    'tatsu.util.version.LETTER_NORMALIZATION': (set(), 'constant table'),
    'tatsu.objectmodel.basenode.NodeDataclassParams': (set(), 'constant table'),
}
CLASSVAR_INVENTORY = {
    'tatsu.walkers.NodeWalker._walker_cache': ({'tatsu.walkers.NodeWalker._find_walker', 'tatsu.walkers.NodeWalker.__init_subclass__'}, 'per-subclass walker lookup cache'),
    'tatsu.util.typetools.BoundCallable._BIND_CACHE': ({'tatsu.util.typetools.BoundCallable.bind'}, 'argument-binding cache keyed by id()s; the cached binding keeps the arguments alive'),
}
MEMOISED = {
    'tatsu.util.strtools.safe_name',
    'tatsu.util.regextools.cached_re_compile', 'tatsu.util.safeeval.safe_builtins', 'tatsu.util.safeeval.parse_expression',
    'tatsu.util.safeeval._check_safe_eval_cached', 'tatsu.parsing.find_rule', 'tatsu.contexts.ctx.is_func',
    'tatsu.contexts.core.find_cached_semantic_action', 'tatsu.contexts.ast.AST._unsafe', 'tatsu.objectmodel.basenode.BaseNode._basenode_keys',
}
SCOPE_EXCLUDE = ('tatsu.tool', 'tatsu.util.primality', 'tatsu.boot.bootstrap', 'tatsu.boot.bootparser', 'tatsu.ztyle', 'tatsu.barz', 'tatsu.railroads.unicode',
                 'tatsu.util.unicode_characters', 'tatsu.cling', 'tatsu.parproc', 'tatsu.g2e', 'tatsu.codegen', 'tatsu.diagrams')
MUTABLE_CTORS = {'dict', 'list', 'set', 'defaultdict', 'OrderedDict', 'WeakKeyDictionary', 'WeakValueDictionary', 'deque', 'Counter', 'vars'}


def _is_mutable_container(v: ast.expr) -> bool:
    if isinstance(v, (ast.Dict, ast.List, ast.Set)):
        return True
    if isinstance(v, ast.Call):
        return dotted(v.func).split('.')[-1] in MUTABLE_CTORS
    return False


PURE_READERS = {'get', 'items', 'keys', 'values', 'copy', 'index', 'count', 'isdisjoint', 'issubset', 'issuperset', 'union',
                'intersection', 'difference'}
PURE_CONSUMERS = {'len', 'sorted', 'set', 'list', 'dict', 'tuple', 'frozenset', 'any', 'all', 'enumerate', 'iter', 'min', 'max', 'sum',
                  'reversed', 'zip', 'bool', 'repr', 'str'}


def _is_read_only_table(a, m, name: str) -> bool:
    """the module-level container NAME is never stored into, mutated, rebound, aliased, passed on or returned anywhere in
    the package: every use is a lookup, a membership test, an iteration or a pure consumer -> a constant table"""
    if name.startswith('__') and not name.endswith('__'):
        users = [x for x in a.p.modules.values() if x is m]
    else:
        users = list(a.p.modules.values())
    if name in (m.all_names or []):
        return False
    n_uses = 0
    for um in users:
        if um is not m and a.p.resolve(um.name, name) != f'{m.name}.{name}':
            # attribute access through the module object (mod.NAME) is treated as an escape below
            pass
        pm = {}
        for n in ast.walk(um.tree):
            for c in ast.iter_child_nodes(n):
                pm[id(c)] = n
        for n in ast.walk(um.tree):
            is_use = (isinstance(n, ast.Name) and n.id == name and a.p.resolve(um.name, name) == f'{m.name}.{name}') or (
                isinstance(n, ast.Attribute) and n.attr == name and not (isinstance(n.value, ast.Name) and n.value.id == 'self'))
            if not is_use:
                continue
            par = pm.get(id(n))
            if isinstance(n.ctx, ast.Store) and um is m and isinstance(par, (ast.Assign, ast.AnnAssign)) and pm.get(id(par)) is um.tree:
                continue  # the defining module-level assignment
            if not isinstance(n.ctx, ast.Load):
                return False
            n_uses += 1
            if isinstance(par, ast.Subscript) and par.value is n and isinstance(par.ctx, ast.Load):
                continue
            if isinstance(par, ast.Attribute) and par.value is n and par.attr in PURE_READERS:
                gp = pm.get(id(par))
                if isinstance(gp, ast.Call) and gp.func is par:
                    continue
            if isinstance(par, ast.Compare) and n in par.comparators and all(isinstance(o, (ast.In, ast.NotIn)) for o in par.ops):
                continue
            if isinstance(par, (ast.For, ast.comprehension)) and par.iter is n:
                continue
            if isinstance(par, ast.Call) and n in par.args and isinstance(par.func, ast.Name) and par.func.id in PURE_CONSUMERS:
                continue
            return False
    return True


def r3_inventory(a, tier):
    rep = RuleReport(
        'C10.R3',
        'inventory of process-wide mutable state: every module-level container, ClassVar container and memoising decorator '
        '(@cache/@lru_cache) in the library packages is in the reviewed table, and the functions that store into each '
        'container are exactly the reviewed writers; a new container, a new memoised function or a new writer is a violation '
        'until reviewed',
        floor=15,
    )
    found = {}
    for m in a.p.modules.values():
        if m.name.startswith(SCOPE_EXCLUDE):
            continue
        for name, val in m.assigns.items():
            if name == '__all__' or not _is_mutable_container(val):
                continue
            found[f'{m.name}.{name}'] = m
    for q, m in sorted(found.items()):
        known = INVENTORY.get(q)
        const = known is None and _is_read_only_table(a, m, q.rpartition('.')[2])
        rep.add({'module_container': q, 'reviewed': known is not None, 'derived_constant_table': const})
        if known is None and not const:
            rep.fail(q, 'unreviewed-container', f'module-level mutable container {q} is not in the reviewed inventory: state shared by '
                     f'all calls in the process', f'{m.relpath}')
    # writers
    def writers_of(modname: str, name: str) -> dict[str, int]:
        out: dict[str, int] = {}
        for f in a.p.functions.values():
            if f.module.name != modname and name.startswith('__'):
                continue
            for n in walk_no_defs(f.node):
                hit = False
                if isinstance(n, (ast.Subscript, ast.Attribute)) and isinstance(n.ctx, (ast.Store, ast.Del)):
                    base = n.value
                    if isinstance(base, ast.Name) and base.id == name and a.p.resolve(f.module.name, name) == f'{modname}.{name}':
                        hit = True
                    if isinstance(base, ast.Attribute) and base.attr == name:
                        hit = True
                if isinstance(n, ast.Call) and isinstance(n.func, ast.Attribute) and n.func.attr in (
                        'append', 'add', 'update', 'pop', 'clear', 'setdefault', 'discard', 'remove', 'extend', 'insert', 'popitem'):
                    base = n.func.value
                    if isinstance(base, ast.Name) and base.id == name and a.p.resolve(f.module.name, name) == f'{modname}.{name}':
                        hit = True
                    if isinstance(base, ast.Attribute) and base.attr == name:
                        hit = True
                if hit:
                    out[f.qualname] = n.lineno
        return out

    for q, (writers, note) in {**INVENTORY, **CLASSVAR_INVENTORY}.items():
        modname, _, name = q.rpartition('.')
        if q in CLASSVAR_INVENTORY:
            modname = modname.rpartition('.')[0]
        if modname not in a.p.modules:
            rep.fail(q, 'inventory-stale', f'reviewed container {q} no longer exists (update the inventory)', '')
            continue
        ws = writers_of(modname, name)
        rep.add({'container': q, 'note': note, 'writers_found': sorted(ws), 'writers_reviewed': sorted(writers)})
        for w, line in ws.items():
            if w not in writers:
                f = a.p.functions[w]
                rep.fail(w, f'writer:{name}', f'{w} stores into the process-wide container {q} but is not one of its reviewed '
                         f'writers ({sorted(x.split(".")[-1] for x in writers)})', f'{f.module.relpath}:{line}')
    # memoising decorators
    for f in a.p.functions.values():
        if f.module.name.startswith(SCOPE_EXCLUDE):
            continue
        if any(d.split('.')[-1] in ('cache', 'lru_cache') for d in f.decorators):
            rep.add({'memoised_function': f.qualname, 'reviewed': f.qualname in MEMOISED})
            if f.qualname not in MEMOISED:
                rep.fail(f.qualname, 'unreviewed-memo', f'{f.qualname} is memoised process-wide (@cache/@lru_cache) and not in the '
                         f'reviewed inventory: its result for equal arguments is frozen for the life of the process', f.loc)
    # ClassVar containers
    for c in a.p.classes.values():
        if c.module.name.startswith(SCOPE_EXCLUDE):
            continue
        is_record = any(b.split('.')[-1] in ('NamedTuple', 'TypedDict') for b in c.bases) or any(
            'dataclass' in d for d in [dotted(x) for x in c.node.decorator_list])
        for name in c.assigns:
            ann = c.annotations.get(name, '')
            # a container assigned in a class body is ONE object shared by all instances (a record field default is a per-field
            # declaration and exempt), whether or not it is annotated ClassVar
            if (ann.startswith('ClassVar') or not is_record) and _is_mutable_container(c.assigns[name]):
                q = f'{c.qualname}.{name}'
                rep.add({'classvar_container': q, 'reviewed': q in CLASSVAR_INVENTORY})
                if q not in CLASSVAR_INVENTORY:
                    rep.fail(q, 'unreviewed-classvar', f'class-level mutable container {q} is shared by all instances and not reviewed', c.loc)
    # name-keyed registries that overwrite / reuse without a collision check -> findings
    syn = a.p.func('tatsu.objectmodel.synth.synthesize')
    checks_bases = any(isinstance(n, ast.Compare) and 'bases' in norm(n) and ('__bases__' in norm(n) or 'mro' in norm(n))
                       for n in walk_no_defs(syn.node))
    rep.add({'synthesize_compares_bases_of_registered_class': checks_bases})
    if not checks_bases:
        rep.fail(syn.qualname, 'registry-reuse-by-name', 'synthesize(name, bases) returns the class registered under `name` by an earlier '
                 'call without comparing its bases: the class a grammar gets for `rule::Name::Base` depends on which grammar '
                 'used the name first in this process', syn.loc)
    return rep


ALLOWED_SELF_STORES = {'_ruleinfo', '_optimized', '_lookahead', '_firstset', '_follow_set'}


def r4_parse_is_readonly(a, tier):
    rep = RuleReport(
        'C10.R4',
        'a parse does not write the model or the configuration it was given: no Model._parse method (nor Rule._parse_rhs / '
        '_add_defined) stores an attribute on self other than the idempotent memo fields; on the parse path '
        '(Grammar.parse/_do_parse/new_parse_config/newctx, ModelContext/ParserCore constructors, ParserEngine.parse/bound/_reset) '
        'every attribute store on a configuration object targets an object freshly created in that function '
        '(ParserConfig.new / .override* / replace), and Grammar._do_parse builds a new context per call',
        floor=30,
    )
    model = 'tatsu.peg.base.Model'
    for c in a.ct.subclasses(model):
        ci = a.p.classes[c]
        for mname in ('_parse', '_parse_rhs', '_add_defined', '_do_parse'):
            m = ci.methods.get(mname)
            if m is None or (c == 'tatsu.peg.base.Grammar' and mname == '_do_parse'):
                continue
            stores = [n for n in walk_no_defs(m.node) if isinstance(n, ast.Attribute) and isinstance(n.ctx, (ast.Store, ast.Del))
                      and isinstance(n.value, ast.Name) and n.value.id == 'self']
            rep.add({'method': m.qualname, 'self_stores': [n.attr for n in stores]})
            for n in stores:
                if n.attr not in ALLOWED_SELF_STORES:
                    rep.fail(m.qualname, f'self-store:{n.attr}', f'`self.{n.attr} = ...` inside a parse method writes the grammar model '
                             f'during a parse: concurrent or later parses with the same model see it', f'{m.module.relpath}:{n.lineno}')
    # config freshness on the parse path
    fresh_calls = ('ParserConfig.new', '.override', '.override_config', '.hard_override', 'replace', 'copy', 'ParserConfig')
    path_fns = ['tatsu.peg.base.Grammar.parse', 'tatsu.peg.base.Grammar._do_parse', 'tatsu.peg.base.Grammar.new_parse_config',
                'tatsu.peg.base.Grammar.newctx', 'tatsu.peg.base.ModelContext.__init__', 'tatsu.contexts.core.ParserCore.__init__',
                'tatsu.contexts.engine.ParserEngine.parse', 'tatsu.contexts.engine.ParserEngine.bound', 'tatsu.contexts.core.ParserCore._reset',
                'tatsu.parsing.Parser.__init__']
    for q in path_fns:
        fn = a.p.functions.get(q)
        if fn is None:
            raise AnalysisError(f'anchor vanished: {q}')
        fresh_vars: set[str] = set()
        for n in walk_no_defs(fn.node):
            if isinstance(n, ast.Assign) and isinstance(n.value, ast.Call) and isinstance(n.targets[0], ast.Name):
                f = dotted(n.value.func)
                if f.endswith(('ParserConfig.new', '.override', '.hard_override', 'replace')) or f in ('copy', 'ParserConfig'):
                    fresh_vars.add(n.targets[0].id)
        # self.config on an engine is the active config, (re)created by __init__ / bound
        for n in walk_no_defs(fn.node):
            if isinstance(n, ast.Attribute) and isinstance(n.ctx, ast.Store):
                recv = n.value
                chain = attr_chain(recv)
                is_cfg = (isinstance(recv, ast.Name) and recv.id == 'config') or chain[-1:] == ['config'] or chain[-1:] == ['_config'] \
                    or chain[-1:] == ['_active_config']
                if not is_cfg:
                    continue
                ok = False
                if isinstance(recv, ast.Name) and recv.id in fresh_vars:
                    ok = True
                if norm(recv) == 'self.config' and q.startswith(('tatsu.contexts.', 'tatsu.peg.base.ModelContext', 'tatsu.parsing.')):
                    ok = True  # the engine's own active config object (created by ParserConfig.new / override in __init__/bound)
                rep.add({'fn': q, 'config_store': norm(n), 'receiver_fresh': ok})
                if not ok:
                    rep.fail(q, f'config-store:{norm(n)}', f'`{norm(n)} = ...` writes a configuration object that was not created in '
                             f'this function: the caller\'s / the grammar\'s configuration is altered by a parse', f'{fn.module.relpath}:{n.lineno}')
    # the premise of the freshness analysis: Config.override / ParserConfig.override / Config.new return NEW objects
    for q in ('tatsu.util.configs.Config.override', 'tatsu.config.ParserConfig.override', 'tatsu.util.configs.Config.new'):
        fn = a.p.func(q)
        fresh_names: set[str] = set()
        for n in walk_no_defs(fn.node):
            if isinstance(n, ast.Assign) and isinstance(n.value, ast.Call) and isinstance(n.targets[0], ast.Name):
                f = dotted(n.value.func)
                if f in ('dataclasses.replace', 'replace', 'super().override', 'cls') or f.endswith(('.override', '.hard_override')):
                    fresh_names.add(n.targets[0].id)
        rets = [r for r in walk_no_defs(fn.node) if isinstance(r, ast.Return)]
        bad = []
        for r in rets:
            v = r.value
            ok = (isinstance(v, ast.Call) and dotted(v.func) in ('dataclasses.replace', 'replace', 'super().override', 'cls')) or (
                isinstance(v, ast.Name) and v.id in fresh_names)
            if not ok:
                bad.append(r)
        rep.add({'fn': q, 'returns': [norm(r.value) if r.value is not None else None for r in rets], 'always_a_new_object': not bad})
        for r in bad:
            rep.fail(q, f'returns-shared:{norm(r.value) if r.value is not None else None}',
                     f'`{norm(r)}`: {fn.name}() can return an object that is not a new copy (dataclasses.replace): callers such as '
                     f'ParserEngine.bound and Grammar.new_parse_config then write per-parse values (semantics, start) into the '
                     f'parser\'s / grammar\'s own configuration', f'{fn.module.relpath}:{r.lineno}')
    dp = a.p.func('tatsu.peg.base.Grammar._do_parse')
    newctx = any(isinstance(n, ast.Call) and dotted(n.func) in ('self.newctx', 'ModelContext') for n in walk_no_defs(dp.node))
    rep.add({'_do_parse_builds_new_context': newctx})
    if not newctx:
        rep.fail(dp.qualname, 'shared-context', 'Grammar._do_parse does not create a new parse context per call', dp.loc)
    nc = a.p.func('tatsu.peg.base.Grammar.newctx')
    stored = any(isinstance(n, ast.Attribute) and isinstance(n.ctx, ast.Store) for n in walk_no_defs(nc.node))
    if stored:
        rep.fail(nc.qualname, 'context-cached', 'Grammar.newctx stores the context on the grammar: parses share engine state', nc.loc)
    # engine active config: __init__ and bound create it freshly
    for q in ('tatsu.contexts.core.ParserCore.__init__', 'tatsu.contexts.engine.ParserEngine.bound'):
        fn = a.p.func(q)
        defs: dict[str, list[str]] = {}
        for n in walk_no_defs(fn.node):
            if isinstance(n, ast.AnnAssign) and n.value is not None:
                defs.setdefault(norm(n.target), []).append(norm(n.value))
            elif isinstance(n, ast.Assign):
                for t in n.targets:
                    defs.setdefault(norm(t), []).append(norm(n.value))
        frontier, seen_src = ['self._active_config'], set()
        ok = False
        for _ in range(5):
            nxt = []
            for name in frontier:
                for v in defs.get(name, []):
                    if 'ParserConfig.new' in v or '.override(' in v:
                        ok = True
                    if v not in seen_src:
                        seen_src.add(v)
                        nxt.append(v)
            frontier = nxt
        rep.add({'fn': q, 'active_config_created_fresh': ok, 'def_chain': sorted(seen_src)[:6]})
        if not ok:
            rep.fail(q, 'active-config-shared', f'{fn.name} binds self._active_config to an object not created by ParserConfig.new/override', fn.loc)
    return rep


def r5_order_dependence(a, tier):
    rep = RuleReport(
        'C10.R5',
        'no first-match loop iterates a set: `for x in {…}` / `for x in set(...)` whose body returns or breaks picks a result '
        'that depends on the hash seed of the process',
        floor=1,
    )
    n_loops = 0
    for f in a.p.functions.values():
        if f.module.name.startswith(('tatsu.tool', 'tatsu.boot.boot')):
            continue
        for n in walk_no_defs(f.node):
            if not isinstance(n, ast.For):
                continue
            n_loops += 1
            it = n.iter
            is_set = isinstance(it, (ast.Set, ast.SetComp)) or (isinstance(it, ast.Call) and dotted(it.func) in ('set', 'frozenset'))
            if not is_set:
                continue
            early = any(isinstance(x, (ast.Return, ast.Break)) for s in n.body for x in ast.walk(s))
            rep.add({'set_loop': f.qualname, 'iter': norm(it)[:60], 'first_match': early})
            if early:
                rep.fail(f.qualname, f'set-order:{norm(it)[:40]}', f'`for {norm(n.target)} in {norm(it)[:60]}` returns/breaks on the first match '
                         f'while iterating a set: which candidate wins depends on PYTHONHASHSEED, not on the arguments', f'{f.module.relpath}:{n.lineno}')
    rep.add({'for_loops_scanned': n_loops})
    return rep


def r6_shared_config(a, tier):
    rep = RuleReport(
        'C10.R6',
        'a model and the optimized copy it caches see one configuration: Grammar.optimized() memoises a shallow copy (copy(self): '
        'the copy shares the _config object) and parse() runs on that copy, so `_config` may be REBOUND only while the grammar is '
        'being constructed (__init__); every later change (the semantics setter, configure) must update the shared object in place - '
        'a rebinding after the copy exists leaves the copy with the old configuration, and results then depend on whether a parse '
        'happened before the change',
        floor=3,
    )
    g = a.p.cls('tatsu.peg.base.Grammar')
    opt = g.methods.get('optimized')
    if opt is None:
        raise AnalysisError('Grammar.optimized not found')
    shallow = any(isinstance(n, ast.Call) and dotted(n.func) in ('copy', 'copy.copy') and n.args and norm(n.args[0]) == 'self' for n in walk_no_defs(opt.node))
    cached = any(isinstance(n, ast.Assign) and any(norm(t) == 'self._optimized' for t in n.targets) for n in walk_no_defs(opt.node))
    rep.add({'optimized_is_a_cached_shallow_copy': shallow and cached})
    if not (shallow and cached):
        rep.notes.append('Grammar.optimized() no longer caches a shallow copy: the sharing premise does not apply')
        return rep
    for c in [g.qualname, *a.ct.subclasses(g.qualname)]:
        ci = a.p.classes.get(c)
        if ci is None:
            continue
        for m in [f for f in a.p.functions.values() if f.cls is ci]:  # includes property setters (X.name.setter)
            mname = m.name
            for n in walk_no_defs(m.node):
                tg = []
                if isinstance(n, ast.Assign):
                    tg = n.targets
                elif isinstance(n, (ast.AnnAssign, ast.AugAssign)):
                    tg = [n.target]
                for t in tg:
                    if isinstance(t, ast.Attribute) and t.attr == '_config' and norm(t.value) == 'self':
                        ok = mname == '__init__'
                        rep.add({'rebinds__config': m.qualname, 'during_construction': ok})
                        if not ok:
                            rep.fail(m.qualname, 'config-rebound', f'`{norm(n)[:80]}` rebinds Grammar._config outside __init__: the optimized copy '
                                     f'cached by an earlier parse() keeps the old configuration object, so what this change sets (e.g. the '
                                     f'semantics given to a later compile() of the cached model) is ignored by every later parse',
                                     f'{m.module.relpath}:{n.lineno}')
    sem = [f for f in a.p.functions.values() if f.cls is g and f.qualname.endswith('semantics.setter')]
    rep.add({'semantics_setter_found': bool(sem)})
    return rep


def r7_publish_last(a, tier):
    rep = RuleReport(
        'C10.R7',
        'a lazily built object is published after it is complete: in every method that caches a locally built object in an attribute of self '
        'and hands that attribute out on a later call (`if <self.A is set>: return self.A` ... `self.A = new`), no method of the new object '
        'is called after the store - between the store and that call another thread parsing with the same model receives the unfinished object '
        '(for a grammar: rules whose left-recursion marks were reset and not yet recomputed), and keeps what it derived from it',
        floor=1,
    )
    n = 0
    for f in a.p.functions.values():
        if not f.module.name.startswith('tatsu.') or f.cls is None or f.module.name.startswith(('tatsu.boot.bootstrap', 'tatsu.tool')):
            continue
        stores = [(i, st) for i, st in enumerate(f.node.body) if isinstance(st, ast.Assign) and len(st.targets) == 1
                  and isinstance(st.targets[0], ast.Attribute) and norm(st.targets[0].value) == 'self' and isinstance(st.value, ast.Name)]
        if not stores:
            continue
        for i, st in stores:
            attr = st.targets[0].attr
            local = st.value.id
            built_here = any(isinstance(x, ast.Assign) and any(isinstance(t, ast.Name) and t.id == local for t in x.targets) and isinstance(x.value, ast.Call)
                             for x in f.node.body[:i])
            handed_out = any(isinstance(x, ast.Return) and x.value is not None and norm(x.value) == f'self.{attr}' for x in ast.walk(f.node))
            if not (built_here and handed_out):
                continue
            n += 1
            later = [c for x in f.node.body[i + 1:] for c in ast.walk(x) if isinstance(c, ast.Call) and isinstance(c.func, ast.Attribute)
                     and isinstance(c.func.value, ast.Name) and c.func.value.id == local]
            rep.add({'fn': f.qualname, 'cache_attribute': attr, 'object': local, 'calls_on_the_object_after_publication': [norm(c)[:60] for c in later]})
            if later:
                rep.fail(f.qualname, f'publish-before-complete:{attr}', f'{f.qualname} stores `{local}` in self.{attr} (which later calls return) and then still calls '
                         f'{[norm(c)[:40] for c in later]} on it: a concurrent caller gets the object before it is complete', f'{f.module.relpath}:{st.lineno}')
    if n == 0:
        rep.fail('tatsu', 'publish:none-found', 'no lazily cached object found (Grammar.optimized caches its result in self._optimized)', None)
    return rep


_MUTATORS = {'append', 'extend', 'insert', 'update', 'add', 'clear', 'pop', 'popitem', 'remove', 'discard', 'sort', 'reverse', 'setdefault'}
_CFG_NAMES = ('config', '_config', 'cfg', 'builderconfig', 'parserconfig', 'settings_config', '_active_config')
_FRESH_CALLS = ('list', 'dict', 'set', 'sorted', 'tuple', 'copy', 'deepcopy', 'frozenset')


def r8_config_values_not_mutated(a, tier):
    rep = RuleReport(
        'C10.R8',
        'a value read from a configuration object is not changed in place: configuration copies (Config.override / new / replace) are '
        'shallow, so a list, dict or set held by one configuration is held by every copy of it and by the caller who passed it. In the '
        'library packages, a local that aliases `<config>.<field>` of a mutable field (declared list / dict / set in a Config dataclass) is '
        'never the target of `+=`, a subscript store or a mutating method (append, extend, update, ...) before it was rebound to a fresh '
        'container; nor is `<config>.<field>` itself',
        floor=1,
    )
    # mutable fields of the configuration dataclasses
    mutable: dict[str, str] = {}
    cfg_classes = [q for q in a.p.classes if q.split('.')[-1].endswith('Config') and q.startswith('tatsu.')]
    for q in cfg_classes:
        ci = a.p.classes[q]
        for st in ci.node.body:
            if isinstance(st, ast.AnnAssign) and isinstance(st.target, ast.Name):
                ann = norm(st.annotation)
                head = ann.split('[')[0].split('.')[-1].strip('\'"').lower()
                if head in ('list', 'dict', 'set', 'mutablemapping', 'mutablesequence', 'defaultdict'):
                    mutable[st.target.id] = f'{q.split(".")[-1]}.{st.target.id}: {ann}'
    if not mutable:
        raise AnalysisError('C10.R8: no mutable field found in the configuration dataclasses (anchor moved)')
    rep.add({'mutable_configuration_fields': sorted(mutable.values())})

    def cfg_field(e):
        """<cfg>.<field> with <cfg> a configuration-looking receiver and <field> a mutable field -> field name"""
        if isinstance(e, ast.Attribute) and e.attr in mutable:
            recv = e.value
            last = recv.id if isinstance(recv, ast.Name) else recv.attr if isinstance(recv, ast.Attribute) else ''
            if last in _CFG_NAMES or last.endswith('config'):
                return e.attr
        return None
    n_alias = 0
    for f in a.p.functions.values():
        mname = f.module.name
        if not mname.startswith('tatsu.') or mname.startswith(('tatsu.boot', 'tatsu.tool', 'tatsu.g2e')):
            continue
        if f.cls is not None and f.cls.qualname in cfg_classes and f.name in ('__post_init__', '__init__', '__setstate__', '__getstate__'):
            continue  # a configuration object under construction owns its containers
        aliases: dict[str, str] = {}
        stmts = sorted([n for n in walk_no_defs(f.node) if isinstance(n, (ast.Assign, ast.AnnAssign, ast.AugAssign, ast.Expr, ast.Delete, ast.For))],
                       key=lambda n: (n.lineno, n.col_offset))
        for st in stmts:
            if isinstance(st, (ast.Assign, ast.AnnAssign)):
                val = st.value
                tgts = st.targets if isinstance(st, ast.Assign) else [st.target]
                for t in tgts:
                    if isinstance(t, ast.Name):
                        fld = cfg_field(val) if val is not None else None
                        if fld:
                            aliases[t.id] = fld
                            n_alias += 1
                            rep.add({'fn': f.qualname, 'alias': t.id, 'of': norm(val)})
                        else:
                            aliases.pop(t.id, None)
                    elif isinstance(t, ast.Subscript):
                        base = t.value
                        fld = aliases.get(base.id) if isinstance(base, ast.Name) else cfg_field(base)
                        if fld:
                            rep.fail(f.qualname, f'config-mutated:{fld}:subscript', f'`{norm(st)[:70]}` stores into the container of the configuration field {mutable[fld]}: '
                                     f'the caller\'s configuration (and every shallow copy of it) is altered by this call', f'{f.module.relpath}:{st.lineno}')
            elif isinstance(st, ast.AugAssign):
                t = st.target
                fld = aliases.get(t.id) if isinstance(t, ast.Name) else cfg_field(t)
                if fld:
                    rep.fail(f.qualname, f'config-mutated:{fld}:augassign', f'`{norm(st)[:70]}` extends the container of the configuration field {mutable[fld]} in place: '
                             f'the list is shared with the configuration the caller passed (copies are shallow), so a later call with other arguments '
                             f'sees what this call added', f'{f.module.relpath}:{st.lineno}')
            elif isinstance(st, ast.Expr) and isinstance(st.value, ast.Call) and isinstance(st.value.func, ast.Attribute) and st.value.func.attr in _MUTATORS:
                recv = st.value.func.value
                fld = aliases.get(recv.id) if isinstance(recv, ast.Name) else cfg_field(recv)
                if fld:
                    rep.fail(f.qualname, f'config-mutated:{fld}:{st.value.func.attr}', f'`{norm(st)[:70]}` mutates the container of the configuration field {mutable[fld]} '
                             f'in place: the caller\'s configuration is altered by this call', f'{f.module.relpath}:{st.lineno}')
    rep.add({'aliases_of_mutable_configuration_fields_followed': n_alias})
    return rep


def r9_memoised_results_read_only(a, tier):
    """the result of a memoised function is one object for the whole process: a caller that mutates it makes later calls depend on earlier ones"""
    from . import c17
    rep = c17.r5_shared_tables_are_read_only(a, tier)
    rep.rule = 'C10.R9'
    for f in rep.findings:
        f.rule = 'C10.R9'
    rep.text = '[= C17.R5] ' + rep.text
    return rep


def r10_shared_containers_atomic(a, tier):
    rep = RuleReport(
        'C10.R10',
        'containers shared by every thread of the process are builtin containers: a module-level or class-level container that the library '
        'writes at run time (caches, registries) is read and written by concurrent parses; a builtin dict / set / list does each lookup and '
        'store in one step, a repository class whose __setitem__ / __getitem__ is Python code (a bounded or ordered dict with an eviction '
        'loop) does it in several - two threads interleave inside it (KeyError, "dictionary changed size during iteration"). No '
        'process-wide container is an instance of such a class',
        floor=5,
    )
    n = 0

    def check(q, val, where):
        nonlocal n
        n += 1
        kind = 'builtin'
        bad = None
        if isinstance(val, ast.Call):
            cq = a.p.resolve_expr(where.module if hasattr(where, 'module') else where, val.func)
            ci = a.p.classes.get(cq)
            if ci is not None:
                py = [m_ for c in a.ct.mro(cq) if c in a.p.classes for m_ in a.p.classes[c].methods if m_ in ('__setitem__', '__getitem__', '__delitem__', 'get', 'setdefault')]
                kind = cq
                if py:
                    bad = (cq, sorted(set(py)))
        rep.add({'process_wide_container': q, 'type': kind, 'python_level_item_access': bad[1] if bad else None})
        if bad:
            rep.fail(q, f'shared-nonatomic:{bad[0].split(".")[-1]}', f'{q} is shared by all threads of the process and is a {bad[0].split(".")[-1]}, whose {bad[1]} are Python code '
                     f'(check, delete, iterate, store): concurrent parses interleave inside it and fail with KeyError / RuntimeError instead of returning the result the call gives alone',
                     getattr(where, 'relpath', None) or where.module.relpath)
    for mod in a.p.modules.values():
        if mod.name.startswith(SCOPE_EXCLUDE):
            continue
        for name, val in mod.assigns.items():
            if name != '__all__' and (_is_mutable_container(val) or (isinstance(val, ast.Call) and a.p.resolve_expr(mod, val.func) in a.p.classes
                                                                     and any('__setitem__' in a.p.classes[c].methods for c in a.ct.mro(a.p.resolve_expr(mod, val.func)) if c in a.p.classes))):
                check(f'{mod.name}.{name}', val, mod)
    for c in a.p.classes.values():
        if c.module.name.startswith(SCOPE_EXCLUDE):
            continue
        for st in c.node.body:
            if isinstance(st, ast.AnnAssign) and isinstance(st.target, ast.Name) and st.value is not None and norm(st.annotation).startswith('ClassVar') and (
                    _is_mutable_container(st.value) or isinstance(st.value, ast.Call)):
                if isinstance(st.value, ast.Call) and not _is_mutable_container(st.value):
                    cq = a.p.resolve_expr(c.module, st.value.func)
                    if cq not in a.p.classes:
                        continue
                check(f'{c.qualname}.{st.target.id}', st.value, c)
    if not n:
        raise AnalysisError('C10.R10: no process-wide container found (anchor moved)')
    return rep


def r11_per_call_state(a, tier):
    from ..rules.common import per_call_state_ends_with_the_call
    return per_call_state_ends_with_the_call(a, 'C10.R11')


RULES = [r1_cache_key, r2_write_through, r3_inventory, r4_parse_is_readonly, r5_order_dependence, r6_shared_config, r7_publish_last, r8_config_values_not_mutated, r9_memoised_results_read_only, r10_shared_containers_atomic, r11_per_call_state]
