"""C20 - styling text never alters the text itself (structural clauses)."""
from __future__ import annotations

import ast
import itertools
import re

from ..loader import const_eval, AnalysisError, dotted, norm, walk_no_defs
from ..minieval import MiniEval, Obj, Unsupported, module_constants
from ..regexlang import Unsupported as RxUnsupported
from ..regexlang import compile_nfa, included
from ..report import RuleReport
from ..rules.common import FlagSem
from ..paths import Executor, Semantics

LEVEL = 'other'
TECHNIQUE = ('static: writer/reader agreement of the SGR code tables by interpreting the encoder and the decoder over the finite '
             'attribute domain, finite-domain interpretation of apply() over {format spec given/stored/absent} x {colour on/off}, '
             'colour-gating dominance rule, regular-language inclusion of the emitted escape template in the stripping regex')
LEVEL_TEXT = ('Decides from the source: for every attribute combination of the finite domain (8 modifiers x foreground/background '
              'in none/16/256/RGB corners; thorough: all 256 indices) the parameters written by apply_style are read back by '
              'from_raw to the same attributes; apply() returns the text formatted by the explicit or the stored spec on every '
              'path, wrapped in escapes only when colour is enabled or forced; the escape template is in the language the '
              'stripping regex removes; __len__ is the visual length of str(). Width of wide/combining characters and the repr '
              'round trip of arbitrary text are not decided.')
TECHNIQUE += '; interpretation of __format__/__str__ over {spec} x {stored spec} x {colour on/off} x {fg} (visible text = format(text, spec), escapes applied once); style-last dataflow rule (no width, slice or pad operation receives a value that flowed from a styling call)'
LEVEL_TEXT += ' Added clauses: format(style, spec) pads the visible text and styles once; truncation and padding are applied before styling everywhere in the package.'
TECHNIQUE += '; visual_len = len(descape(text)), style(text, fmt=) carries the spec, repr writes the attributes with colour off'
LEVEL_TEXT += ' Added clauses: see technique (C20.R4 additions).'
TECHNIQUE += '; colour policy table: Color.enabled interpreted over override x NO_COLOR x FORCE_COLOR x stdout/stderr terminal x policy stream'
LEVEL_TEXT += ' Added clause: the documented priority of the colour policy, with a stderr policy looking at stderr only.'
TECHNIQUE += "; repr -> from_raw/parse_fmt with stored specs whose fill character is the wrapper's separator"
LEVEL_TEXT += ' Added clause: the stored format spec and the text survive repr also when the fill is a colon.'
TECHNIQUE += '; render - derive - render against a never-rendered twin for every modifier'
LEVEL_TEXT += ' Added clause: rendering keeps no state that a modifier fails to invalidate.'
TECHNIQUE += '; converse inclusion: every match of the stripping regex begins with ESC'
TECHNIQUE += '; no shared rendering state: module-level containers of tatsu/ztyle and tatsu/util/tty.py are derived constant tables, no memoised rendering function (R8)'
LEVEL_TEXT += ' Added clause: only escape sequences are stripped.'
LEVEL_TEXT += ' Added clauses (rounds 9-11): no module-level mutable state or memoised rendering function in the styling modules.'
LEVEL_NOTE = 'Trusted: format(text, spec) of the standard library; re semantics as parsed by re._parser.'
EXPLANATION = ('Static analysis of /repo sources, TatSu not imported. Style.apply / apply_style / from_raw are interpreted by the '
               'whitelisted evaluator on checker-built style objects; regex literals of tatsu/util/tty.py are recompiled by the checker.')
ASSUMPTIONS = [LEVEL_NOTE]

STYLE = 'tatsu.ztyle.style.Style'
FLAGS = ['bold', 'dim', 'italic', 'underline', 'blink', 'inverse', 'hidden', 'strikethrough']


class RGBv(tuple):
    def __new__(cls, r, g, b):
        return super().__new__(cls, (r, g, b))

    r = property(lambda s: s[0])
    g = property(lambda s: s[1])
    b = property(lambda s: s[2])


class _Ev(MiniEval):
    def attribute(self, e, env):
        base = self.expr(e.value, env)
        if isinstance(base, RGBv) and e.attr in ('r', 'g', 'b'):
            return getattr(base, e.attr)
        if isinstance(base, re.Match) and e.attr in ('group',):
            return base.group
        return super().attribute(e, env)


def _with_helpers(a, ev):
    """module-level helper functions and constant tables of the style module are interpretable too"""
    mod = a.p.module('tatsu.ztyle.style')
    for name, f in mod.functions.items():
        if name not in ev.calls and not f.decorators:
            ev.globals.setdefault(name, ('<func>', f.node, {}))
    for name, val in module_constants(mod).items():
        ev.globals.setdefault(name, val)
    # getattr(style, '<slot name>'[, default]) on the checker's stand-in objects (a table of slot names instead of a chain of ifs)
    ev.calls.setdefault('getattr', lambda o, n, *d: (getattr(o, n, *d) if isinstance(o, Obj) and isinstance(n, str) and not n.startswith('__') else (_ for _ in ()).throw(Unsupported('getattr on ' + type(o).__name__))))
    return ev


def _tty_regexes(a):
    mod = a.p.module('tatsu.util.tty')
    out = {}
    for name in ('ANSI_RE', 'SGR_RE'):
        v = mod.assigns.get(name)
        if not (isinstance(v, ast.Call) and v.args and isinstance(v.args[0], ast.Constant)):
            raise AnalysisError(f'tatsu.util.tty.{name}: not a re.compile(<literal>)')
        out[name] = v.args[0].value
    return out


_CUR = {'a': None}


def _bind(a):
    _CUR['a'] = a


class _StyleObj(Obj):
    """stand-in for a Style: an attribute the class declares as a slot and the stand-in was not given reads as None (what __init__
    of a caching / bookkeeping slot sets), and every plain method of the class is available to the code under interpretation"""

    def __getattr__(self, name):
        if name in object.__getattribute__(self, '__dict__').get('_slots', ()):
            return None
        raise AttributeError(name)


def _style_slots(a) -> tuple:
    v = a.p.cls(STYLE).assigns.get('__slots__')
    try:
        return tuple(ast.literal_eval(v)) if v is not None else ()
    except Exception:  # noqa: BLE001
        return ()


def _style_obj(flags: dict, fg, bg, enabled=True, fmt=None):
    a = _CUR['a']
    st = _StyleObj(_fg=fg, _bg=bg, _fmt=fmt, enabled=enabled, **{f'_{k}': bool(flags.get(k)) for k in FLAGS})
    if a is not None:
        from ..minieval import mro_methods
        object.__setattr__(st, '_slots', _style_slots(a))
        object.__setattr__(st, '_methods', dict(mro_methods(a, STYLE)))
    return st


def _encode(a, style, text='T', force=True):
    fn = a.p.func(f'{STYLE}.apply_style')
    ev = _with_helpers(a, _Ev({'RGB': RGBv}))
    return ev.call_function(fn.node, [style, text, force])


def _decode(a, raw: str, rx):
    fn = a.p.func(f'{STYLE}.from_raw')
    cls = Obj()
    style_methods = {n: m for n, m in a.p.cls(STYLE).methods.items() if n not in ('parse_fmt', 'from_raw')}
    sgr, ansi = re.compile(rx['SGR_RE']), re.compile(rx['ANSI_RE'])

    def methods(recv, name, args, kwargs):
        if isinstance(recv, re.Pattern) and name in ('search', 'sub', 'match'):
            return getattr(recv, name)(*args, **kwargs)
        if isinstance(recv, re.Match) and name == 'group':
            return recv.group(*args)
        if isinstance(recv, Obj) and name == 'parse_fmt':
            return {'text': args[0], **kwargs}
        if recv is cls and name in style_methods:
            m = style_methods[name]
            static = any(d.split('.')[-1] == 'staticmethod' for d in m.decorators)
            return ev.call_function(m.node, list(args) if static else [cls, *args], kwargs)
        return NotImplemented

    ev = _with_helpers(a, _Ev({'RGB': RGBv, 'SGR_RE': sgr, 'ANSI_RE': ansi}, calls={'tty_unescape': lambda s: s}, methods=methods))
    return ev.call_function(fn.node, [cls, raw])


def r1_tables(a, tier):
    _bind(a)
    rep = RuleReport(
        'C20.R1',
        'code tables agree: for every attribute combination of the finite domain, the SGR parameters Style.apply_style writes '
        '(modifier codes, 30+c / 90+c-8 / 38;5;c / 38;2;r;g;b and the background twins) are decoded by Style.from_raw to exactly '
        'the same attributes, and the text between the escapes is the text given',
        floor=500,
    )
    rx = _tty_regexes(a)
    corners = [-1, 0, 7, 8, 15, 16, 255, RGBv(0, 0, 0), RGBv(1, 2, 3), RGBv(255, 255, 255)]
    if tier == 'thorough':
        flagsets = [dict(zip(FLAGS, bits)) for bits in itertools.product([False, True], repeat=8)]
        colours = [(f, b) for f in corners for b in corners] + [(c, -1) for c in range(256)] + [(-1, c) for c in range(256)]
    else:
        flagsets = [{}] + [{k: True} for k in FLAGS] + [dict.fromkeys(FLAGS, True)]
        colours = [(f, b) for f in corners for b in corners]
    fn = a.p.func(f'{STYLE}.apply_style')
    n_bad = 0
    for fl in flagsets:
        for fg, bg in (colours if (not fl or len(fl) == 8 or tier != 'thorough') else [(f, b) for f in corners[:4] for b in corners[:4]]):
            st = _style_obj(fl, fg, bg)
            try:
                raw = _encode(a, st, 'T')
                back = _decode(a, raw, rx)
            except Unsupported as e:
                raise AnalysisError(f'cannot interpret the style codec: {e}') from e
            want = {'text': 'T'}
            if fg != -1:
                want['fg'] = fg
            if bg != -1:
                want['bg'] = bg
            for k in FLAGS:
                if fl.get(k):
                    want[k] = True
            got = {k: (tuple(v) if isinstance(v, tuple) else v) for k, v in back.items()} if isinstance(back, dict) else back
            wantn = {k: (tuple(v) if isinstance(v, tuple) else v) for k, v in want.items()}
            ok = got == wantn
            rep.add({'flags': sorted(k for k in fl if fl[k]), 'fg': repr(fg), 'bg': repr(bg), 'encoded': raw, 'ok': ok})
            if not ok and n_bad < 6:
                n_bad += 1
                rep.fail(fn.qualname, f'roundtrip:{sorted(k for k in fl if fl[k])}:{fg!r}:{bg!r}',
                         f'style with {sorted(k for k in fl if fl[k])} fg={fg!r} bg={bg!r} is written as {raw!r} and read back as {got}: '
                         f'the encoder and decoder tables disagree', fn.loc)
    return rep


def r2_gating(a, tier):
    _bind(a)
    rep = RuleReport(
        'C20.R2',
        'colour gating: in Style.apply_style every return of a string built with an ESC[ sequence lies on a path on which '
        '`self.enabled or force` was tested true; interpreted with colour disabled and not forced, apply_style returns the text '
        'unchanged for every attribute combination; __len__ is visual_len(str(self))',
        floor=20,
    )
    fn = a.p.func(f'{STYLE}.apply_style')
    for fl in [{}] + [{k: True} for k in FLAGS] + [dict.fromkeys(FLAGS, True)]:
        for fg, bg in ((-1, -1), (3, 4), (200, 17), (RGBv(1, 2, 3), RGBv(4, 5, 6))):
            st = _style_obj(fl, fg, bg, enabled=False)
            out = _encode(a, st, 'plain', force=False)
            ok = out == 'plain'
            rep.add({'flags': sorted(fl), 'fg': repr(fg), 'bg': repr(bg), 'disabled_output': out, 'ok': ok})
            if not ok:
                rep.fail(fn.qualname, f'ungated:{sorted(fl)}:{fg!r}', f'with colour disabled apply_style returns {out!r} for the text '
                         f'"plain": an escape sequence (or altered text) leaks', fn.loc)
    # the gate comes before any code is collected (structural): first `if` after the emptiness test
    ifs = [s for s in fn.node.body if isinstance(s, ast.If)]
    gate = next((s for s in ifs if 'self.enabled' in norm(s.test)), None)
    ok = gate is not None and norm(gate.test) in ('not (self.enabled or force)', 'not (force or self.enabled)') and \
        isinstance(gate.body[0], ast.Return) and norm(gate.body[0].value) == fn.params[1]
    rep.add({'gate': norm(gate.test) if gate else None, 'returns_text_unchanged': ok})
    if not ok:
        rep.fail(fn.qualname, 'gate-shape', 'apply_style does not begin with `if not (self.enabled or force): return text`', fn.loc)
    ln = a.p.func(f'{STYLE}.__len__')
    rets = [norm(r.value) for r in walk_no_defs(ln.node) if isinstance(r, ast.Return) and r.value is not None]
    ok = rets == ['visual_len(str(self))']
    rep.add({'__len__': rets, 'ok': ok})
    if not ok:
        rep.fail(ln.qualname, 'len', f'Style.__len__ returns {rets}, not visual_len(str(self))', ln.loc)
    return rep


def r3_inclusion(a, tier):
    _bind(a)
    rep = RuleReport(
        'C20.R3',
        'what is emitted is what is stripped: the language of the SGR prefix/suffix Style.apply_style can emit (ESC [ parameters of '
        'digits and semicolons m) is included in the language of ANSI_RE used by descape()/visual_len(), and in SGR_RE used by '
        'from_raw',
        floor=2,
    )
    rx = _tty_regexes(a)
    fn = a.p.func(f'{STYLE}.apply_style')
    tmpl = None
    for n in walk_no_defs(fn.node):
        if isinstance(n, ast.JoinedStr) and any(isinstance(v, ast.Constant) and '\x1b[' in str(v.value) for v in n.values):
            tmpl = n
    if tmpl is None:
        raise AnalysisError('apply_style: escape template not found')
    consts = [v.value for v in tmpl.values if isinstance(v, ast.Constant)]
    emitted = r'\x1b\[[0-9;]*m'
    shape_ok = consts[0] == '\x1b[' and consts[1].startswith('m') and consts[-1].endswith('\x1b[0m')
    rep.add({'template_constants': [repr(c) for c in consts], 'modelled_as': emitted, 'shape_ok': shape_ok})
    if not shape_ok:
        rep.fail(fn.qualname, 'template', f'the escape template {[repr(c) for c in consts]} is not ESC[<params>m<text>ESC[0m', fn.loc)
    for name in ('ANSI_RE', 'SGR_RE'):
        try:
            ok, w = included(compile_nfa(emitted), compile_nfa(rx[name]))
        except RxUnsupported as e:
            raise AnalysisError(f'cannot decide {name}: {e}') from e
        rep.add({'stripping_regex': name, 'pattern': rx[name], 'emitted_language_included': ok, 'counterexample': w})
        if not ok:
            rep.fail(f'tatsu.util.tty.{name}', f'not-stripped:{name}', f'{name} = {rx[name]!r} does not match the emitted sequence {w!r}: '
                     f'descape()/visual_len() leave it in the text', '')
    # ... and nothing else is: every string the stripping regex matches begins with ESC (the property is about texts free of ESC; a pattern
    # that also matches, say, the C1 code points U+0080..U+009F removes characters of the user's text)
    for name in ('ANSI_RE',):
        try:
            ok, w = included(compile_nfa(rx[name]), compile_nfa(r'\x1b(?:.|\n)*'))
        except RxUnsupported as e:
            raise AnalysisError(f'cannot decide {name} (only escapes): {e}') from e
        rep.add({'stripping_regex': name, 'every_match_begins_with_ESC': ok, 'counterexample': w})
        if not ok:
            rep.fail(f'tatsu.util.tty.{name}', f'strips-text:{name}', f'{name} = {rx[name]!r} matches {w!r}, which contains no ESC: descape() / visual_len() / from_raw remove '
                     f'characters of the text itself', '')
    return rep


def r4_apply(a, tier):
    _bind(a)
    rep = RuleReport(
        'C20.R4',
        'text provenance: Style.apply(text, fmt), interpreted over {fmt given / empty / absent} x {spec stored on the style / none} '
        'x {colour on / off} x attribute corners, returns apply_style(format(text, <explicit spec, else stored spec>)) - i.e. with '
        'the escapes stripped exactly the formatted text, and with colour off exactly that text',
        floor=24,
    )
    rx = _tty_regexes(a)
    ansi = re.compile(rx['ANSI_RE'])
    ap = a.p.func(f'{STYLE}.apply')
    asf = a.p.func(f'{STYLE}.apply_style')
    for fmt, stored, enabled, fl, fg in itertools.product([None, '', '>6', '*^8'], [None, '<7'], [True, False], [{}, {'bold': True}], [-1, 2]):
        st = _style_obj(fl, fg, -1, enabled=enabled, fmt=stored)
        object.__setattr__(st, '_methods', {**st._methods, 'apply_style': asf.node})
        ev = _with_helpers(a, _Ev({'RGB': RGBv}, calls={'format': format}))
        try:
            out = ev.call_function(ap.node, [st, 'ab', fmt])
        except Unsupported as e:
            raise AnalysisError(f'cannot interpret Style.apply: {e}') from e
        eff = fmt or stored
        want_text = format('ab', eff) if eff else 'ab'
        stripped = ansi.sub('', out)
        ok = stripped == want_text and (enabled or out == want_text)
        rep.add({'fmt': fmt, 'stored_fmt': stored, 'colour': enabled, 'styled': bool(fl) or fg != -1, 'output': out, 'visible': stripped,
                 'want_visible': want_text, 'ok': ok})
        if not ok:
            rep.fail(ap.qualname, f'apply:{fmt!r}:{stored!r}:{enabled}', f'apply("ab", fmt={fmt!r}) on a style with stored spec {stored!r}, colour '
                     f'{"on" if enabled else "off"}: visible output {stripped!r}, required {want_text!r} (the text formatted by the '
                     f'explicit spec, else by the stored one)', ap.loc)
    # the formatting protocol: format(style, spec) / f'{style:spec}' / str(style) go through apply() ONCE, on the text
    fm, sm = a.p.func(f'{STYLE}.__format__'), a.p.func(f'{STYLE}.__str__')
    for spec, stored, enabled, fg in itertools.product(['', '>6', '*^8'], [None, '<7'], [True, False], [-1, 2]):
        for what, m, args in (('format(style, spec)', fm, [spec]), ('str(style)', sm, [])):
            if what == 'str(style)' and spec:
                continue
            st = _style_obj({'bold': True} if fg != -1 else {}, fg, -1, enabled=enabled, fmt=stored)
            object.__setattr__(st, 'value', 'ab')
            object.__setattr__(st, '_methods', {**st._methods, 'apply_style': asf.node, 'apply': ap.node, '__str__': sm.node})
            ev = _with_helpers(a, _Ev({'RGB': RGBv}, calls={'format': format}))

            def methods(recv, name, args_, kwargs, st=st, ev=ev):
                return NotImplemented
            ev.calls['str'] = lambda x, st=st, ev=ev: ev.call_function(sm.node, [st]) if x is st else str(x)
            try:
                out = ev.call_function(m.node, [st, *args])
            except Unsupported as e:
                raise AnalysisError(f'cannot interpret Style.{m.name}: {e}') from e
            eff = spec or stored
            want_text = format('ab', eff) if eff else 'ab'
            stripped = ansi.sub('', out)
            once = out.count('\x1b[0m') <= 1
            ok = stripped == want_text and (enabled or out == want_text) and once
            rep.add({'protocol': what, 'spec': spec, 'stored_fmt': stored, 'colour': enabled, 'styled': fg != -1, 'output': out, 'visible': stripped,
                     'want_visible': want_text, 'ok': ok})
            if not ok:
                rep.fail(m.qualname, f'format:{spec!r}:{stored!r}:{enabled}:{fg}', f'{what} with spec {spec!r} on a style holding the text "ab", stored '
                         f'spec {stored!r}, colour {"on" if enabled else "off"}: output {out!r}, visible {stripped!r}; required visible '
                         f'{want_text!r} with the escapes applied once (the width of the spec must be measured on the text, not on text '
                         f'that already carries escape sequences)', m.loc)
    # visual_len is the length of the text with the escapes removed
    vl = a.p.func('tatsu.util.tty.visual_len')
    seen_args: list = []
    ev = _Ev({}, calls={'descape': lambda t: (seen_args.append(t), 'ab')[1], 'len': len})
    try:
        got = ev.call_function(vl.node, ['\x1b[1mab\x1b[0m'])
    except Unsupported as e:
        raise AnalysisError(f'cannot interpret visual_len: {e}') from e
    ok = got == 2 and seen_args == ['\x1b[1mab\x1b[0m']
    rep.add({'visual_len': 'of ESC[1m ab ESC[0m with descape -> ab', 'returns': got, 'ok': ok})
    if not ok:
        rep.fail(vl.qualname, 'visual-len', f'visual_len of a styled "ab" is {got!r} (descape called with {seen_args}); required: len(descape(text)) = 2', vl.loc)
    # style(text, fmt=spec) carries the spec (and keeps a stored one when none is given)
    cl = a.p.func(f'{STYLE}.__call__')
    for given, stored in (('>6', None), ('>6', '<7'), (None, '<7'), (None, None)):
        made: list = []
        st = Obj(_fmt=stored)
        object.__setattr__(st, '_methods', {})
        ev = _Ev({}, calls={'type': lambda o: (lambda value, **kw: made.append((value, kw)) or 'NEW')})

        def methods(recv, name, args_, kwargs, stored=stored):
            if recv is st and name == '_kwattrs':
                return {'value': 'old', 'fmt': stored, 'bold': True}
            return NotImplemented
        ev.methods = methods
        try:
            ev.call_function(cl.node, [st, 'txt'], {'fmt': given} if given is not None else {})
        except Unsupported as e:
            raise AnalysisError(f'cannot interpret Style.__call__: {e}') from e
        want = given if given is not None else stored
        ok = len(made) == 1 and made[0][0] == 'txt' and made[0][1].get('fmt') == want and made[0][1].get('bold') is True
        rep.add({'call': f'style("txt", fmt={given!r}) on a style with stored spec {stored!r}', 'constructs': str(made), 'want_fmt': want, 'ok': ok})
        if not ok:
            rep.fail(cl.qualname, f'call:{given!r}:{stored!r}', f'style("txt", fmt={given!r}) on a style with stored spec {stored!r} constructs {made}; required: '
                     f'the text "txt", the attributes of the style and fmt={want!r}', cl.loc)
    # repr writes the escapes also when colour is off (it is the serialised form from_raw reads back)
    rp = a.p.func(f'{STYLE}.__repr__')
    st = _style_obj({'bold': True}, 2, -1, enabled=False, fmt=None)
    object.__setattr__(st, 'value', 'ab')
    object.__setattr__(st, '_methods', {**st._methods, 'apply_style': asf.node})
    ev = _with_helpers(a, _Ev({'RGB': RGBv}, calls={'tty_escape': lambda t: t, 'repr': repr}))
    try:
        out = ev.call_function(rp.node, [st])
        ok = '[1;32m' in out.replace('\\x1b', '').replace('\x1b', '') or '1;32' in out
    except Unsupported as e:
        out, ok = f'not interpretable: {e}', None
    rep.add({'repr': 'bold green "ab" with colour off', 'output': out, 'carries_the_attributes': ok})
    if ok is False:
        rep.fail(rp.qualname, 'repr-not-forced', f'repr of a bold green style with colour disabled is {out!r}: the attributes are not written, reading it back '
                 f'gives a plain style', rp.loc)
    # repr with a stored format spec: from_raw/parse_fmt read back the same text and the same spec, also when the spec's
    # fill character is the separator the wrapper uses (text free of braces, colons, backslashes, quotes, control characters)
    pf, fr = a.p.func(f'{STYLE}.parse_fmt'), a.p.func(f'{STYLE}.from_raw')
    rx = _tty_regexes(a)
    for value, spec, styled in itertools.product(('ab', 'x'), ('>6', ':>10', ':^8', '*<7', ':', '.3', None), (False, True)):
        st = _style_obj({'bold': True} if styled else {}, 2 if styled else -1, -1, enabled=False, fmt=spec)
        object.__setattr__(st, 'value', value)
        object.__setattr__(st, '_methods', {**st._methods, 'apply_style': asf.node})
        ev = _with_helpers(a, _Ev({'RGB': RGBv}, calls={'tty_escape': lambda t: t, 'repr': repr}))
        made: list = []
        cls, re_mod, colour = Obj(), Obj(), Obj()

        def methods(recv, name, args, kwargs, cls=cls, re_mod=re_mod, colour=colour):
            if isinstance(recv, re.Pattern) and name in ('search', 'sub', 'match', 'fullmatch'):
                return getattr(recv, name)(*args, **kwargs)
            if isinstance(recv, re.Match) and name in ('group', 'groups'):
                return getattr(recv, name)(*args)
            if recv is re_mod and name in ('match', 'search', 'fullmatch', 'compile'):
                return getattr(re, name)(*args, **kwargs)
            if recv is colour and name == 'default':
                return 'DEFAULT'
            if recv is cls and name == 'parse_fmt':
                return ev2.call_function(pf.node, [cls, *args], kwargs)
            return NotImplemented
        ev2 = _with_helpers(a, _Ev({'RGB': RGBv, 'SGR_RE': re.compile(rx['SGR_RE']), 'ANSI_RE': re.compile(rx['ANSI_RE']), 're': re_mod, 'Color': colour},
                                   calls={'tty_unescape': lambda t: t, 'cls': lambda *x, **k: made.append((x, k)) or 'STYLE'}, methods=methods))
        try:
            written = ev.call_function(rp.node, [st])
            ev2.call_function(fr.node, [cls, written.encode().decode('unicode_escape')])
        except Unsupported as e:
            raise AnalysisError(f'cannot interpret the repr round trip: {e}') from e
        want_kw = {'bold': True, 'fg': 2} if styled else {}
        got_kw = {k: v for k, v in made[0][1].items() if k not in ('color', 'fmt')} if len(made) == 1 else None
        ok = len(made) == 1 and made[0][0] == (value,) and made[0][1].get('fmt') == spec and got_kw == want_kw
        rep.add({'repr_of': f'{value!r} with stored spec {spec!r}, {"bold green" if styled else "no attributes"}', 'written': written,
                 'read_back': str(made), 'ok': ok})
        if not ok:
            rep.fail(pf.qualname, f'repr-fmt:{value!r}:{spec!r}:{styled}', f'a style over {value!r} with stored spec {spec!r} is written by repr as {written!r} and read '
                     f'back by from_raw as {made}; required: the text {value!r}, fmt={spec!r} and attributes {want_kw}', pf.loc)
    return rep


WIDTH_CONSUMERS = {'slicetowidth', 'len', 'textwrap.shorten', 'shorten'}
PAD_METHODS = {'ljust', 'rjust', 'center', 'zfill', 'expandtabs'}


def r5_style_last(a, tier):
    _bind(a)
    rep = RuleReport(
        'C20.R5',
        'users of styles cut and measure TEXT, then style it: in the modules that render with Style objects (error rendering in '
        'contexts/memento.py and exceptions.py, contexts/tracing.py) no styled value - the result of calling a Style object, a '
        'Style(...) construction or a chained style method - is handed to a width consumer (slicetowidth, len, ljust/rjust/center, '
        'a slice): the escape sequences would be counted and cut as if they were text, so stripping them no longer leaves the text '
        'formatted as specified',
        floor=5,
    )
    mods = [m for m in a.p.modules.values() if m.name in ('tatsu.contexts.memento', 'tatsu.exceptions', 'tatsu.contexts.tracing')]
    if len(mods) < 3:
        raise AnalysisError('rendering modules not found')
    for m in mods:
        # attributes / locals that hold Style objects
        style_attrs = set()
        for f in [f for f in a.p.functions.values() if f.module is m]:
            for n in walk_no_defs(f.node):
                if isinstance(n, ast.Assign) and _is_style_expr(n.value, set(), set()):
                    for t in n.targets:
                        if isinstance(t, ast.Attribute):
                            style_attrs.add(t.attr)
        for f in [f for f in a.p.functions.values() if f.module is m]:
            style_locals = set()
            changed = True
            while changed:
                changed = False
                for n in walk_no_defs(f.node):
                    if isinstance(n, ast.Assign) and len(n.targets) == 1 and isinstance(n.targets[0], ast.Name) \
                            and n.targets[0].id not in style_locals and _is_style_expr(n.value, style_attrs, style_locals):
                        style_locals.add(n.targets[0].id)
                        changed = True
            for n in walk_no_defs(f.node):
                bad = None
                if isinstance(n, ast.Call):
                    nm = dotted(n.func)
                    if (nm in WIDTH_CONSUMERS or nm.split('.')[-1] in WIDTH_CONSUMERS) and n.args and _is_styled(n.args[0], style_attrs, style_locals):
                        bad = (nm, n.args[0])
                    elif isinstance(n.func, ast.Attribute) and n.func.attr in PAD_METHODS and _is_styled(n.func.value, style_attrs, style_locals):
                        bad = (n.func.attr, n.func.value)
                elif isinstance(n, ast.Subscript) and isinstance(n.slice, ast.Slice) and _is_styled(n.value, style_attrs, style_locals):
                    bad = ('slice', n.value)
                if isinstance(n, ast.Call) and _is_styled(n, style_attrs, style_locals):
                    rep.add({'function': f.qualname, 'styles': norm(n)[:60]})
                if bad:
                    rep.fail(f.qualname, f'width-of-styled:{bad[0]}', f'`{norm(n)[:80]}` applies {bad[0]} to the styled value `{norm(bad[1])[:50]}`: with '
                             f'colour on, the budget counts and cuts escape sequences (the message is truncated earlier than in the plain '
                             f'rendering and the closing reset can be cut off)', f'{f.module.relpath}:{n.lineno}')
    return rep


STYLE_METHODS = {'bold', 'dim', 'italic', 'underline', 'blink', 'inverse', 'hidden', 'strikethrough', 'fg', 'bg', 'red', 'green', 'blue', 'white',
                 'black', 'yellow', 'magenta', 'cyan', 'fmt', 'apply', 'markup'}


def _is_style_expr(e, style_attrs, style_locals) -> bool:
    """E evaluates to a Style OBJECT (not yet applied to a text): Style(...), a chained style method on one, a known holder"""
    if isinstance(e, ast.Call):
        nm = dotted(e.func)
        if nm.split('.')[-1] == 'Style' and not e.args:
            return True
        if isinstance(e.func, ast.Attribute) and e.func.attr in STYLE_METHODS and _is_style_expr(e.func.value, style_attrs, style_locals):
            return True
        return False
    if isinstance(e, ast.Attribute):
        return e.attr in style_attrs
    if isinstance(e, ast.Name):
        return e.id in style_locals
    return False


def _is_styled(e, style_attrs, style_locals) -> bool:
    """E is a styled TEXT: a Style object called with a text, Style(text, ...), or a style method chained on a styled text"""
    if isinstance(e, ast.Call):
        if _is_style_expr(e.func, style_attrs, style_locals) and e.args:
            return True
        nm = dotted(e.func)
        if nm.split('.')[-1] == 'Style' and e.args:
            return True
        if isinstance(e.func, ast.Attribute) and e.func.attr in STYLE_METHODS and _is_styled(e.func.value, style_attrs, style_locals):
            return True
    return False


def r6_gating_policy(a, tier):
    _bind(a)
    import itertools as _it

    from ..modelinterp import Hook, ModelInterp, Stub
    rep = RuleReport(
        'C20.R6',
        'the colour policy, interpreted over {explicit override none / on / off} x {NO_COLOR set?} x {FORCE_COLOR set?} x {stdout a terminal?} x '
        '{stderr a terminal?} x {policy for stdout / for stderr}: Color.enabled is the override if given, else off under NO_COLOR, else on '
        'under FORCE_COLOR, else "the stream THIS policy is for is a terminal" - a stderr policy never looks at stdout (error messages '
        'redirected to a file carry no escapes although the terminal shows colours)',
        floor=96,
    )
    COLOR = 'tatsu.ztyle.style.Color'
    cls = a.p.cls(COLOR)
    en = cls.methods.get('enabled')
    if en is None:
        raise AnalysisError('Color.enabled not found')
    from ..modelinterp import Bound
    n_bad = 0
    for force, no_color, force_color, out_tty, err_tty, for_stderr in _it.product((None, True, False), (False, True), (False, True), (False, True), (False, True), (False, True)):
        envd = {}
        if no_color:
            envd['NO_COLOR'] = '1'
        if force_color:
            envd['FORCE_COLOR'] = '1'
        me = Stub(COLOR, _force_enable=force, _check_stderr=for_stderr)
        G = {'os': Hook(None, environ=Hook(None, get=Hook(lambda k, d=None, envd=envd: envd.get(k, d)))),
             'sys': Hook(None, stdout=Hook(None, isatty=Hook(lambda out_tty=out_tty: out_tty)), stderr=Hook(None, isatty=Hook(lambda err_tty=err_tty: err_tty))),
             'shutil': Hook(None, get_terminal_size=Hook(lambda: Hook(None, columns=80, lines=24)))}
        try:
            got = ModelInterp(a, G).call_bound(Bound(me, en), [], {})
        except Unsupported as e:
            raise AnalysisError(f'cannot interpret Color.enabled: {e}') from e
        want = force if force is not None else (False if no_color else (True if force_color else (err_tty if for_stderr else out_tty)))
        ok = bool(got) == want
        rep.add({'override': force, 'NO_COLOR': no_color, 'FORCE_COLOR': force_color, 'stdout_tty': out_tty, 'stderr_tty': err_tty, 'policy_for': 'stderr' if for_stderr else 'stdout',
                 'enabled': got, 'want': want, 'ok': ok})
        if not ok and n_bad < 4:
            n_bad += 1
            rep.fail(en.qualname, f'policy:{force}:{no_color}:{force_color}:{out_tty}:{err_tty}:{for_stderr}', f'Color.enabled with override {force}, NO_COLOR {"set" if no_color else "unset"}, '
                     f'FORCE_COLOR {"set" if force_color else "unset"}, stdout {"a terminal" if out_tty else "redirected"}, stderr {"a terminal" if err_tty else "redirected"}, policy for '
                     f'{"stderr" if for_stderr else "stdout"} is {got}; the documented priority gives {want}', en.loc)
    return rep


def r7_no_rendering_memory(a, tier):
    _bind(a)
    rep = RuleReport(
        'C20.R7',
        'what a style writes is a function of its attributes, not of what was rendered before: for every modifier method (bold, dim, '
        'italic, underline, blink, inverse, hidden, strikethrough) and base style (plain, coloured, already modified), the style derived '
        'AFTER the base was rendered (apply_style forced, interpreted; copy() copies every slot) renders exactly like a stand-in that was '
        'given the derived attributes and never rendered - a memoised escape string that a modifier does not invalidate would make repr '
        'and str of the derived style lose the modifier',
        floor=16,
    )
    cls = a.p.cls(STYLE)

    def clone(o):
        c = _StyleObj()
        for k, v in vars(o).items():
            object.__setattr__(c, k, v if k != '_methods' else dict(v))
        return c
    bases = [('plain', {}, -1), ('red', {}, 1), ('dim green', {'dim': True}, 2)]
    n_bad = 0
    for flag in FLAGS:
        meth = cls.methods.get(flag)
        if meth is None:
            continue
        for bname, bflags, bfg in bases:
            if bflags.get(flag):
                continue
            try:
                base = _style_obj(bflags, bfg, -1)
                ev = _with_helpers(a, _Ev({'RGB': RGBv}, calls={'copy': clone}))
                first = ev.call_function(a.p.func(f'{STYLE}.apply_style').node, [base, 'T', True])
                derived = ev.call_function(meth.node, [base])
                got = ev.call_function(a.p.func(f'{STYLE}.apply_style').node, [derived, 'T', True])
                fresh = _style_obj({**bflags, flag: True}, bfg, -1)
                want = _with_helpers(a, _Ev({'RGB': RGBv})).call_function(a.p.func(f'{STYLE}.apply_style').node, [fresh, 'T', True])
                again = ev.call_function(a.p.func(f'{STYLE}.apply_style').node, [base, 'T', True])
            except Unsupported as e:
                raise AnalysisError(f'C20.R7: cannot interpret Style.{flag}: {e}') from e
            ok = got == want and again == first
            rep.add({'base': bname, 'modifier': flag, 'base_rendered': first, 'derived_renders': got, 'never_rendered_twin': want, 'ok': ok})
            if not ok and n_bad < 6:
                n_bad += 1
                rep.fail(meth.qualname, f'stale-render:{flag}:{bname}', f'a {bname} style is rendered ({first!r}), then .{flag}() is derived from it: the derived style renders '
                         f'{got!r}, a style with the same attributes that was never rendered writes {want!r} (the base afterwards: {again!r})', meth.loc)
    return rep


def r8_no_shared_rendering_state(a, tier):
    from .c10 import _is_mutable_container, _is_read_only_table
    rep = RuleReport(
        'C20.R8',
        'what a styling call returns depends on its arguments and the colour policy it is given, not on earlier calls: in tatsu/ztyle and '
        'tatsu/util/tty.py every module-level mutable container is a constant table (never stored into, mutated, aliased or handed out - derived, '
        'not listed), and no function is memoised with @cache / @lru_cache. A memo of composed styles keyed by less than all the arguments that '
        'decide the output (the colour policy among them) hands one caller the escapes - or the plain text - of another',
        floor=3,
    )
    n = 0
    for m in a.p.modules.values():
        if not (m.name.startswith('tatsu.ztyle') or m.name == 'tatsu.util.tty'):
            continue
        for name, val in m.assigns.items():
            if name == '__all__' or not _is_mutable_container(val):
                continue
            n += 1
            const = _is_read_only_table(a, m, name)
            rep.add({'module_container': f'{m.name}.{name}', 'derived_constant_table': const})
            if not const:
                rep.fail(f'{m.name}.{name}', 'shared-rendering-state', f'{m.name}.{name} is a module-level container that functions of the styling package store into: '
                         f'a rendering depends on what was rendered before (e.g. a style composed under one colour policy reused under another)', m.relpath)
        for f in a.p.functions.values():
            if f.module is m and any(d.split('.')[-1] in ('cache', 'lru_cache') for d in f.decorators):
                n += 1
                has_params = bool([p for p in f.params if p not in ('self', 'cls')])
                rep.add({'memoised_function': f.qualname, 'takes_arguments': has_params})
                if has_params:
                    rep.fail(f.qualname, 'memoised-rendering', f'{f.qualname} is memoised: its result is shared by all later calls with equal (hash-equal) arguments, whatever the '
                             f'colour policy or terminal state at that time', f.loc)
    rep.add({'containers_and_memos_examined': n})
    return rep


RULES = [r1_tables, r2_gating, r3_inclusion, r4_apply, r5_style_last, r6_gating_policy, r7_no_rendering_memory, r8_no_shared_rendering_state]
