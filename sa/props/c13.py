"""C13 - pretty-printed grammars recompile to the same parser (structural clauses)."""
from __future__ import annotations

import ast
import re
import textwrap

from ..loader import AnalysisError, dotted, norm, walk_no_defs
from ..minieval import Unsupported
from ..modelinterp import Bound, Hook, ModelInterp, Stub
from ..pegir import FrontEndError, _P, _scan, canon, grammar_lexicon, parse_ebnf
from ..report import RuleReport
from ..rules.common import rule_chain
from ..rules.leftrec import B, Q

LEVEL = 'other'
TECHNIQUE = ('static: printer exhaustiveness over the class table; per-node round trip pretty -> checker\'s EBNF reader -> PEG IR, '
             'with every _pretty method interpreted on stand-in nodes (symbol/quoting agreement between the printers and the grammar '
             'language); interpretation of Rule._pretty and Grammar._pretty against "nothing that affects parsing is dropped"; unit discipline (display width) in the railroad layout; R-CHAIN')
LEVEL_TEXT = ('Decides from the source, for every node class at once: each concrete model class has its own printer; the text each '
              'printer produces for a stand-in node (tokens with quotes and backslashes, patterns with slashes, every operator '
              'symbol, names, alerts, constants, includes, joins) is read back by an independent reader of the grammar language to '
              'the same PEG expression; a rule\'s printed header keeps the decorators that affect parsing, its parameters and base; a '
              'grammar\'s printed preamble keeps every directive and every keyword (also when the keyword list wraps). The fixpoint '
              'of whole grammars and railroad track widths are not decided.')
TECHNIQUE += '; systematic compositions (every wrapper node around every leaf kind, multi-line constants) read back; typed rule parameters, based rules with parameters and regex-valued/None-valued directives in the preamble'
LEVEL_TEXT += ' Added clauses: parentheses are kept wherever the grouped expression is not an atom of the grammar language; parameter values re-read with their type; `name(params) < Base` header order; None-valued regex directives print as an empty regex; railroad rows are measured in display width.'
TECHNIQUE += '; models built by the g2e ANTLR actions (interpreted, composed as antlr.tatsu composes them) print to text the reader reads back as the tree that was built'
LEVEL_TEXT += ' Added clause: ANTLR-translated models keep operator/operand binding when printed (name=~x, ~~x, ~( a | b )).'
LEVEL_TEXT += ' Added clauses (rounds 9-11): railroad rendering completes with one display width per drawing for every node kind and header form of the domain; constant-like and path-like string parameters are quoted where the grammar needs it; multi-line leaves under indenting wrappers; the stored order of overriding rules (known finding).'
TECHNIQUE += '; every join kind over multi-line operands'
TECHNIQUE += "; blanks and tabs in patterns and regex directives; printers interpreted with the repository's trim()"
TECHNIQUE += '; definition order of overriding rules (R7, GrammarSemantics.rule interpreted on a scripted sequence of definitions); multi-line leaves under every indenting wrapper; string parameters spelled like the constants of the grammar language; the railroad walker and railmath interpreted on stand-in models: completes, one display width per drawing (C13.R6)'
LEVEL_NOTE = ('Trusted: the checker\'s reader of the grammar language (validated on every run by C15: it reads tatsu/_tatsu.ebnf to the '
              'same IR as the shipped generated parser).')
EXPLANATION = ('Static analysis of /repo sources, TatSu not imported. _pretty methods are interpreted by the whitelisted evaluator on '
               'checker-built stand-in nodes; the printed text is parsed by sa/pegir.py and compared with the IR of the stand-in.')
ASSUMPTIONS = [LEVEL_NOTE]

MODEL = 'tatsu.peg.base.Model'
ABSTRACT = {'Model', 'Leaf', 'Box', 'NamedBox', 'Synth', 'Patterns', 'Meta', 'Option'}


def r_chain(a, tier):
    return rule_chain(a, 'C13.R-CHAIN')


def _trim(text, *args, **kw):
    return textwrap.dedent(str(text)).strip('\n') if '\n' in str(text) else str(text).strip()


def _indent(text, indent=1, multiplier=4):
    return '\n'.join((' ' * multiplier * indent + t).rstrip() for t in str(text).splitlines())


def _interp(a):
    # trim() is the repository's own (interpreted): the printers' treatment of blanks and tabs is theirs
    return ModelInterp(a, {'indent': Hook(_indent), 'regexpp': Hook(lambda x: 'r' + repr(str(x))),
                           'typename': Hook(lambda o: o._cls.split('.')[-1] if isinstance(o, Stub) else type(o).__name__)})


def _pretty(a, node: Stub, lean=False) -> str:
    it = _interp(a)
    return it.apply(it.get_attr(node, '_pretty'), [], {'lean': lean})


def r1_printers(a, tier):
    rep = RuleReport(
        'C13.R1',
        'printers are exhaustive: every concrete grammar-model class resolves _pretty (through the static MRO) to a method other '
        'than Model._pretty, which prints the class name and an object id (not a grammar)',
        floor=40,
    )
    for c in sorted(a.ct.subclasses(MODEL)):
        short = c.split('.')[-1]
        m = a.ct.lookup(c, '_pretty')
        owner = m.cls.qualname.split('.')[-1] if m and m.cls else None
        rep.add({'class': short, '_pretty_defined_by': owner})
        if short in ABSTRACT:
            continue
        if owner == 'Model':
            rep.fail(c, 'no-printer', f'{short} inherits Model._pretty: a grammar containing this node prints as "{short}: <id>", which '
                     f'does not compile', a.p.classes[c].loc)
    return rep


_LEX: dict = {}


def _lexicon(a):
    if 'lex' not in _LEX:
        try:
            g = parse_ebnf((a.p.root / 'tatsu' / '_tatsu.ebnf').read_text(encoding='utf-8'))
            _LEX['lex'] = grammar_lexicon(g)
        except FrontEndError as e:
            raise AnalysisError(f'cannot read the lexical rules of tatsu/_tatsu.ebnf: {e}') from e
    return _LEX['lex']


def _read_expr(text: str, lex=None):
    toks = _scan(text, lex)
    p = _P(toks, set())
    e = p.expre()
    if not p.at('end'):
        raise FrontEndError(f'trailing tokens {p.t[p.i:p.i + 3]}')
    return e


def r2_roundtrip(a, tier):
    rep = RuleReport(
        'C13.R2',
        'symbol and quoting agreement: for a stand-in node of every expression class, the text its _pretty method produces '
        '(interpreted) is read by the checker\'s reader of the TatSu grammar language back to the same PEG expression: every '
        'operator symbol the printers emit is one the grammar language defines, tokens/patterns/constants are quoted so that they '
        'survive, names and separators are kept; every wrapper (name=, name+=, =, &, !, ->, join/gather separator, sequence element, [ ], '
        '{ }, { }+, (?: ), join element) over every operand kind the language allows there (atoms and parenthesised groups of a rule '
        'include, cut, void, token, sequence, choice, optional) reads back as the same expression',
        floor=150,
    )
    b = B(a)
    PEG = 'tatsu.peg'
    T = lambda s='t': Stub(Q['Token'], token=s)  # noqa: E731
    C = lambda n='r': Stub(Q['Call'], name=n)  # noqa: E731
    seq = lambda *xs: Stub(Q['Sequence'], sequence=list(xs))  # noqa: E731
    cases = [
        ('Token plain', T('abc'), ('tok', 'abc')),
        ('Token with single quote', T("it's"), ('tok', "it's")),
        ('Token with double quote', T('say "x"'), ('tok', 'say "x"')),
        ('Token with both quotes', T('a\'b"c'), ('tok', 'a\'b"c')),
        ('Token with backslash', T('a\\b'), ('tok', 'a\\b')),
        ('Token with newline escape', T('a\nb'), ('tok', 'a\nb')),
        ('Pattern plain', Stub(Q['Pattern'], pattern=r'\d+'), ('pat', r'\d+')),
        ('Pattern with slash', Stub(Q['Pattern'], pattern=r'a/b'), ('pat', r'a/b')),
        ('Pattern of one dot (/./ is the any-character atom, which does not skip whitespace)', Stub(Q['Pattern'], pattern='.'), ('pat', '.')),
        ('Pattern with an escaped slash', Stub(Q['Pattern'], pattern=r'a\/b'), ('pat', r'a\/b')),
        ('Pattern with an escaped backslash before a slash', Stub(Q['Pattern'], pattern=r'[\\/]'), ('pat', r'[\\/]')),
        ('Pattern with escaped backslash, slash, escaped slash', Stub(Q['Pattern'], pattern=r'x\\/y\/z'), ('pat', r'x\\/y\/z')),
        ('Pattern beginning with a blank', Stub(Q['Pattern'], pattern=' a'), ('pat', ' a')),
        ('Pattern ending with a blank', Stub(Q['Pattern'], pattern='a +'[:2] + ' '), ('pat', 'a  ')),
        ('Pattern holding a literal tab', Stub(Q['Pattern'], pattern='a\tb'), ('pat', 'a\tb')),
        ('Pattern with slash and double quote', Stub(Q['Pattern'], pattern=r'a/"b'), ('pat', r'a/"b')),
        ('Call', C('expr'), ('call', 'expr')),
        ('Dot', Stub(Q['Dot']), ('dot',)),
        ('Fail', Stub(Q['Fail']), ('fail',)),
        ('Void', Stub(Q['Void']), ('void',)),
        ('Cut', Stub(Q['Cut']), ('cut',)),
        ('EOF', Stub(Q['EOF']), ('eof',)),
        ('EOL', Stub(f'{PEG}.basic.EOL'), ('eol',)),
        ('EmptyClosure', Stub(Q['EmptyClosure']), ('eclo',)),
        ('Constant', Stub(Q['Constant'], literal='x + 1'), ('const', 'x + 1')),
        ('Alert', Stub(Q['Alert'], literal='msg', level=2), ('alert', 2, 'msg')),
        ('Constant over two lines', Stub(Q['Constant'], literal='a\nb'), ('const', 'a\nb')),
        ('NameMeta', Stub(f'{PEG}.meta.NameMeta'), ('meta', 'name')),
        ('IntMeta', Stub(f'{PEG}.meta.IntMeta'), ('meta', 'int')),
        ('UIntMeta', Stub(f'{PEG}.meta.UIntMeta'), ('meta', 'uint')),
        ('FloatMeta', Stub(f'{PEG}.meta.FloatMeta'), ('meta', 'float')),
        ('BoolMeta', Stub(f'{PEG}.meta.BoolMeta'), ('meta', 'bool')),
        ('RuleInclude', Stub(Q['RuleInclude'], name='base', _exp=None), ('include', 'base')),
        ('Group', b.box('Group', seq(T('a'), T('b'))), ('group', ('seq', (('tok', 'a'), ('tok', 'b'))))),
        ('SkipGroup', b.box('SkipGroup', T('a')), ('skipgroup', ('tok', 'a'))),
        ('Optional', b.box('Optional', T('a')), ('opt', ('tok', 'a'))),
        ('Closure', b.box('Closure', T('a')), ('clo', ('tok', 'a'))),
        ('PositiveClosure', b.box('PositiveClosure', T('a')), ('pclo', ('tok', 'a'))),
        ('Lookahead', b.box('Lookahead', T('a')), ('la', ('tok', 'a'))),
        ('NegativeLookahead', b.box('NegativeLookahead', T('a')), ('nla', ('tok', 'a'))),
        ('SkipTo', b.box('SkipTo', T('a')), ('skipto', ('tok', 'a'))),
        ('Join', b.join('Join', T('a'), T(',')), ('join', ('tok', ','), ('tok', 'a'))),
        ('PositiveJoin', b.join('PositiveJoin', T('a'), T(',')), ('pjoin', ('tok', ','), ('tok', 'a'))),
        ('Gather', b.join('Gather', T('a'), T(',')), ('gather', ('tok', ','), ('tok', 'a'))),
        ('PositiveGather', b.join('PositiveGather', T('a'), T(',')), ('pgather', ('tok', ','), ('tok', 'a'))),
        ('LeftJoin', Stub(f'{PEG}.deprecated.LeftJoin', exp=T('a'), sep=T('+')), ('ljoin', ('tok', '+'), ('tok', 'a'))),
        ('RightJoin', Stub(f'{PEG}.deprecated.RightJoin', exp=T('a'), sep=T('^')), ('rjoin', ('tok', '^'), ('tok', 'a'))),
        ('Named', b.box('Named', T('a'), name='n'), ('named', 'n', ('tok', 'a'))),
        ('NamedList', b.box('NamedList', T('a'), name='n'), ('namedlist', 'n', ('tok', 'a'))),
        ('Override', b.box('Override', T('a')), ('over', ('tok', 'a'))),
        ('OverrideList', b.box('OverrideList', T('a')), ('overlist', ('tok', 'a'))),
        ('Sequence', seq(T('a'), C('b'), b.box('Optional', T('c'))), ('seq', (('tok', 'a'), ('call', 'b'), ('opt', ('tok', 'c'))))),
        ('Choice', Stub(Q['Choice'], options=[Stub(Q['Option'], exp=seq(T('a'), T('b'))), Stub(Q['Option'], exp=T('c'))]),
         ('choice', (('seq', (('tok', 'a'), ('tok', 'b'))), ('tok', 'c')))),
        ('Join with a grouped separator', b.join('Join', T('a'), b.box('Group', Stub(Q['Choice'], options=[Stub(Q['Option'], exp=T(',')), Stub(Q['Option'], exp=T(';'))]))),
         ('join', ('choice', (('tok', ','), ('tok', ';'))), ('tok', 'a'))),
        ('Closure over a choice', b.box('Closure', Stub(Q['Choice'], options=[Stub(Q['Option'], exp=T('a')), Stub(Q['Option'], exp=T('b'))])),
         ('clo', ('choice', (('tok', 'a'), ('tok', 'b'))))),
    ]
    # compositions: every wrapper over every operand the grammar language can put there (an atom or a parenthesised group
    # where the language wants a term, anything inside brackets)
    def G(x):
        return b.box('Group', x)
    WIDE = ['alternative_number_one', 'alternative_number_two', 'alternative_number_three']
    atoms = [
        ('token', lambda: T('a'), ('tok', 'a')), ('pattern', lambda: Stub(Q['Pattern'], pattern='x+'), ('pat', 'x+')),
        ('call', lambda: C('r'), ('call', 'r')), ('constant', lambda: Stub(Q['Constant'], literal='k'), ('const', 'k')),
        ('group of a rule include', lambda: G(Stub(Q['RuleInclude'], name='base', _exp=None)), ('include', 'base')),
        ('group of a cut', lambda: G(Stub(Q['Cut'])), ('cut',)), ('group of void', lambda: G(Stub(Q['Void'])), ('void',)),
        ('group of a token', lambda: G(T('a')), ('tok', 'a')),
        ('group of a sequence', lambda: G(seq(T('a'), C('r'))), ('seq', (('tok', 'a'), ('call', 'r')))),
        ('group of a choice', lambda: G(Stub(Q['Choice'], options=[Stub(Q['Option'], exp=T('a')), Stub(Q['Option'], exp=T('b'))])),
         ('choice', (('tok', 'a'), ('tok', 'b')))),
        ('group of an optional', lambda: G(b.box('Optional', T('a'))), ('opt', ('tok', 'a'))),
        # operands that print on SEVERAL lines: the multi-line branch of every wrapper
        ('group of a wide choice', lambda: G(Stub(Q['Choice'], options=[Stub(Q['Option'], exp=T(w)) for w in WIDE])),
         ('choice', tuple(('tok', w) for w in WIDE))),
        ('group of a wide sequence', lambda: G(seq(*[T(w) for w in WIDE + WIDE])), ('seq', tuple(('tok', w) for w in WIDE + WIDE))),
        # leaves whose own text spans lines: a wrapper that indents the lines of a multi-line child must not indent INTO the leaf
        ('constant over two lines', lambda: Stub(Q['Constant'], literal='one\ntwo'), ('const', 'one\ntwo')),
        ('group of a wide choice ending in a constant over two lines', lambda: G(Stub(Q['Choice'], options=[Stub(Q['Option'], exp=T(w)) for w in WIDE] + [
            Stub(Q['Option'], exp=Stub(Q['Constant'], literal='one\ntwo'))])), ('choice', tuple(('tok', w) for w in WIDE) + (('const', 'one\ntwo'),))),
    ]
    term_wrappers = [
        ('name=', lambda x: b.box('Named', x, name='n'), lambda i: ('named', 'n', i)),
        ('name+=', lambda x: b.box('NamedList', x, name='n'), lambda i: ('namedlist', 'n', i)),
        ('=', lambda x: b.box('Override', x), lambda i: ('over', i)),
        ('&', lambda x: b.box('Lookahead', x), lambda i: ('la', i)),
        ('!', lambda x: b.box('NegativeLookahead', x), lambda i: ('nla', i)),
        ('->', lambda x: b.box('SkipTo', x), lambda i: ('skipto', i)),
        ('separator of a join', lambda x: b.join('Join', T('e'), x), lambda i: ('join', i, ('tok', 'e'))),
        ('separator of a gather', lambda x: b.join('Gather', T('e'), x), lambda i: ('gather', i, ('tok', 'e'))),
        ('element of a sequence', lambda x: seq(T('p'), x, T('q')), lambda i: ('seq', (('tok', 'p'), i, ('tok', 'q')))),
    ]
    bracket_wrappers = [
        ('[ ]', lambda x: b.box('Optional', x), lambda i: ('opt', i)), ('{ }', lambda x: b.box('Closure', x), lambda i: ('clo', i)),
        ('{ }+', lambda x: b.box('PositiveClosure', x), lambda i: ('pclo', i)), ('(?: )', lambda x: b.box('SkipGroup', x), lambda i: ('skipgroup', i)),
        ('element of a join', lambda x: b.join('Join', x, T(',')), lambda i: ('join', ('tok', ','), i)),
        ('element of a positive join', lambda x: b.join('PositiveJoin', x, T(',')), lambda i: ('pjoin', ('tok', ','), i)),
        ('element of a gather', lambda x: b.join('Gather', x, T(',')), lambda i: ('gather', ('tok', ','), i)),
        ('element of a positive gather', lambda x: b.join('PositiveGather', x, T(',')), lambda i: ('pgather', ('tok', ','), i)),
        ('element of a left join', lambda x: Stub(f'{PEG}.deprecated.LeftJoin', exp=x, sep=T('+')), lambda i: ('ljoin', ('tok', '+'), i)),
        ('element of a right join', lambda x: Stub(f'{PEG}.deprecated.RightJoin', exp=x, sep=T('^')), lambda i: ('rjoin', ('tok', '^'), i)),
    ]
    for wname, wmk, wir in term_wrappers + bracket_wrappers:
        for aname, amk, air in atoms:
            cases.append((f'{wname} over {aname}', wmk(amk()), wir(air)))
    for what, node, want in cases:
        cls = node._cls
        try:
            text = _pretty(a, node)
        except Unsupported as e:
            raise AnalysisError(f'cannot interpret {cls.split(".")[-1]}._pretty ({what}): {e}') from e
        try:
            got = canon(_read_expr(str(text), _lexicon(a)))
            err = None
        except FrontEndError as e:
            got, err = None, str(e)
        ok = got == canon(want)
        rep.add({'node': what, 'printed': text, 'reads_back_as': repr(got)[:90] if got else err, 'ok': ok})
        if not ok:
            m = a.ct.lookup(cls, '_pretty')
            rep.fail(m.qualname if m else cls, f'roundtrip:{what}',
                     f'{what}: printed as `{text}`, ' + (f'which the grammar language cannot read ({err})' if err else
                                                        f'which reads back as {got}, not as {canon(want)}')
                     + ': a pretty-printed grammar containing this node does not recompile to the same parser', m.loc if m else '')
    return rep


def _walk_ir(t):
    if isinstance(t, tuple):
        yield t
        for x in t:
            yield from _walk_ir(x)


def r3_nothing_dropped(a, tier):
    rep = RuleReport(
        'C13.R3',
        'nothing that affects parsing is dropped: Rule._pretty (interpreted) prints @name for is_name rules and @nomemo for no_memo '
        'rules, the parameters, keyword parameters and base rule, in a header the grammar language reads back; Grammar._pretty '
        '(interpreted) prints every directive and every keyword - also when the keyword list is long enough to wrap',
        floor=6,
    )
    b = B(a)
    tok = Stub(Q['Token'], token='x')
    rule_cases = [
        dict(name='plain', params=(), kwparams={}, base=None, is_name=False, no_memo=False),
        dict(name='ident', params=(), kwparams={}, base=None, is_name=True, no_memo=False),
        dict(name='fresh', params=(), kwparams={}, base=None, is_name=False, no_memo=True),
        dict(name='typed', params=('Node', 'Other'), kwparams={'k': 'v'}, base=None, is_name=True, no_memo=True),
        dict(name='derived', params=(), kwparams={}, base='basic', is_name=False, no_memo=False),
        dict(name='derivedtyped', params=('Node',), kwparams={}, base='basic', is_name=False, no_memo=False),
        dict(name='strparams', params=('123', 'True'), kwparams={'k': '7'}, base=None, is_name=False, no_memo=False),
        dict(name='mixed', params=(123, 'abc'), kwparams={}, base=None, is_name=False, no_memo=False),
        # strings that are spelled like the constants of the grammar language's `value` rule (its JSON-like literals)
        dict(name='jsonwords', params=('true', 'false', 'null'), kwparams={'k': 'true', 'n': 'null'}, base=None, is_name=False, no_memo=False),
        dict(name='constants', params=(True, None, 1.5), kwparams={'k': False}, base=None, is_name=False, no_memo=False),
        # a::b paths: bare only as the first parameter, a string everywhere else
        dict(name='paths', params=('Base::Derived', 'ns::Other'), kwparams={'base': 'ns::Leaf'}, base=None, is_name=False, no_memo=False),
        # a rule that was written with @override: the model holds only the final definition, so the printed text has nothing to override
        dict(name='redefined', params=(), kwparams={}, base=None, is_name=True, no_memo=False, decorators=['override', 'name']),
    ]
    rp = a.p.func('tatsu.peg.base.Rule._pretty')
    # the reader's table of constant words is the grammar file's: `true: 'true'`, `false: 'false'`, `null: 'null'`, boolean, none
    from ..pegir import PARAM_CONSTANTS
    ebnf = parse_ebnf((a.p.root / 'tatsu' / '_tatsu.ebnf').read_text(encoding='utf-8'))
    words = set()
    for rn in ('true', 'false', 'null', 'boolean', 'none'):
        r_ = ebnf.rules.get(rn)
        if r_ is not None:
            words |= {t[1] for t in _walk_ir(r_.exp) if isinstance(t, tuple) and t and t[0] == 'tok'}
    calls_of = lambda rn: {t[1] for t in _walk_ir(ebnf.rules[rn].exp) if isinstance(t, tuple) and t and t[0] == 'call'} if rn in ebnf.rules else set()  # noqa: E731
    if not ('path' in calls_of('first_param') and 'path' not in calls_of('literal') and 'first_param' in calls_of('params') and 'literal' in calls_of('pair')):
        raise AnalysisError('C13.R3: _tatsu.ebnf no longer reads a bare a::b path as the first positional parameter only (update the reader of rule headers)')
    if words != set(PARAM_CONSTANTS):
        raise AnalysisError(f'C13.R3: the constant words of the grammar language are {sorted(words)} in _tatsu.ebnf, the reader knows {sorted(PARAM_CONSTANTS)}')
    for c in rule_cases:
        rule = Stub(Q['Rule'], exp=tok, **{'decorators': [], **c}, no_stak=False, is_tokn=False, is_memo=True, is_lrec=False)
        it = _interp(a)
        it.globals['param_repr'] = None
        try:
            text = str(it.call_bound(Bound(rule, rp), [], {'lean': False}))
        except Unsupported as e:
            raise AnalysisError(f'cannot interpret Rule._pretty: {e}') from e
        try:
            g = parse_ebnf(text + '\n')
            r = g.rules.get(c['name'])
            err = None if r else 'rule not found in the printed text'
        except FrontEndError as e:
            r, err = None, str(e)
        ok = r is not None
        problems = []
        if r is not None:
            if ('name' in r.decorators or 'isname' in r.decorators) != c['is_name']:
                problems.append(f'@name {"lost" if c["is_name"] else "invented"}')
            if ('nomemo' in r.decorators) != c['no_memo']:
                problems.append(f'@nomemo {"lost" if c["no_memo"] else "invented"}')
            if tuple(r.params) != tuple(c['params']) or [type(x) for x in r.params] != [type(x) for x in c['params']]:
                problems.append(f'params {list(r.params)} != {list(c["params"])}')
            if dict(r.kwparams) != dict(c['kwparams']) or [type(v) for v in dict(r.kwparams).values()] != [type(v) for v in c['kwparams'].values()]:
                problems.append(f'kwparams {dict(r.kwparams)} != {c["kwparams"]}')
            if (r.base or None) != c['base']:
                problems.append(f'base {r.base} != {c["base"]}')
            if canon(r.exp) != ('tok', 'x'):
                problems.append(f'body {r.exp}')
            if 'override' in r.decorators:
                problems.append('@override printed: the text redefines a rule it never defines ("rule not yet defined" when it is compiled)')
        rep.add({'rule': c, 'printed': text, 'problems': problems or err})
        if err or problems:
            rep.fail(rp.qualname, f'rule-header:{c["name"]}', f'rule {c} is printed as `{text}`: ' + (err or '; '.join(problems)), rp.loc)
    # grammar preamble
    gp = a.p.func('tatsu.peg.base.Grammar._pretty')
    kws = tuple(f'keyword{i:02d}' for i in range(24)) + ('if', "o'clock")
    directives = {'grammar': 'Demo', 'comments': r'\(\*.*?\*\)', 'eol_comments': r'#.*?$', 'whitespace': r'[\t ]+', 'namechars': '-$',
                  'nameguard': False, 'ignorecase': True, 'left_recursion': False, 'parseinfo': True}
    rule = Stub(Q['Rule'], exp=tok, name='start', params=(), kwparams={}, base=None, is_name=False, no_memo=False, decorators=[])
    g = Stub('tatsu.peg.base.Grammar', directives=directives, keywords=kws, rules=(rule,), name='Demo')
    it = _interp(a)
    try:
        text = str(it.call_bound(Bound(g, gp), [], {'lean': False}))
    except Unsupported as e:
        raise AnalysisError(f'cannot interpret Grammar._pretty: {e}') from e
    try:
        back = parse_ebnf(text)
        err = None
    except FrontEndError as e:
        back, err = None, str(e)
    if err:
        rep.fail(gp.qualname, 'preamble-unreadable', f'the printed preamble cannot be read back: {err}', gp.loc)
    else:
        missing_kw = sorted(set(kws) - set(back.keywords))
        extra_kw = sorted(set(back.keywords) - set(kws))
        rep.add({'keywords_given': len(kws), 'keywords_printed': len(back.keywords), 'missing': missing_kw, 'invented': extra_kw})
        if missing_kw or extra_kw:
            rep.fail(gp.qualname, 'keywords-dropped', f'of {len(kws)} keywords {len(missing_kw)} are missing from the printed grammar '
                     f'({missing_kw[:4]}...) and {extra_kw[:3]} appear instead: the recompiled grammar accepts reserved words the '
                     f'original rejects (the loss happens where the @@keyword line wraps)', gp.loc)
        for k, v in directives.items():
            bv = back.directives.get(k, '<absent>')
            ok = bv == v or str(bv) == str(v)
            rep.add({'directive': k, 'given': v, 'printed_reads_as': bv, 'ok': ok})
            if not ok:
                rep.fail(gp.qualname, f'directive:{k}', f'directive @@{k} :: {v!r} is printed so that it reads back as {bv!r}', gp.loc)
    # a directive that switches whitespace skipping off (stored as '' or None) must print, and read back as "off"
    for what, ws in (("whitespace '' (from @@whitespace :: None)", ''), ('whitespace None', None)):
        g2 = Stub('tatsu.peg.base.Grammar', directives={'whitespace': ws}, keywords=(), rules=(rule,), name='Demo')
        it = _interp(a)
        try:
            text = str(it.call_bound(Bound(g2, gp), [], {'lean': False}))
            err = None
        except Unsupported as e:
            raise AnalysisError(f'cannot interpret Grammar._pretty: {e}') from e
        except Exception as e:  # noqa: BLE001 - an exception of the interpreted printer
            text, err = None, f'raises {type(e).__name__}: {e}'
        if err is None:
            try:
                back = parse_ebnf(text)
                bv = back.directives.get('whitespace', '<absent>')
                if bv not in ('', None, 'None'):
                    err = f'prints `{text.splitlines()[0] if text else ""}`, which reads back as whitespace={bv!r}'
            except FrontEndError as e:
                err = f'prints text the grammar language cannot read: {e}'
        rep.add({'preamble': what, 'problem': err})
        if err:
            rep.fail(gp.qualname, f'preamble:{what}', f'Grammar._pretty for a grammar with {what} {err}: pretty-printing such a model fails '
                     f'or changes its whitespace handling', gp.loc)
    # whitespace INSIDE a regex directive is part of the regex: a pattern that begins or ends with a blank, or holds a literal tab
    for dname, value in (('whitespace', ' '), ('whitespace', ';? '), ('whitespace', ' +'), ('comments', '#[^ ]* '), ('eol_comments', '\t#.*'), ('whitespace', 'a b')):
        g3 = Stub('tatsu.peg.base.Grammar', directives={dname: value}, keywords=(), rules=(rule,), name='Demo')
        try:
            text = str(_interp(a).call_bound(Bound(g3, gp), [], {'lean': False}))
        except Unsupported as e:
            raise AnalysisError(f'cannot interpret Grammar._pretty: {e}') from e
        try:
            bv = parse_ebnf(text).directives.get(dname, '<absent>')
        except FrontEndError as e:
            bv = f'<unreadable: {e}>'
        ok = bv == value
        rep.add({'directive': dname, 'given': value, 'printed_reads_as': bv, 'ok': ok})
        if not ok:
            rep.fail(gp.qualname, f'directive-blanks:{dname}:{value!r}', f'directive @@{dname} :: /{value}/ (blanks and tabs are part of the pattern) is printed so that it reads back '
                     f'as {bv!r}: the recompiled grammar skips other text than the model', gp.loc)
    return rep


def r4_display_width(a, tier):
    rep = RuleReport(
        'C13.R4',
        'tracks of consistent width: in tatsu/railroads the width of a row (one str of a block of rails) is always taken with the '
        'display-width function ulen, never with len - len() is applied only to blocks (their height), to constants used for '
        'slicing, and to pattern texts; rows are the elements (index or loop variable) of anything typed Rails / list[str], inferred '
        'from annotations, list displays and calls of functions returning Rails',
        floor=8,
    )
    mods = [m for m in a.p.modules.values() if m.name.startswith('tatsu.railroads.') and m.name.split('.')[-1] in ('railmath', 'walker')]
    if len(mods) < 2:
        raise AnalysisError('tatsu.railroads.railmath / walker not found')
    rails_ann = ('Rails', 'list[str]')
    returns_rails = {f.name for m in mods for f in a.p.functions.values() if f.module is m and f.node.returns is not None
                     and norm(f.node.returns) in rails_ann}
    n_ulen = 0
    for m in mods:
        for f in [f for f in a.p.functions.values() if f.module is m]:
            rails_vars = {x.arg for x in ast.walk(f.node.args) if isinstance(x, ast.arg) and x.annotation is not None
                          and (norm(x.annotation) in rails_ann)}
            star_rails = {f.node.args.vararg.arg} if f.node.args.vararg is not None and f.node.args.vararg.annotation is not None \
                and norm(f.node.args.vararg.annotation) in rails_ann else set()

            def is_rails(e) -> bool:
                if isinstance(e, ast.Name):
                    return e.id in rails_vars
                if isinstance(e, ast.Subscript):
                    if isinstance(e.slice, ast.Slice):
                        return is_rails(e.value)
                    return isinstance(e.value, ast.Name) and e.value.id in star_rails
                if isinstance(e, (ast.List, ast.ListComp)):
                    return True
                if isinstance(e, ast.BinOp) and isinstance(e.op, (ast.Add, ast.Mult)):
                    return is_rails(e.left) or is_rails(e.right)
                if isinstance(e, ast.Call):
                    return dotted(e.func).split('.')[-1] in returns_rails or (dotted(e.func) in ('list', 'reversed') and e.args and is_rails(e.args[0]))
                return False
            changed = True
            while changed:
                changed = False
                for n in walk_no_defs(f.node):
                    tg = None
                    if isinstance(n, ast.Assign) and len(n.targets) == 1 and isinstance(n.targets[0], ast.Name):
                        tg, v = n.targets[0].id, n.value
                    elif isinstance(n, ast.AugAssign) and isinstance(n.target, ast.Name):
                        tg, v = n.target.id, n.value
                    elif isinstance(n, ast.AnnAssign) and isinstance(n.target, ast.Name) and norm(n.annotation) in rails_ann:
                        tg, v = n.target.id, ast.List(elts=[])
                    if tg and tg not in rails_vars and v is not None and is_rails(v):
                        rails_vars.add(tg)
                        changed = True
            rows: set[str] = set()
            for n in walk_no_defs(f.node):
                its = []
                if isinstance(n, (ast.For, ast.comprehension)):
                    its = [(n.target, n.iter)]
                for tgt, it in its:
                    srcs = [it]
                    if isinstance(it, ast.Call) and dotted(it.func) in ('zip', 'enumerate', 'reversed'):
                        srcs = list(it.args)
                    names = [x for x in ast.walk(tgt) if isinstance(x, ast.Name)]
                    if isinstance(it, ast.Call) and dotted(it.func) == 'zip' and isinstance(tgt, ast.Tuple):
                        for t_, s_ in zip(tgt.elts, it.args):
                            if isinstance(t_, ast.Name) and is_rails(s_):
                                rows.add(t_.id)
                    elif isinstance(it, ast.Call) and dotted(it.func) == 'enumerate' and isinstance(tgt, ast.Tuple) and len(tgt.elts) == 2:
                        if isinstance(tgt.elts[1], ast.Name) and it.args and is_rails(it.args[0]):
                            rows.add(tgt.elts[1].id)
                    elif any(is_rails(s_) for s_ in srcs) and len(names) == 1 and isinstance(tgt, ast.Name):
                        rows.add(tgt.id)

            def is_row(e) -> bool:
                if isinstance(e, ast.Name):
                    return e.id in rows
                return isinstance(e, ast.Subscript) and not isinstance(e.slice, ast.Slice) and is_rails(e.value)
            for n in walk_no_defs(f.node):
                if isinstance(n, ast.Call) and isinstance(n.func, ast.Name) and n.args:
                    if n.func.id == 'ulen':
                        n_ulen += 1
                        rep.add({'function': f.qualname, 'width_of': norm(n.args[0]), 'with': 'ulen'})
                    elif n.func.id == 'len' and is_row(n.args[0]):
                        rep.add({'function': f.qualname, 'width_of': norm(n.args[0]), 'with': 'len'})
                        rep.fail(f.qualname, f'len-of-row:{norm(n.args[0])}', f'`{norm(n)}` measures a row of rails in code points; rows are padded '
                                 f'and compared by display width (ulen): with an East Asian wide or fullwidth character in that row the '
                                 f'filler is too short and the tracks no longer have one width (assert_one_length fails / ragged output)',
                                 f'{f.module.relpath}:{n.lineno}')
    return rep


def r5_antlr_models(a, tier):
    from ..minieval import Obj
    from .c01_optimizer import ir as stub_ir
    rep = RuleReport(
        'C13.R5',
        'models translated from ANTLR print to text that reads back as the same expression: the operator actions of '
        'g2e.ANTLRSemantics (subexp, negative, optional, closure, positive_closure, named, elements, alternatives), interpreted on '
        'stand-in operands and composed the way tatsu/g2e/antlr.tatsu composes them (an atom is a terminal, a call, a parenthesised '
        'sub-expression or ~atom; name=atom, atom?, atom*, atom+; sequences of elements; alternatives), build model trees whose '
        '_pretty text (interpreted) is read by the checker\'s reader of the grammar language back to the tree that was built: no '
        'operator ends up binding a different operand in the printed text than in the model',
        floor=60,
    )
    SEM = 'tatsu.g2e.semantics.ANTLRSemantics'
    a.p.cls(SEM)
    fields = {'Pattern': ['pattern'], 'Token': ['token'], 'Call': ['name'], 'Group': ['exp'], 'Grammar': ['name', 'rules']}

    def mk(kind):
        q = Q.get(kind) or f'tatsu.peg.{kind}'

        def build(*args, **kw):
            for n, v in zip(fields.get(kind, ['exp']), args):
                kw[n] = v
            return Stub(q, **kw)
        return Hook(build, q=q)
    kinds = ['Group', 'Optional', 'Closure', 'PositiveClosure', 'NegativeLookahead', 'Lookahead', 'Pattern', 'Sequence', 'Choice', 'Option',
             'Named', 'NamedList', 'Token', 'Call', 'Void', 'EOF', 'Fail', 'SkipTo', 'Override']
    g = Hook(None, **{k: mk(k) for k in kinds})
    sem = Stub(SEM, name='T', tokens={}, token_rules={}, synthetic_rules=[])

    def act(name, arg):
        it = ModelInterp(a, {'g': g})
        try:
            return it.apply(it.get_attr(sem, name), [arg], {})
        except Unsupported as e:
            raise AnalysisError(f'C13.R5: cannot interpret ANTLRSemantics.{name}: {e}') from e
    T = lambda s: Stub(Q['Token'], token=s)  # noqa: E731
    terminals = [('\'a\'', lambda: T('a')), ('r', lambda: Stub(Q['Call'], name='r'))]
    subexps = [
        ("('ab' | 'cd')", lambda: act('subexp', act('alternatives', Obj(options=[T('ab'), T('cd')])))),
        ("('a' r)", lambda: act('subexp', act('elements', [T('a'), Stub(Q['Call'], name='r')]))),
        ("('a')", lambda: act('subexp', T('a'))),
    ]
    atoms0 = terminals + subexps
    atoms1 = atoms0 + [(f'~{n}', (lambda mkx=mkx: act('negative', mkx()))) for n, mkx in atoms0]
    atoms = atoms1 + [(f'~{n}', (lambda mkx=mkx: act('negative', mkx()))) for n, mkx in atoms1[len(atoms0):]]
    elements = list(atoms)
    for n, mkx in atoms:
        elements.append((f'x={n}', lambda mkx=mkx: act('named', Obj(name='x', exp=mkx(), force_list=None))))
        elements.append((f'x+={n}', lambda mkx=mkx: act('named', Obj(name='x', exp=mkx(), force_list='+='))))
        elements.append((f'{n}?', lambda mkx=mkx: act('optional', mkx())))
        elements.append((f'{n}*', lambda mkx=mkx: act('closure', mkx())))
        elements.append((f'{n}+', lambda mkx=mkx: act('positive_closure', mkx())))
        elements.append((f'{n}*?', lambda mkx=mkx: act('optional', act('closure', mkx()))))
    cases = list(elements)
    picks = elements if tier == 'thorough' else elements[::3]
    for n, mkx in picks:
        cases.append((f"'p' {n} 'q'", lambda mkx=mkx: act('elements', [T('p'), mkx(), T('q')])))
        cases.append((f"'p' {n} | 'z'", lambda mkx=mkx: act('alternatives', Obj(options=[act('elements', [T('p'), mkx()]), T('z')]))))
        cases.append((f"~('p' {n} | 'z') 'q'", lambda mkx=mkx: act('elements', [act('negative', act('subexp', act('alternatives', Obj(
            options=[act('elements', [T('p'), mkx()]), T('z')])))), T('q')])))
    n_bad = 0
    for what, build in cases:
        node = build()
        if not isinstance(node, Stub):
            raise AnalysisError(f'C13.R5: the actions build {type(node).__name__} for {what}')
        want = canon(stub_ir(node))
        try:
            text = _pretty(a, node)
        except Unsupported as e:
            raise AnalysisError(f'C13.R5: cannot interpret the printers on the model of {what}: {e}') from e
        try:
            got, err = canon(_read_expr(str(text), _lexicon(a))), None
        except FrontEndError as e:
            got, err = None, str(e)
        ok = got == want
        rep.add({'antlr': what, 'printed': text, 'ok': ok})
        if not ok and n_bad < 8:
            n_bad += 1
            rep.fail(f'{SEM}', f'antlr:{what}', f'ANTLR `{what}` is translated to a model that prints as `{text}`, ' + (
                f'which the grammar language cannot read ({err})' if err else f'which reads back as {got}, not as the model built, {want}')
                + ': the pretty-printed translation does not recompile to the same parser', a.p.cls(SEM).loc)
    return rep


RAILS = 'tatsu.railroads.walker.RailroadNodeWalker'
PEG = 'tatsu.peg'


def _uwidth(s: str) -> int:
    import unicodedata
    return sum(1 + int(unicodedata.east_asian_width(c) in ('W', 'F')) for c in s)


def _railroad(a, node):
    """RailroadNodeWalker.walk(node), interpreted: dispatch by the repository's own _find_walker, layout by its own railmath"""
    import unicodedata

    from ..modelinterp import FuncRef
    from .c02 import _camel_to_snake
    fw = a.p.func('tatsu.walkers.NodeWalker._find_walker')
    it = ModelInterp(a, {'pythonize_name': Hook(_camel_to_snake), 'regexpp': Hook(lambda x: 'r' + repr(str(x))),
                         'unicodedata': Hook(None, east_asian_width=Hook(unicodedata.east_asian_width)),
                         're': Hook(None, sub=Hook(lambda p_, r_, s_, *f: re.sub(p_, r_, s_, *f))),
                         'typename': Hook(lambda o: o._cls.split('.')[-1] if isinstance(o, Stub) else type(o).__name__),
                         'join_lists': Hook(lambda *ls: [x for l_ in ls for x in l_])})
    me = Stub(RAILS, _walker_cache={})

    def walk(n, *args, **kw):
        if not isinstance(n, Stub):
            raise Unsupported(f'railroad walk of {type(n).__name__}')
        w = it.call_bound(Bound(me, fw), [n], {})
        if isinstance(w, FuncRef):
            return list(it.call_bound(Bound(me, w.fn), [n], {}))
        if w is None:
            return n
        return list(it.apply(w, [n], {}))
    me._attrs['walk'] = Hook(walk)
    return walk(node)


def r6_railroads(a, tier):
    from ..minieval import Raised
    rep = RuleReport(
        'C13.R6',
        'the railroad rendering of a model completes with tracks of one width: RailroadNodeWalker (dispatch through the repository\'s own '
        '_find_walker) and tatsu/railroads/railmath (weld, lay_out, loop, stopnloop, assert_one_length), interpreted on stand-in rules over '
        'every expression node of C13.R2, nested wrappers, wide (East Asian) tokens and rule headers with typed parameters / keyword '
        'parameters / base / decorators / left-recursion marks, return a non-empty list of strings whose display widths are all equal, and '
        'raise nothing',
        floor=60,
    )
    b = B(a)
    T = lambda s='t': Stub(Q['Token'], token=s)  # noqa: E731
    C = lambda n='r': Stub(Q['Call'], name=n)  # noqa: E731
    seq = lambda *xs: Stub(Q['Sequence'], sequence=list(xs))  # noqa: E731
    ch = lambda *xs: Stub(Q['Choice'], options=[Stub(Q['Option'], exp=x) for x in xs])  # noqa: E731
    leaves = {
        'token': lambda: T('abc'), 'wide token': lambda: T('日本語'), 'token with a quote': lambda: T("it's"), 'pattern': lambda: Stub(Q['Pattern'], pattern=r'\d+'),
        'long pattern': lambda: Stub(Q['Pattern'], pattern=r'[A-Za-z_][A-Za-z_0-9]*(?:\.[A-Za-z_]+)*'), 'pattern over two lines': lambda: Stub(Q['Pattern'], pattern='a\nb'),
        'call': lambda: C('expr'), 'dot': lambda: Stub(Q['Dot']), 'fail': lambda: Stub(Q['Fail']), 'void': lambda: Stub(Q['Void']), 'cut': lambda: Stub(Q['Cut']),
        'eof': lambda: Stub(Q['EOF']), 'eol': lambda: Stub(f'{PEG}.basic.EOL'), 'empty closure': lambda: Stub(Q['EmptyClosure']),
        'constant': lambda: Stub(Q['Constant'], literal='x + 1'), 'constant over two lines': lambda: Stub(Q['Constant'], literal='one\ntwo'),
        'alert': lambda: Stub(Q['Alert'], literal='msg', level=2), 'name meta': lambda: Stub(f'{PEG}.meta.NameMeta'), 'int meta': lambda: Stub(f'{PEG}.meta.IntMeta'),
        'rule include': lambda: Stub(Q['RuleInclude'], name='base', _exp=None),
    }
    wrappers = {
        'group': lambda x: b.box('Group', x), 'skip group': lambda x: b.box('SkipGroup', x), 'optional': lambda x: b.box('Optional', x),
        'closure': lambda x: b.box('Closure', x), 'positive closure': lambda x: b.box('PositiveClosure', x), '&': lambda x: b.box('Lookahead', x),
        '!': lambda x: b.box('NegativeLookahead', x), '->': lambda x: b.box('SkipTo', x), 'join': lambda x: b.join('Join', x, T(',')),
        'positive join': lambda x: b.join('PositiveJoin', x, T(',')), 'gather': lambda x: b.join('Gather', x, T(',')),
        'positive gather': lambda x: b.join('PositiveGather', x, T(',')), 'left join': lambda x: Stub(f'{PEG}.deprecated.LeftJoin', exp=x, sep=T('+')),
        'right join': lambda x: Stub(f'{PEG}.deprecated.RightJoin', exp=x, sep=T('^')), 'name=': lambda x: b.box('Named', x, name='n'),
        'name+=': lambda x: b.box('NamedList', x, name='n'), '@:': lambda x: b.box('Override', x), '@+:': lambda x: b.box('OverrideList', x),
        'sequence': lambda x: seq(T('p'), x, T('q')), 'choice': lambda x: ch(T('p'), x, seq(T('q'), T('r'))),
    }
    bodies = [(n, mk) for n, mk in leaves.items()]
    inner = ['token', 'wide token', 'call', 'cut', 'constant over two lines', 'pattern over two lines']
    for wn, w in wrappers.items():
        for ln in inner:
            bodies.append((f'{wn} of {ln}', (lambda w=w, ln=ln: w(leaves[ln]()))))
    for wn, w in wrappers.items():
        for wn2 in ('optional', 'closure', 'choice', 'join'):
            bodies.append((f'{wn} of {wn2} of wide token', (lambda w=w, wn2=wn2: w(wrappers[wn2](leaves['wide token']())))))
    if tier != 'thorough':
        bodies = bodies[:len(leaves)] + bodies[len(leaves)::2]
    plain = dict(params=(), kwparams={}, decorators=[], base=None, is_name=False, is_tokn=False, no_memo=False, no_stak=False, is_memo=True, is_lrec=False)
    headers = [
        ('plain', plain), ('string parameters', {**plain, 'params': ('Node', 'Other')}), ('typed parameters', {**plain, 'params': (3, 1.5, True, None, 'x')}),
        ('keyword parameters', {**plain, 'kwparams': {'k': 'v', 'n': 7, 'b': False}}), ('both', {**plain, 'params': ('A', 2), 'kwparams': {'k': None}}),
        ('decorators', {**plain, 'decorators': ['name', 'nomemo'], 'is_name': True, 'no_memo': True}), ('left recursive', {**plain, 'is_lrec': True}),
        ('not memoized', {**plain, 'is_memo': False}), ('based', {**plain, 'base': 'basis'}), ('wide name', {**plain}),
    ]

    def check(what, node, one_width=True):
        try:
            rails = _railroad(a, node)
            raised = None
        except Unsupported as e:
            raise AnalysisError(f'C13.R6: cannot interpret the railroad walker on {what}: {e}') from e
        except Raised as e:
            rails, raised = None, e.cls_name
        widths = sorted({_uwidth(r) for r in rails}) if isinstance(rails, list) and all(isinstance(r, str) for r in rails) else None
        ok = raised is None and widths is not None and (len(widths) == 1 or not one_width) and len(rails) > 0
        rep.add({'model': what, 'tracks': len(rails) if isinstance(rails, list) else None, 'display_widths': widths, 'raised': raised, 'ok': ok})
        if not ok:
            cls = node._cls
            from .c02 import _find_walker
            try:
                w = _find_walker(a, RAILS, cls)
                where = w.fn if hasattr(w, 'fn') else None
            except Unsupported:
                where = None
            rep.fail(where.qualname if where else RAILS, f'railroads:{what}', f'the railroad rendering of {what} ' + (
                f'raises {raised}' if raised else f'gives tracks of display widths {widths}' if widths is not None else f'is {rails!r}, not a list of strings') +
                ': model.railroads() / the railroad tool fails or draws misaligned tracks for such a grammar', where.loc if where else '')
    for bn, mk in bodies:
        check(f'the rule `r = {bn}`', Stub(Q['Rule'], name='r', exp=mk(), **plain))
    for hn, fl in headers:
        check(f'a rule header with {hn}', Stub(Q['Rule'], name=('規則' if hn == 'wide name' else 'r'), exp=T('x'), **fl))
    # a based rule and a whole grammar
    base_rule = Stub(Q['Rule'], name='basis', exp=T('b'), **plain)
    check('a based rule `d < basis = x`', Stub(f'{PEG}.rulelike.BasedRule', name='d', exp=T('x'), baserule=base_rule, rhs=seq(T('b'), T('x')), **{**plain, 'base': 'basis'}))
    # a grammar is its rules' drawings one after the other (each of its own width, checked above): it must complete
    check('a grammar of three rules of different widths', one_width=False, node=Stub('tatsu.peg.base.Grammar', name='G', directives={}, keywords=[], rules=(
        Stub(Q['Rule'], name='start', exp=seq(C('a'), C('b'), Stub(Q['EOF'])), **plain), Stub(Q['Rule'], name='a', exp=wrappers['closure'](T('日本')), **plain),
        Stub(Q['Rule'], name='b', exp=ch(T('x'), T('yy'), seq(T('z'), wrappers['optional'](T('w')))), **{**plain, 'params': (1, 'p')}))))
    return rep


def r7_definition_order(a, tier):
    from ..modelinterp import Bound, Hook, ModelInterp
    from ..minieval import Obj
    rep = RuleReport(
        'C13.R7',
        'the rules of a model are stored in an order its pretty text can be read in: a rule may include (`>base`) or extend (`r < base`) only rules '
        'defined BEFORE it, and Grammar._pretty prints the rules in stored order. GrammarSemantics.rule, interpreted on a scripted sequence of '
        'definitions (a, b, then `@override a` whose body refers to b), must leave the overriding definition AFTER the rules it may refer to - a '
        'definition that keeps the position of the rule it replaces yields a text in which `a: >b ...` stands before `b`',
        floor=1,
    )
    fn = a.p.func('tatsu.peg.semantics.GrammarSemantics.rule')

    def define(me, name, decorators):
        node = Obj(name=name, decorators=list(decorators), base=None, params=None, kwparams=None, exp='EXP')
        it = ModelInterp(a, {'g': Hook(None, Rule=Hook(lambda **kw: ('rule', kw.get('name'), tuple(kw.get('decorators') or ()))),
                                       BasedRule=Hook(lambda **kw: ('based', kw.get('name'))))})
        it.call_bound(Bound(me, fn), [node], {})
    from ..modelinterp import Stub
    me = Stub('tatsu.peg.semantics.GrammarSemantics', rulemap={}, new_name=Hook(lambda n: None), known_name=Hook(lambda n: None))
    try:
        define(me, 'a', [])
        define(me, 'b', [])
        define(me, 'a', ['override'])
    except Unsupported as e:
        raise AnalysisError(f'C13.R7: cannot interpret GrammarSemantics.rule: {e}') from e
    order = list(me._attrs['rulemap'])
    final_a = me._attrs['rulemap'].get('a')
    overridden = isinstance(final_a, tuple) and 'override' in (final_a[2] if len(final_a) > 2 else ())
    ok = overridden and order.index('a') > order.index('b')
    rep.add({'definitions': ['a', 'b', '@override a (may refer to b)'], 'stored_order': order, 'overriding_definition_stored': overridden, 'after_the_rules_it_may_refer_to': ok})
    if not overridden:
        rep.fail(fn.qualname, 'override-not-stored', f'after `a`, `b`, `@override a` the stored rule a is {final_a!r}: the overriding definition is not the one kept', fn.loc)
    elif not ok:
        rep.fail(fn.qualname, 'override-keeps-position', f'after the definitions a, b, `@override a` the rules are stored as {order}: the overriding definition keeps the position of '
                 f'the rule it replaces, in front of b, which its body may include or extend - Grammar._pretty prints `a: >b ...` before `b`, and that text does not recompile '
                 f'("rule b not yet defined")', fn.loc)
    return rep


RULES = [r_chain, r1_printers, r2_roundtrip, r3_nothing_dropped, r4_display_width, r5_antlr_models, r6_railroads, r7_definition_order]
