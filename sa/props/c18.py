"""C18 - parallel processing yields exactly one result per payload (linearity of the loop's shape)."""
from __future__ import annotations

import ast

from ..loader import AnalysisError, dotted, norm, walk_no_defs
from ..paths import Executor, Semantics
from ..report import RuleReport
from ..rules.common import _bindings, through_locals

LEVEL = 'other'
TECHNIQUE = ('static: ownership/linearity analysis of the refill loop (every drawn task is submitted and registered, a future '
             'leaves the pending map only by pop() and every pop is followed by exactly one yield of its result - path-state '
             'execution), who-may-mutate rule on the pending map, same-worker rule for the sequential paths, handler-order rule, re-raise/capture/retry rule for handlers around the user function')
LEVEL_TEXT = ('Decides the shape of the loop, for all paths: each task drawn from the task iterator is handed to ex.submit and its '
              'future becomes a key of the pending map; the pending map is only iterated through the snapshot as_completed() takes '
              'and is the condition of the outer loop, so futures added during a pass are revisited; a future leaves the map only '
              'through pop(future) and every pop is followed by exactly one `yield future.result()` before the next pop or back '
              'edge; the map is never rebuilt or filtered; sequential and single-task paths use the same worker function; the '
              'capture clause stores the exception before any conditional re-raise. Behaviour under real executors and schedules '
              'is not decided.')
TECHNIQUE += '; swallow clause for handlers (no path from a handler around the user function continues without a result), fresh-run-state rule (every per-run object of parproc - stop event, executor, pending map - is constructed inside the call, not taken from a memoised factory or module/class attribute)'
LEVEL_TEXT += ' Added clauses: task lists built by append are followed; a run never observes the stop flag or pending state of an earlier run.'
TECHNIQUE += '; refill polarity and discarding views of the task iterator (R1), dispatch exclusivity and index guards of parproc by path-state execution (R7), worker contract of taskproc interpreted with a scripted user function (R8)'
LEVEL_TEXT += ' Added clauses: the refill runs whenever the run is not stopped; no islice start/step or filter skips tasks; exactly one emitting statement per path of parproc and no unguarded tasks[0]; taskproc stores outcome or exception and re-raises exactly when reraise is set or raises() names other types; a stopped task reports an exception.'
TECHNIQUE += '; falsy outcomes in the worker contract'
TECHNIQUE += '; exits of the loop over pending futures lie under a stop test; same-environment rule (no worker initializer, interpreter-wide set-up only inside the worker function)'
TECHNIQUE += '; every mapping variant active_pmap can return hands its tasks to the verified loop at most once and unchanged (R11, path-state execution)'
LEVEL_TEXT += ' Added clause: the generator ends only when nothing is pending or the run is stopped.'
LEVEL_TEXT += ' Added clauses (rounds 9-11): no pool-only worker initialisation; every mapping variant delegates to the verified loop at most once with unchanged tasks.'
LEVEL_NOTE = 'Trusted: concurrent.futures.as_completed iterates over a snapshot of the futures given and yields each exactly once.'
EXPLANATION = ('Static analysis of /repo sources, TatSu not imported. executor_pmap is executed abstractly with an "owed result" '
               'flag; every store/mutation of the pending map is enumerated.')
ASSUMPTIONS = [LEVEL_NOTE]

PMAP = 'tatsu.parproc.pmap.active_pmap.executor_pmap'


def _pending_var(fn) -> str:
    for n in walk_no_defs(fn.node):
        if isinstance(n, ast.For) and isinstance(n.iter, ast.Call) and dotted(n.iter.func) == 'as_completed' and n.iter.args:
            return norm(n.iter.args[0])
    raise AnalysisError('executor_pmap: no `for ... in as_completed(<pending>)` loop found')


def _next_draw(fn, call):
    """(variable, the `if variable is not SENTINEL:` statement) for `variable = next(it, SENTINEL)` followed by that guard; else None"""
    sentinel = norm(call.args[1])
    for blk in ast.walk(fn.node):
        body = getattr(blk, 'body', None)
        for fld in ('body', 'orelse', 'finalbody'):
            stmts = getattr(blk, fld, None)
            if not isinstance(stmts, list):
                continue
            for i, st in enumerate(stmts):
                if isinstance(st, ast.Assign) and st.value is call and isinstance(st.targets[0], ast.Name) and i + 1 < len(stmts):
                    var = st.targets[0].id
                    nxt = stmts[i + 1]
                    if isinstance(nxt, ast.If) and norm(nxt.test) in (f'{var} is not {sentinel}', f'{var} != {sentinel}'):
                        return var, nxt
    return None


def r1_draw_submit(a, tier):
    rep = RuleReport(
        'C18.R1',
        'every task drawn from the task iterator is submitted and registered: each loop or comprehension over the task iterator '
        '(directly or through islice) evaluates ex.submit(process, <that task>) and stores the future as a key of the pending '
        'map; nothing else consumes the iterator',
        floor=2,
    )
    fn = a.p.func(PMAP)
    pending = _pending_var(fn)
    iters = {n.targets[0].id for n in walk_no_defs(fn.node) if isinstance(n, ast.Assign) and isinstance(n.value, ast.Call)
             and dotted(n.value.func) == 'iter' and isinstance(n.targets[0], ast.Name)}
    if not iters:
        raise AnalysisError('executor_pmap: task iterator `x = iter(tasks)` not found')

    def draws(e: ast.expr) -> bool:
        return any(isinstance(x, ast.Name) and x.id in iters for x in ast.walk(e))

    # locals that alias the iterator or a lazy view of it (x = taskiter / x = islice(taskiter, n)) draw from it too
    changed = True
    while changed:
        changed = False
        for n in walk_no_defs(fn.node):
            if isinstance(n, ast.Assign) and isinstance(n.targets[0], ast.Name) and n.targets[0].id not in iters:
                v = n.value
                if (isinstance(v, ast.Name) and v.id in iters) or (
                        isinstance(v, ast.Call) and dotted(v.func).split('.')[-1] in ('islice', 'iter', 'chain', 'takewhile') and draws(v)):
                    iters.add(n.targets[0].id)
                    changed = True

    sites = 0
    for n in walk_no_defs(fn.node):
        if isinstance(n, ast.DictComp) and any(draws(g.iter) for g in n.generators):
            sites += 1
            tv = norm(n.generators[0].target)
            ok = isinstance(n.key, ast.Call) and dotted(n.key.func).endswith('.submit') and len(n.key.args) >= 2 and norm(n.key.args[1]) == tv
            pm = a.resolver.parents(fn)
            par = pm.get(id(n))
            stored = isinstance(par, ast.Assign) and norm(par.targets[0]) == pending
            rep.add({'draw_site': norm(n)[:80], 'submits_each_task_as_key': ok, 'assigned_to_pending_map': stored})
            if not (ok and stored):
                rep.fail(fn.qualname, f'draw:{norm(n.generators[0].iter)}', f'`{norm(n)[:90]}` draws tasks without submitting each one and '
                         f'keeping its future as a key of {pending}: those payloads never produce a result', f'{fn.module.relpath}:{n.lineno}')
        elif isinstance(n, ast.For) and draws(n.iter):
            sites += 1
            tv = norm(n.target)
            def is_submit(e) -> bool:
                e = through_locals(fn, e)
                return isinstance(e, ast.Call) and dotted(e.func).endswith('.submit') and len(e.args) >= 2 and norm(e.args[1]) == tv
            sub = [c for c in ast.walk(n) if isinstance(c, ast.Call) and is_submit(c)]
            # registered: <pending>[<the future of that submit>] = ...   (the future named by a local or written in place)
            reg = any(isinstance(c, ast.Assign) and isinstance(c.targets[0], ast.Subscript) and norm(c.targets[0].value) == pending
                      and is_submit(c.targets[0].slice) for c in ast.walk(n))
            rep.add({'draw_site': f'for {tv} in {norm(n.iter)}', 'submitted': bool(sub), 'registered_in_pending_map': reg})
            if not (sub and reg):
                rep.fail(fn.qualname, f'draw:{norm(n.iter)}', f'the loop `for {tv} in {norm(n.iter)}` draws a task that is not both submitted '
                         f'and registered in {pending}: that payload never produces a result', f'{fn.module.relpath}:{n.lineno}')
        elif isinstance(n, (ast.ListComp, ast.SetComp, ast.GeneratorExp)) and any(draws(g.iter) for g in n.generators):
            sites += 1
            rep.fail(fn.qualname, f'draw:{norm(n)[:40]}', f'`{norm(n)[:80]}` consumes the task iterator outside the submit protocol', f'{fn.module.relpath}:{n.lineno}')
        elif isinstance(n, ast.Call) and dotted(n.func) == 'next' and len(n.args) == 2 and draws(n.args[0]) and _next_draw(fn, n) is not None:
            # x = next(it, SENTINEL); if x is not SENTINEL: submit + register   (one-task draw)
            sites += 1
            var, guard = _next_draw(fn, n)
            def is_submit2(e, var=var) -> bool:
                e = through_locals(fn, e)
                return isinstance(e, ast.Call) and dotted(e.func).endswith('.submit') and len(e.args) >= 2 and norm(e.args[1]) == var
            sub = [c for c in ast.walk(guard) if isinstance(c, ast.Call) and is_submit2(c)]
            reg = any(isinstance(c, ast.Assign) and isinstance(c.targets[0], ast.Subscript) and norm(c.targets[0].value) == pending
                      and is_submit2(c.targets[0].slice) for x in guard.body for c in ast.walk(x))
            rep.add({'draw_site': f'{var} = {norm(n)}', 'submitted': bool(sub), 'registered_in_pending_map': reg})
            if not (sub and reg):
                rep.fail(fn.qualname, f'draw:{norm(n)}', f'the task drawn by `{var} = {norm(n)}` is not both submitted and registered in {pending} when it is '
                         f'not the sentinel: that payload never produces a result', f'{fn.module.relpath}:{n.lineno}')
        elif isinstance(n, ast.Call) and dotted(n.func) in ('next', 'list', 'tuple') and n.args and draws(n.args[0]):
            sites += 1
            rep.fail(fn.qualname, f'draw:{norm(n)}', f'`{norm(n)}` takes tasks from the iterator without submitting them', f'{fn.module.relpath}:{n.lineno}')
    # a lazy view that DISCARDS tasks: islice(taskiter, start, stop[, step]) skips `start` tasks (and every step-1 after)
    for n in walk_no_defs(fn.node):
        if isinstance(n, ast.Call) and dotted(n.func).split('.')[-1] == 'islice' and n.args and draws(n.args[0]):
            ok = len(n.args) == 2 and not n.keywords
            rep.add({'view': norm(n), 'takes_a_prefix_only': ok})
            if not ok:
                rep.fail(fn.qualname, f'draw-discards:{len(n.args)}', f'`{norm(n)}` skips tasks of the iterator (islice with a start or step): the skipped '
                         f'payloads never produce a result', f'{fn.module.relpath}:{n.lineno}')
        if isinstance(n, ast.Call) and dotted(n.func).split('.')[-1] in ('dropwhile', 'filterfalse', 'filter', 'compress') and any(draws(x) for x in n.args):
            rep.fail(fn.qualname, f'draw-discards:{dotted(n.func)}', f'`{norm(n)}` filters the task iterator', f'{fn.module.relpath}:{n.lineno}')
    # refill: inside the completion loop, the draw that refills the window runs whenever the run is not stopped - a draw placed under
    # `if <stop>.is_set()` (or behind any other condition) leaves the tasks beyond the first window unsubmitted
    loops = [n for n in walk_no_defs(fn.node) if isinstance(n, ast.For) and isinstance(n.iter, ast.Call) and dotted(n.iter.func) == 'as_completed']
    for loop in loops:
        refills = [n for n in ast.walk(loop) if isinstance(n, ast.For) and n is not loop and draws(n.iter)]
        next_refills = [_next_draw(fn, c) for c in ast.walk(loop) if isinstance(c, ast.Call) and dotted(c.func) == 'next' and len(c.args) == 2
                        and draws(c.args[0]) and _next_draw(fn, c) is not None]
        refills += [g_ for _v, g_ in next_refills]
        rep.add({'completion_loop_refills': len(refills)})
        if not refills:
            rep.fail(fn.qualname, 'refill-missing', 'the completion loop never draws the next task: payloads beyond the first window are never submitted',
                     f'{fn.module.relpath}:{loop.lineno}')
        pm = a.resolver.parents(fn)
        for r in refills:
            conds = []
            cur = r
            while cur is not loop:
                par = pm.get(id(cur))
                if par is None:
                    break
                if isinstance(par, ast.If):
                    conds.append((par.test, cur in par.body))
                cur = par
            bad = []
            for test, in_body in conds:
                t, neg = test, not in_body
                while isinstance(t, ast.UnaryOp) and isinstance(t.op, ast.Not):
                    t, neg = t.operand, not neg
                t = through_locals(fn, t)
                is_stop = isinstance(t, ast.Call) and isinstance(t.func, ast.Attribute) and t.func.attr == 'is_set'
                if not (is_stop and neg):
                    bad.append(norm(test) + ('' if in_body else ' (else branch)'))
            rtxt = f'for {norm(r.target)} in {norm(r.iter)}' if isinstance(r, ast.For) else f'if {norm(r.test)}'
            rep.add({'refill': rtxt, 'runs_unless_stopped': not bad, 'other_conditions': bad})
            if bad:
                rep.fail(fn.qualname, 'refill-condition', f'the refill `{rtxt}` runs only under {bad}: when the run is not '
                         f'stopped the next task is not drawn and the payloads beyond the first window never produce a result', f'{fn.module.relpath}:{r.lineno}')
    rep.add({'draw_sites': sites})
    return rep


def r2_pop_yield(a, tier):
    rep = RuleReport(
        'C18.R2',
        'linearity of results: in executor_pmap a future is removed from the pending map only by <pending>.pop(<the completed '
        'future>), and on every non-exceptional path each pop is followed by exactly one `yield <that future>.result()` before '
        'the next pop, the next iteration, or the end of the function',
        floor=2,
    )
    fn = a.p.func(PMAP)
    pending = _pending_var(fn)
    loop = next(n for n in walk_no_defs(fn.node) if isinstance(n, ast.For) and isinstance(n.iter, ast.Call) and dotted(n.iter.func) == 'as_completed')
    fut = norm(loop.target)

    class Sem(Semantics):
        def call(self, ex, f, node, state):
            if f is fn and dotted(node.func) == f'{pending}.pop':
                good = bool(node.args) and norm(node.args[0]) == fut
                flags = set(state)
                if 'owed' in flags:
                    flags.add('lost_result')
                if not good:
                    flags.add('pop_of_other')
                flags.add('owed')
                return [('next', frozenset(flags), None)]
            if f is fn and dotted(node.func) == 'as_completed' and 'owed' in state:
                return [('next', frozenset(state | {'lost_result'}), None)]
            return ex.default_call(f, node, state)

        def stmt(self, ex, f, node, state):
            if f is fn and isinstance(node, ast.Expr) and isinstance(node.value, ast.Yield):
                v = node.value.value
                if isinstance(v, ast.Call) and norm(v.func) == f'{fut}.result':
                    if 'owed' in state:
                        return frozenset(state - {'owed'})
                    return frozenset(state | {'yield_without_pop'})
            if f is fn and isinstance(node, ast.For) and 'owed' in state:
                return frozenset(state | {'lost_result'})
            return state

    ex = Executor(a.p, a.ct, a.resolver, Sem(), raises=a.raises)
    # the loop head is re-entered through the engine's fixpoint: an `owed` flag reaching the head again is a lost result
    orig_block = ex.block

    def block(ctx, stmts, confs):
        if stmts is loop.body:
            confs = {(frozenset(st | {'lost_result'}) if 'owed' in st else st, pd) for st, pd in confs}
        return orig_block(ctx, stmts, confs)

    ex.block = block  # type: ignore
    outs = ex.run(fn, frozenset())
    flags = set().union(*[o.state for o in outs if o.kind == 'return']) if outs else set()
    rep.add({'fn': fn.qualname, 'pending_map': pending, 'completed_future': fut, 'normal_exit_flags': sorted(flags)})
    msgs = {
        'lost_result': 'a future is popped from the pending map and the loop goes on (next pop / next iteration / exit) without '
                       '`yield future.result()`: that payload\'s result is dropped',
        'owed': 'the function can end normally right after popping a future, without yielding its result',
        'yield_without_pop': 'a result is yielded for a future that was not popped: it stays in the pending map and is yielded again',
        'pop_of_other': 'pop() removes something else than the future delivered by as_completed',
    }
    for fl, msg in msgs.items():
        if fl in flags:
            rep.fail(fn.qualname, fl, msg, fn.loc)
    pops = [n for n in walk_no_defs(fn.node) if isinstance(n, ast.Call) and dotted(n.func) == f'{pending}.pop']
    yields = [n for n in walk_no_defs(fn.node) if isinstance(n, ast.Yield) and isinstance(n.value, ast.Call) and norm(n.value.func) == f'{fut}.result']
    rep.add({'pops': len(pops), 'result_yields': len(yields)})
    if not pops or not yields:
        rep.fail(fn.qualname, 'no-pop-yield', f'executor_pmap has {len(pops)} pop(s) of the pending map and {len(yields)} yield(s) of '
                 f'`{fut}.result()`: a completed future is either never removed (yielded again in the next pass) or never yielded', fn.loc)
    return rep


def r3_snapshot(a, tier):
    rep = RuleReport(
        'C18.R3',
        'the pending map is iterated only through as_completed(<pending>) (which snapshots it), the outer loop runs `while '
        '<pending>`, and inside that loop the map is mutated only by pop(<completed future>) and <pending>[new_future] = task: it '
        'is never re-assigned, filtered, cleared or deleted from, so a refill submitted during a pass is still pending in the next',
        floor=2,
    )
    fn = a.p.func(PMAP)
    pending = _pending_var(fn)
    outer = next((n for n in walk_no_defs(fn.node) if isinstance(n, ast.While) and norm(n.test) == pending), None)
    rep.add({'outer_loop_condition_is_pending_map': outer is not None})
    if outer is None:
        rep.fail(fn.qualname, 'outer-loop', f'no `while {pending}:` loop: futures added during a pass are not revisited', fn.loc)
        return rep
    for n in ast.walk(outer):
        bad = None
        if isinstance(n, (ast.Assign, ast.AugAssign, ast.AnnAssign)):
            tg = n.targets if isinstance(n, ast.Assign) else [n.target]
            if any(norm(t) == pending for t in tg):
                bad = f'`{norm(n)[:80]}` re-binds the pending map inside the loop'
        if isinstance(n, ast.Delete) and any(norm(t).startswith(pending) for t in n.targets):
            bad = f'`{norm(n)}` deletes from the pending map'
        if isinstance(n, ast.Call) and isinstance(n.func, ast.Attribute) and norm(n.func.value) == pending and n.func.attr in (
                'clear', 'popitem', 'update', 'setdefault'):
            bad = f'`{norm(n)}` mutates the pending map outside the pop/register protocol'
        if isinstance(n, ast.For) and norm(n.iter) in (pending, f'{pending}.items()', f'{pending}.keys()', f'list({pending})'):
            bad = f'`for ... in {norm(n.iter)}` iterates the pending map directly'
        rep.add({'node': type(n).__name__}) if False else None
        if bad:
            rep.fail(fn.qualname, f'pending-mutation:{norm(n)[:50]}', bad + ': a future that completed between snapshots can leave the map '
                     'without its result having been yielded', f'{fn.module.relpath}:{getattr(n, "lineno", outer.lineno)}')
    its = [norm(n.iter) for n in ast.walk(outer) if isinstance(n, ast.For)]
    rep.add({'loops_inside': its, 'mutations_inside': sorted({norm(n)[:60] for n in ast.walk(outer) if isinstance(n, ast.Call)
                                                                 and isinstance(n.func, ast.Attribute) and norm(n.func.value) == pending})})
    rep.add({'register': [norm(n)[:60] for n in ast.walk(outer) if isinstance(n, ast.Assign) and isinstance(n.targets[0], ast.Subscript)
                          and norm(n.targets[0].value) == pending]})
    return rep


def r4_same_worker(a, tier):
    rep = RuleReport(
        'C18.R4',
        'parproc uses one worker function on all paths: the single-task shortcut, the sequential map and the parallel pmap all '
        'run taskproc over the same Task list',
        floor=3,
    )
    fn = a.p.func('tatsu.parproc.parproc.parproc')
    uses = []
    # the Task list: the local(s) bound to a display/comprehension of Task(...)
    def targets_of(n):
        return [t for t in ([n.target] if isinstance(n, ast.AnnAssign) else n.targets) if isinstance(t, ast.Name)]
    binds = [n for n in walk_no_defs(fn.node) if isinstance(n, (ast.Assign, ast.AnnAssign)) and n.value is not None]
    # a local that holds ONE task (`task = Task(...)`) is not the list; a local bound to a display / comprehension of tasks is
    one_task = {t.id for n in binds if isinstance(n.value, ast.Call) and dotted(n.value.func) == 'Task' for t in targets_of(n)}

    def makes_tasks(e) -> bool:
        return any((isinstance(x, ast.Call) and dotted(x.func) == 'Task') or (isinstance(x, ast.Name) and x.id in one_task) for x in ast.walk(e))
    task_lists = {t.id for n in binds if not (isinstance(n.value, ast.Call) and dotted(n.value.func) == 'Task') and makes_tasks(n.value) for t in targets_of(n)}
    for n in walk_no_defs(fn.node):
        # tasks.append(Task(...)) / tasks.append(task) / tasks += [Task(...)]
        if isinstance(n, ast.Call) and isinstance(n.func, ast.Attribute) and n.func.attr in ('append', 'extend') and isinstance(n.func.value, ast.Name) \
                and any(makes_tasks(a_) for a_ in n.args):
            task_lists.add(n.func.value.id)
        if isinstance(n, ast.AugAssign) and isinstance(n.target, ast.Name) and makes_tasks(n.value):
            task_lists.add(n.target.id)
    if not task_lists:
        raise AnalysisError('parproc: the list of Task(...) objects bound to a local was not found')
    pmaps = {t.id for n in walk_no_defs(fn.node) if isinstance(n, ast.Assign) and isinstance(n.value, ast.Call)
             and dotted(n.value.func).split('.')[-1] == 'active_pmap' for t in n.targets if isinstance(t, ast.Name)}

    def is_tasks(e) -> bool:
        return isinstance(e, ast.Name) and e.id in task_lists

    for n in walk_no_defs(fn.node):
        if isinstance(n, ast.Call):
            nm = dotted(n.func)
            if nm == 'taskproc':
                uses.append(('single', norm(n)))
                if not (n.args and isinstance(n.args[0], ast.Subscript) and is_tasks(n.args[0].value)):
                    rep.fail(fn.qualname, 'single-worker', f'the single-task path `{norm(n)}` does not run taskproc on an element of the task list', fn.loc)
            elif nm == 'map' and n.args:
                uses.append(('sequential', norm(n)))
                if norm(n.args[0]) != 'taskproc' or len(n.args) < 2 or not is_tasks(n.args[1]):
                    rep.fail(fn.qualname, 'sequential-worker', f'the sequential path `{norm(n)}` does not map taskproc over the task list', fn.loc)
            elif (isinstance(n.func, ast.Name) and n.func.id in pmaps) or (isinstance(n.func, ast.Call) and dotted(n.func.func).split('.')[-1] == 'active_pmap'):
                uses.append(('parallel', norm(n)))
                if len(n.args) < 3 or norm(n.args[1]) != 'taskproc' or not is_tasks(n.args[2]):
                    rep.fail(fn.qualname, 'parallel-worker', f'the parallel path `{norm(n)}` does not run taskproc over the task list', fn.loc)
    for u in uses:
        rep.add({'path': u[0], 'call': u[1]})
    kinds = {u[0] for u in uses}
    for k in ('single', 'sequential', 'parallel'):
        if k not in kinds:
            rep.fail(fn.qualname, f'path:{k}', f'parproc has no {k} path running taskproc', fn.loc)
    return rep


def r5_capture(a, tier):
    rep = RuleReport(
        'C18.R5',
        'per-task capture in taskproc: the capture clause stores the exception in the result before any conditional re-raise; '
        'no capture handler is shadowed by an earlier clause naming a superclass; the finally block completes the result; every '
        'normal exit returns that one Result',
        floor=3,
    )
    fn = a.p.func('tatsu.parproc.task.taskproc')
    ex = Executor(a.p, a.ct, a.resolver, Semantics())
    for t in walk_no_defs(fn.node):
        if not isinstance(t, ast.Try) or len(t.handlers) < 2:
            continue
        earlier: list[str] = []
        for h in t.handlers:
            cs = ['builtins.BaseException'] if h.type is None else ex.exc_class(fn, h.type)
            for c in cs:
                for e in earlier:
                    if e in a.ct.mro(c):
                        rep.fail(fn.qualname, f'shadowed:{c.split(".")[-1]}', f'`except {c.split(".")[-1]}` (the capture clause) can never '
                                 f'run: the earlier `except {e.split(".")[-1]}: raise` catches it, so a payload that overflows the '
                                 f'recursion limit aborts the whole loop instead of yielding a Result carrying the exception',
                                 f'{fn.module.relpath}:{h.lineno}')
            earlier.extend(cs)
            stores = [n for n in ast.walk(h) if isinstance(n, ast.Assign) and norm(n.targets[0]).endswith('.exception')]
            raises = [n for n in ast.walk(h) if isinstance(n, ast.Raise)]
            if stores and raises:
                ok = min(s.lineno for s in stores) < min(r.lineno for r in raises)
                rep.add({'capture_handler': [c.split('.')[-1] for c in cs], 'stores_exception_before_reraise': ok})
                if not ok:
                    rep.fail(fn.qualname, 'capture-order', 'the capture clause re-raises before it stored the exception in the result', f'{fn.module.relpath}:{h.lineno}')
            else:
                rep.add({'handler': [c.split('.')[-1] for c in cs], 'captures': bool(stores)})
    retn = [r.value for r in walk_no_defs(fn.node) if isinstance(r, ast.Return) and r.value is not None]
    rets = [norm(r) for r in retn]

    def is_result(e, f=None, depth=0) -> bool:
        f = f or fn
        if isinstance(e, ast.Call):
            if dotted(e.func) == 'Result':
                return True
            # a private helper that builds the Result (`_stopped_result(task)`): every return of the helper is one
            h = (a.extents.helper_for_call(fn, f, e) or a.extents.shared_helper_for_call(f, e)) if depth < 2 else None
            if h is not None:
                hr = [r.value for r in walk_no_defs(h.node) if isinstance(r, ast.Return)]
                return bool(hr) and all(x is not None and is_result(x, h, depth + 1) for x in hr)
            return False
        if isinstance(e, ast.Name):
            b = _bindings(f, e.id)
            return bool(b) and all(x is not None and isinstance(x, ast.Call) and is_result(x, f, depth) for x in b)
        return False
    rep.add({'returns': rets})
    if not retn or not all(is_result(r) for r in retn):
        rep.fail(fn.qualname, 'returns', f'taskproc returns {rets}: every normal exit must return the Result of that payload', fn.loc)
    # inner handlers around the call of the user function: an exception of the function is re-raised (to the capture clause),
    # stored in the result, or answered by calling the function again - on every path through the handler
    fparam = fn.params[0]

    def calls_func(node) -> bool:
        return any(isinstance(x, ast.Call) and isinstance(x.func, ast.Attribute) and x.func.attr == 'func' and norm(x.func.value) == fparam
                   for x in ast.walk(node))

    def complies(stmts) -> bool:
        for i, st in enumerate(stmts):
            if isinstance(st, ast.Raise):
                return True
            if isinstance(st, ast.Assign) and norm(st.targets[0]).endswith('.exception'):
                return True
            if isinstance(st, ast.If):
                rest = stmts[i + 1:]
                return complies([*st.body, *rest]) and complies([*st.orelse, *rest])
            if calls_func(st):
                return True
        return False
    for t in walk_no_defs(fn.node):
        if isinstance(t, ast.Try) and any(calls_func(x) for x in t.body):
            for h in t.handlers:
                cs = ['BaseException'] if h.type is None else [c.split('.')[-1] for c in ex.exc_class(fn, h.type)]
                ok = complies(h.body)
                rep.add({'handler_around_user_function': cs, 'reraises_captures_or_retries_on_every_path': ok})
                if not ok:
                    rep.fail(fn.qualname, f'swallows:{"/".join(cs)}', f'`except {"/".join(cs)}` around the call of the user function has a '
                             f'path that neither re-raises, nor stores the exception in the result, nor calls the function again: that '
                             f'payload gets a Result carrying neither an outcome nor the exception (success=True for a failed task)',
                             f'{fn.module.relpath}:{h.lineno}')
    return rep


def r6_fresh_run_state(a, tier):
    rep = RuleReport(
        'C18.R6',
        'every run has its own stop event and keeps nothing between runs: in parproc() the stop event handed to the tasks and to '
        'pmap is created by a constructor call in that function (threading.Event() / Manager().Event()) on every path, never '
        'fetched from a memoised function or a module-level object; the parproc package holds no memoised function and no '
        'module-level mutable object (a stop event that a finished or interrupted run left set would make every later run yield '
        'InterruptedError results or nothing)',
        floor=2,
    )
    fn = a.p.func('tatsu.parproc.parproc.parproc')
    # the local that flows into Task(stop=...) and into the pmap call
    stop_names = {k.value.id for n in walk_no_defs(fn.node) if isinstance(n, ast.Call) and dotted(n.func) == 'Task'
                  for k in n.keywords if k.arg == 'stop' and isinstance(k.value, ast.Name)}
    if not stop_names:
        raise AnalysisError('parproc: Task(stop=<local>) not found')
    for v in sorted(stop_names):
        binds = _bindings(fn, v)
        ok = bool(binds) and all(b is not None and isinstance(b, ast.Call) and dotted(b.func).split('.')[-1] == 'Event' for b in binds)
        rep.add({'stop_event_local': v, 'bound_to': [norm(b) if b is not None else '?' for b in binds], 'fresh_per_run': ok})
        if not ok:
            rep.fail(fn.qualname, f'shared-stop:{v}', f'the stop event `{v}` of parproc() is bound to {[norm(b) if b is not None else "?" for b in binds]}, '
                     f'not to a fresh Event() on every path: runs share it, and once it is set (a consumer stopped a run, a task was '
                     f'interrupted) every later run is stopped before it starts', fn.loc)
    for f in a.p.functions.values():
        if f.module.name.startswith('tatsu.parproc') and any(d.split('.')[-1].split('(')[0] in ('cache', 'lru_cache', 'cached_property') for d in f.decorators):
            rep.add({'memoised_function_in_parproc': f.qualname})
            rep.fail(f.qualname, 'memoised', f'{f.qualname} is memoised: its result is shared by every run in the process', f.loc)
    for m_ in a.p.modules.values():
        if m_.name.startswith('tatsu.parproc'):
            for name, val in m_.assigns.items():
                if isinstance(val, (ast.Dict, ast.List, ast.Set)) or (isinstance(val, ast.Call) and dotted(val.func).split('.')[-1] in (
                        'dict', 'list', 'set', 'Event', 'Lock', 'Manager', 'Queue', 'deque', 'defaultdict')):
                    if name == '__all__':
                        continue
                    rep.add({'module_level_object': f'{m_.name}.{name}'})
                    rep.fail(f'{m_.name}.{name}', 'module-state', f'{m_.name}.{name} is a module-level mutable object shared by all runs', m_.relpath)
    rep.add({'package_scanned': 'tatsu.parproc'})
    return rep


def r7_dispatch(a, tier):
    from ..paths import Executor, Out, Semantics
    rep = RuleReport(
        'C18.R7',
        'one emission per run: on every path through parproc exactly one of its emitting statements (yield / yield from over the tasks) '
        'runs - the single-task shortcut returns before the general paths - and a subscript of the task list with a constant index is '
        'guarded by a test on its length that makes the index valid (an empty payload list yields nothing and raises nothing)',
        floor=1,
    )
    fn = a.p.func('tatsu.parproc.parproc.parproc')

    class Sem(Semantics):
        def stmt(self, ex, f, node, state):
            if f is fn and isinstance(node, ast.Expr) and isinstance(node.value, (ast.Yield, ast.YieldFrom)):
                return state + 1
            return state

        def call(self, ex, f, node, state):
            return [('next', state, None)]
    outs = Executor(a.p, a.ct, a.resolver, Sem(), raises=a.raises).run(fn, 0)
    counts = sorted({o.state for o in outs if o.kind in ('return', 'next')})
    rep.add({'emissions_per_path': counts})
    if any(c != 1 for c in counts) or not counts:
        rep.fail(fn.qualname, f'dispatch:{counts}', f'parproc has paths with {counts} emitting statements; required exactly one on every path (more than one: every '
                 f'payload is processed and reported twice; none: no result)', fn.loc)
    # constant subscripts of the task list
    lists = {n.targets[0].id for n in walk_no_defs(fn.node) if isinstance(n, ast.Assign) and isinstance(n.targets[0], ast.Name)
             and isinstance(n.value, (ast.ListComp, ast.List))}
    pm = a.resolver.parents(fn)
    for n in walk_no_defs(fn.node):
        if isinstance(n, ast.Subscript) and isinstance(n.value, ast.Name) and n.value.id in lists and isinstance(n.slice, ast.Constant) and isinstance(n.slice.value, int):
            idx = n.slice.value
            guard = None
            cur = n
            while cur is not None:
                par = pm.get(id(cur))
                if isinstance(par, ast.If) and cur in par.body:
                    t = through_locals(fn, par.test)
                    if isinstance(t, ast.Compare) and len(t.ops) == 1 and isinstance(t.left, ast.Call) and dotted(t.left.func) == 'len' \
                            and norm(t.left.args[0]) == n.value.id and isinstance(t.comparators[0], ast.Constant):
                        k = t.comparators[0].value
                        op = t.ops[0]
                        lo = k if isinstance(op, (ast.Eq, ast.GtE)) else k + 1 if isinstance(op, ast.Gt) else None
                        if lo is not None and lo > idx >= -lo:
                            guard = norm(t)
                cur = par
            rep.add({'subscript': norm(n), 'guard': guard})
            if guard is None:
                rep.fail(fn.qualname, f'dispatch:index:{norm(n)}', f'`{norm(n)}` is not guarded by a length test that makes the index valid: an empty payload '
                         f'list raises IndexError instead of yielding nothing', f'{fn.module.relpath}:{n.lineno}')
    return rep


def r8_worker_contract(a, tier):
    from ..minieval import Obj, Raised, Unsupported
    from ..modelinterp import Hook, ModelInterp
    rep = RuleReport(
        'C18.R8',
        'the worker function taskproc, interpreted with a scripted user function: the result carries the outcome when the function '
        'returns (also a falsy outcome: 0, "", [], {}, (), False); an exception is stored on the result and NOT raised when the payload captures it (raises() empty or naming its '
        'type), raised when reraise is set or raises() names other types; a task that finds the run stopped reports an exception',
        floor=5,
    )
    fn = a.p.func('tatsu.parproc.task.taskproc')

    def result_cls(stop, payload, exception=None):
        return Obj(stop=stop, payload=payload, exception=exception, outcome=None, runtime=None, linecount=None, memory=None)

    import builtins as _b

    def exc_class(e):
        return getattr(_b, e.cls_name, Exception) if isinstance(e, Raised) else type(e)

    def isinst(e, r):
        if isinstance(e, Raised):
            rs = r if isinstance(r, tuple) else (r,)
            return any(isinstance(x, type) and issubclass(exc_class(e), x) for x in rs)
        return isinstance(e, r) if isinstance(r, (type, tuple)) else False

    def run(stopped=False, raises_=(), reraise=False, fails=None, returns='OUT'):
        def func(payload, *x, **k):
            if fails:
                raise Raised(fails, ast.Pass())
            return returns
        payload = Obj(raises=None, path='p')
        stop = Obj()
        task = Hook(None, stop=Hook(None, is_set=Hook(lambda: stopped), set=Hook(lambda: None)), func=Hook(func), payload=Hook(None, raises=Hook(lambda: raises_), path='p'),
                   pickable=Hook(lambda o: ('PICKLED', o)), reraise=reraise, args=(), kwargs={})
        it = ModelInterp(a, {'Result': Hook(result_cls), 'isinstance': Hook(isinst), 'memory_use': Hook(lambda: 0), 'getattr': Hook(lambda o, n, *d: d[0] if d else None), 'type': Hook(lambda o: exc_class(o)),
                             'issubclass': Hook(lambda c, b_: isinstance(c, type) and issubclass(c, b_)),
                             'sys': Hook(None, getrecursionlimit=Hook(lambda: 1000), setrecursionlimit=Hook(lambda n: None)),
                             'time': Hook(None, thread_time=Hook(lambda: 0.0)), 'InterruptedError': InterruptedError})
        try:
            r = it.call_fn(fn, [task])
            return r, None
        except Raised as e:
            return None, e.cls_name
        except Unsupported as e:
            raise AnalysisError(f'C18.R8: cannot interpret taskproc: {e}') from e

    cases = [
        ('the function returns', dict(), lambda r, x: x is None and r is not None and r.outcome == ('PICKLED', 'OUT') and r.exception is None),
        *[(f'the function returns the falsy value {v!r}', dict(returns=v), (lambda r, x, v=v: x is None and r is not None and r.outcome == ('PICKLED', v) and type(r.outcome[1]) is type(v) and r.exception is None))
          for v in (0, 0.0, '', [], {}, (), False)],
        ('ValueError, payload captures everything', dict(fails='ValueError'), lambda r, x: x is None and r is not None and isinstance(r.exception, Raised) and r.exception.cls_name == 'ValueError'),
        ('ValueError, reraise set', dict(fails='ValueError', reraise=True), lambda r, x: x == 'ValueError'),
        ('ValueError, raises() names ValueError', dict(fails='ValueError', raises_=(ValueError,)), lambda r, x: x is None and r is not None and r.exception is not None),
        ('KeyError, raises() names ValueError', dict(fails='KeyError', raises_=(ValueError,)), lambda r, x: x == 'KeyError'),
        ('KeyError, raises() names its base class LookupError', dict(fails='KeyError', raises_=(LookupError,)), lambda r, x: x is None and r is not None and r.exception is not None),
        ('the run is stopped', dict(stopped=True), lambda r, x: x is None and r is not None and r.exception is not None),
    ]
    for what, kw, good in cases:
        r, raised = run(**kw)
        ok = bool(good(r, raised))
        rep.add({'case': what, 'raised': raised, 'result_exception': None if r is None else repr(getattr(r.exception, 'cls_name', r.exception)),
                 'result_outcome': None if r is None else repr(r.outcome), 'ok': ok})
        if not ok:
            rep.fail(fn.qualname, f'worker:{what}', f'taskproc, {what}: raised {raised}, result exception '
                     f'{None if r is None else getattr(r.exception, "cls_name", r.exception)!r}, outcome {None if r is None else r.outcome!r}', fn.loc)
    return rep


def r9_collect_until_empty(a, tier):
    rep = RuleReport(
        'C18.R9',
        'the collecting loop gives up on pending work only when the run is stopped: in executor_pmap, every `break` / `return` that leaves '
        'the loop over the map of pending futures (`while futures:`) lies under a test of the stop event (`stop.is_set()`); any other '
        'exit (a timeout handler, an error path) ends the generator with futures still pending - their results are never yielded and the '
        'remaining payloads are never submitted',
        floor=1,
    )
    fn = a.p.func(PMAP)
    pvar = _pending_var(fn)
    pm = a.resolver.parents(fn)
    whiles = [n for n in walk_no_defs(fn.node) if isinstance(n, ast.While) and any(isinstance(x, ast.Name) for x in ast.walk(n.test))
              and not (isinstance(n.test, ast.Constant))]
    pending = [w for w in whiles if any(isinstance(x, ast.Name) and x.id == pvar for x in ast.walk(w.test))]
    if not pending:
        raise AnalysisError('C18.R9: the loop over the pending futures (`while futures:`) was not found in executor_pmap')
    for w in pending:
        for n in ast.walk(w):
            if not isinstance(n, (ast.Break, ast.Return)):
                continue
            cur, nearest_loop, under_stop = n, None, False
            while id(cur) in pm and cur is not w:
                par = pm[id(cur)]
                if isinstance(par, (ast.For, ast.While)) and nearest_loop is None and cur in getattr(par, 'body', []) + getattr(par, 'orelse', []):
                    nearest_loop = par
                if isinstance(par, ast.If) and cur in par.body and any(isinstance(c, ast.Call) and dotted(c.func).endswith('is_set') for c in ast.walk(par.test)) \
                        and not any(isinstance(u, ast.UnaryOp) and isinstance(u.op, ast.Not) for u in ast.walk(par.test)):
                    under_stop = True
                cur = par
            leaves = isinstance(n, ast.Return) or nearest_loop is None or nearest_loop is w
            if not leaves:
                continue
            rep.add({'exit': f'{type(n).__name__.lower()} at line {n.lineno}', 'leaves_the_pending_loop': True, 'under_a_stop_test': under_stop})
            if not under_stop:
                rep.fail(fn.qualname, f'pending-loop-exit:{type(n).__name__.lower()}', f'the `{type(n).__name__.lower()}` at {fn.module.relpath}:{n.lineno} leaves the loop over the pending '
                         f'futures without the stop event having been seen set: the generator ends while tasks are still running or waiting, and their payloads get no result', f'{fn.module.relpath}:{n.lineno}')
    rep.add({'pending_loops': len(pending)})
    return rep


WORKER_SETUP = {'sys.setrecursionlimit', 'setrecursionlimit', 'threading.stack_size', 'stack_size', 'resource.setrlimit', 'setrlimit', 'signal.signal', 'os.nice',
                'sys.setswitchinterval'}


def _pool_setup_sites(tree: ast.AST, in_worker_extent) -> list[tuple[str, ast.AST]]:
    out = []
    for n in ast.walk(tree):
        if isinstance(n, ast.Call):
            for kw in n.keywords:
                if kw.arg in ('initializer', 'initargs') and not (isinstance(kw.value, ast.Constant) and kw.value.value in (None, ())):
                    out.append((f'{kw.arg}= of {norm(n.func)}(...)', n))
            if dotted(n.func) in WORKER_SETUP and not in_worker_extent(n):
                out.append((f'{dotted(n.func)}(...) outside the worker function', n))
    return out


def r10_same_environment(a, tier):
    rep = RuleReport(
        'C18.R10',
        'the payload function runs in the same environment on every path: parproc calls the worker function (taskproc) in the caller\'s '
        'interpreter for the sequential mode and for a single task, and in pool workers otherwise, and the property demands the same '
        'multiset of results from both. So (a) no executor / pool of tatsu/parproc is given a worker initializer (initializer= / initargs=: '
        'set-up that only pool workers get), and (b) interpreter-wide set-up the payload depends on (recursion limit, stack size, '
        'resource limits, signal handlers) is done only inside the worker function\'s own extent, which every path runs',
        floor=3,
    )
    tp = a.p.func('tatsu.parproc.task.taskproc')
    extent_nodes = set()
    for f in a.extents.of(tp):
        for n in ast.walk(f.node):
            extent_nodes.add(id(n))
    n_sites = 0
    for mod in a.p.modules.values():
        if not mod.name.startswith('tatsu.parproc'):
            continue
        pools = [n for n in ast.walk(mod.tree) if isinstance(n, ast.Call) and (any(kw.arg in ('max_workers', 'processes') for kw in n.keywords)
                                                                            or dotted(n.func).split('.')[-1].endswith(('Executor', 'Pool')))]
        setups = [n for n in ast.walk(mod.tree) if isinstance(n, ast.Call) and dotted(n.func) in WORKER_SETUP]
        for n in pools:
            n_sites += 1
            rep.add({'module': mod.name, 'pool_or_executor_construction': norm(n.func), 'line': n.lineno, 'keywords': [kw.arg for kw in n.keywords]})
        for n in setups:
            rep.add({'module': mod.name, 'interpreter_setup': dotted(n.func), 'line': n.lineno, 'inside_worker_function': id(n) in extent_nodes})
        for what, n in _pool_setup_sites(mod.tree, lambda n: id(n) in extent_nodes):
            rep.fail(f'{mod.name}', f'worker-environment:{what.split("(")[0].strip()}', f'{what} ({mod.relpath}:{n.lineno}): set-up that only pool workers get, or that is done outside '
                     f'{tp.qualname} - the sequential mode and the single-task shortcut call {tp.name} in the caller\'s interpreter and run the payload without it, '
                     f'so a payload (deep recursion of a nested input) fails there and succeeds in the pool', f'{mod.relpath}:{n.lineno}')
    # the detector itself, on a positive example (the expected number of findings on the repository is zero)
    probe = ast.parse("def w():\n    sys.setrecursionlimit(9)\nwith Pool(max_workers=3, initializer=w) as ex:\n    pass\n")
    hits = _pool_setup_sites(probe, lambda n: False)
    rep.add({'detector_self_check': [h[0] for h in hits]})
    if len(hits) != 2:
        raise AnalysisError('C18.R10: the detector no longer recognises its positive example')
    if n_sites < 2:
        raise AnalysisError(f'C18.R10: only {n_sites} executor / pool constructions found in tatsu/parproc (hand-confirmed: 5)')
    return rep


def r11_variants_delegate_once(a, tier):
    from ..rules.common import run_flags
    rep = RuleReport(
        'C18.R11',
        'every mapping variant that active_pmap() can hand to parproc delivers each task through the verified loop exactly once: on every path '
        '(normal or through a handler) of a variant returned by active_pmap - and of the variants it delegates to - the task iterable is '
        'handed to executor_pmap (or to another variant) at most once, unchanged, together with the worker function; a handler that starts '
        'the run again after results were already yielded delivers them twice [paths: state = delegations so far]',
        floor=2,
    )
    ap = a.p.func('tatsu.parproc.pmap.active_pmap')
    # the mapping variants: the nested GENERATOR functions (a nested plain helper such as `worker_count(max_workers)` maps nothing)
    nested = {f.name: f for f in a.p.functions.values() if f.parent is ap and any(isinstance(n, (ast.Yield, ast.YieldFrom)) for n in walk_no_defs(f.node))}
    # whatever form the selection takes (`if ...: return a` / `return a if ... else b` / a table): the nested functions named in a returned expression
    returned = sorted({x.id for n in walk_no_defs(ap.node) if isinstance(n, ast.Return) and n.value is not None
                       for x in ast.walk(n.value) if isinstance(x, ast.Name) and x.id in nested})
    if not returned:
        raise AnalysisError('C18.R11: active_pmap returns none of its nested variants by name any more')
    todo, seen = list(returned), set()
    while todo:
        name = todo.pop()
        if name in seen or name not in nested or name == 'executor_pmap':
            continue
        seen.add(name)
        fn = nested[name]
        tasks_param = next((p for p in fn.params if p == 'tasks'), None)

        def flagger(ex, f, node, state, fn=fn):
            nm = dotted(node.func)
            if f is fn and nm in nested and nm != fn.name:
                return ('twice',) if 'once' in state else ('once',)
            return ()
        outs = run_flags(a, fn, flagger)
        calls = [n for n in walk_no_defs(fn.node) if isinstance(n, ast.Call) and dotted(n.func) in nested]
        for c in calls:
            todo.append(dotted(c.func))
            args = [norm(x) for x in c.args] + [norm(k.value) for k in c.keywords]
            passes = (tasks_param is None or tasks_param in args) and ('process' not in fn.params or 'process' in args)
            rep.add({'variant': name, 'delegates_to': dotted(c.func), 'arguments': args, 'hands_on_tasks_and_worker_unchanged': passes})
            if not passes:
                rep.fail(fn.qualname, f'variant-args:{name}->{dotted(c.func)}', f'{name} hands {args} to {dotted(c.func)}: not the task iterable / worker function it was given', fn.loc)
        twice = [o for o in outs if 'twice' in o.state]
        never = [o for o in outs if o.kind in ('return', 'next') and 'once' not in o.state and 'twice' not in o.state]
        rep.add({'variant': name, 'returned_by_active_pmap': name in returned, 'paths': len(outs), 'paths_delegating_twice': len(twice), 'normal_paths_without_delegation': len(never)})
        if twice:
            rep.fail(fn.qualname, f'variant-twice:{name}', f'{name} can hand its tasks to a mapping loop a second time (a handler that starts over after the first run raised): '
                     f'results already yielded by the first run are delivered again, or tasks drawn from an iterator are lost', fn.loc)
        if never and calls:
            rep.fail(fn.qualname, f'variant-skips:{name}', f'{name} has a normal path that never hands its tasks to a mapping loop: the payloads get no result', fn.loc)
    return rep


RULES = [r1_draw_submit, r2_pop_yield, r3_snapshot, r4_same_worker, r5_capture, r6_fresh_run_state, r7_dispatch, r8_worker_contract, r9_collect_until_empty, r10_same_environment, r11_variants_delegate_once]
