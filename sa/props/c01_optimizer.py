"""C01.R11 - the optimisation pass every parse runs on (Model.optimized) preserves the expression.

`optimized()` of every grammar-expression class is interpreted on stand-in trees; the tree it returns is compared with the input
after both were brought to a normal form that applies ONLY rewrites valid in the documented PEG semantics (with TatSu's whitespace
and AST rules): a group is its expression, a one-element sequence is its element, nested sequences flatten, a one-option choice is
its option, and an optional around an optional or a non-positive closure / join / gather is that inner expression (which cannot
fail and yields the same value).  Anything else the optimizer does - dropping an element that "adds nothing", removing brackets
around something that merely CAN match empty - changes what is accepted, consumed or skipped."""
from __future__ import annotations

import ast
import itertools

from ..loader import AnalysisError, norm, walk_no_defs
from ..minieval import Unsupported
from ..modelinterp import Hook, ModelInterp, Stub
from ..report import RuleReport
from ..rules.leftrec import Q

PEG = 'tatsu.peg'
CANNOT_FAIL = {'opt', 'clo', 'join', 'gather'}


def ir(n):
    c = n._cls.split('.')[-1]
    at = n._attrs
    if c == 'Token':
        return ('tok', at['token'])
    if c == 'Pattern':
        return ('pat', at['pattern'])
    if c == 'Call':
        return ('call', at['name'])
    if c in ('Void', 'Cut', 'EOF', 'Dot', 'Fail', 'EmptyClosure'):
        return (c.lower(),)
    if c == 'Constant':
        return ('const', at['literal'])
    if c == 'Sequence':
        return ('seq', tuple(ir(x) for x in at['sequence']))
    if c == 'Choice':
        return ('choice', tuple(ir(o._attrs['exp'] if o._cls.endswith('.Option') else o) for o in at['options']))
    if c == 'Option':
        return ir(at['exp'])
    tag = {'Group': 'group', 'Optional': 'opt', 'Closure': 'clo', 'PositiveClosure': 'pclo', 'Lookahead': 'la', 'NegativeLookahead': 'nla',
           'SkipGroup': 'skipgroup', 'SkipTo': 'skipto', 'Override': 'over', 'OverrideList': 'overlist'}.get(c)
    if tag:
        return (tag, ir(at['exp']))
    if c in ('Named', 'NamedList'):
        return (c.lower(), at['name'], ir(at['exp']))
    if c in ('Join', 'PositiveJoin', 'Gather', 'PositiveGather'):
        return ({'Join': 'join', 'PositiveJoin': 'pjoin', 'Gather': 'gather', 'PositiveGather': 'pgather'}[c], ir(at['sep']), ir(at['exp']))
    raise AnalysisError(f'C01.R11: no IR for {c}')


def normal(t):
    k = t[0]
    if k == 'group':
        return normal(t[1])
    if k == 'seq':
        items = []
        for x in t[1]:
            nx = normal(x)
            if nx[0] == 'seq':
                items.extend(nx[1])
            else:
                items.append(nx)
        return items[0] if len(items) == 1 else ('seq', tuple(items))
    if k == 'choice':
        opts = []
        for x in t[1]:
            nx = normal(x)
            if nx[0] == 'choice' and not _mentions(nx, ('cut', 'named', 'namedlist', 'over', 'overlist', 'call')):
                opts.extend(nx[1])  # a | (b | c) | d  ==  a | b | c | d  when the inner choice cannot commit (no cut, also none behind a call/include) and binds nothing
            else:
                opts.append(nx)
        return opts[0] if len(opts) == 1 else ('choice', tuple(opts))
    if k == 'opt':
        inner = normal(t[1])
        return inner if inner[0] in CANNOT_FAIL else ('opt', inner)
    if k in ('named', 'namedlist'):
        return (k, t[1], normal(t[2]))
    if k in ('join', 'pjoin', 'gather', 'pgather'):
        return (k, normal(t[1]), normal(t[2]))
    if len(t) == 2 and isinstance(t[1], tuple):
        return (k, normal(t[1]))
    return t


def _mentions(t, tags) -> bool:
    if isinstance(t, tuple):
        if t and isinstance(t[0], str):
            return t[0] in tags or any(_mentions(x, tags) for x in t[1:])
        return any(_mentions(x, tags) for x in t)
    return False


def _pattern(empty: bool):
    from ..modelinterp import Recorder
    rx = Recorder('regex', results={'match': (lambda interp, s_, empty=empty: object() if empty else None)})
    return Stub(Q['Pattern'], pattern='x*' if empty else 'x+', _regex=rx)


def _call():
    from ..minieval import Obj
    c = Stub(Q['Call'], name='r', _rule=None)
    c._attrs['grammar'] = Obj(rulemap={'r': Stub(Q['Rule'], name='r', exp=Stub(Q['Token'], token='t'))})
    return c


def _terms(deep: bool = False):
    T = lambda: Stub(Q['Token'], token='a')  # noqa: E731
    leaves = {
        'token': T, 'pattern': lambda: _pattern(False), 'empty-matching pattern': lambda: _pattern(True), 'call': lambda: _call(),
        'void': lambda: Stub(Q['Void']), 'cut': lambda: Stub(Q['Cut']), 'constant': lambda: Stub(Q['Constant'], literal='k'),
        'eof': lambda: Stub(f'{PEG}.basic.EOF'), 'dot': lambda: Stub(Q['Dot']),
    }
    box = lambda k, x, **kw: Stub(Q[k], exp=x, **kw)  # noqa: E731
    wrappers = {
        'group': lambda x: box('Group', x), 'optional': lambda x: box('Optional', x), 'closure': lambda x: box('Closure', x),
        'positive closure': lambda x: box('PositiveClosure', x), '&': lambda x: box('Lookahead', x), '!': lambda x: box('NegativeLookahead', x),
        'skip group': lambda x: box('SkipGroup', x), 'name:': lambda x: box('Named', x, name='n'), '@:': lambda x: box('Override', x),
        'join': lambda x: Stub(Q['Join'], exp=x, sep=T()), 'gather': lambda x: Stub(Q['Gather'], exp=x, sep=T()),
        'positive join': lambda x: Stub(Q['PositiveJoin'], exp=x, sep=T()),
        'sequence of one': lambda x: Stub(Q['Sequence'], sequence=[x]),
        'choice of one': lambda x: Stub(Q['Choice'], options=[Stub(Q['Option'], exp=x)]),
    }
    out = []
    for ln, lf in leaves.items():
        out.append((ln, lf))
    d1 = []
    for wn, w in wrappers.items():
        for ln, lf in leaves.items():
            d1.append((f'{wn}({ln})', (lambda w=w, lf=lf: w(lf()))))
    out += d1
    d2 = []
    for wn, w in wrappers.items():
        for n1, f1 in d1:
            d2.append((f'{wn}({n1})', (lambda w=w, f1=f1: w(f1()))))
    out += d2
    if deep:
        # depth 3: the wrappers over all depth-2 terms
        k = 0
        for wn, w in wrappers.items():
            for n2, f2 in d2:
                k += 1
                if k % 1 == 0:
                    out.append((f'{wn}({n2})', (lambda w=w, f2=f2: w(f2()))))
    # sequences and choices of two / three leaves and wrapped leaves (void, cut, constant in every position)
    small = list(leaves.items()) + [(n, f) for n, f in d1 if n.split('(')[0] in ('optional', 'group', '&', '!', 'closure')]
    for (n1, f1), (n2, f2) in itertools.product(small, repeat=2):
        out.append((f'sequence({n1}, {n2})', (lambda f1=f1, f2=f2: Stub(Q['Sequence'], sequence=[f1(), f2()]))))
    for (n1, f1), (n2, f2) in itertools.product(list(leaves.items()), repeat=2):
        out.append((f'choice({n1} | {n2})', (lambda f1=f1, f2=f2: Stub(Q['Choice'], options=[Stub(Q['Option'], exp=f1()), Stub(Q['Option'], exp=f2())]))))
    for (n1, f1), (n2, f2), (n3, f3) in itertools.product(list(leaves.items()), repeat=3):
        out.append((f'sequence({n1}, {n2}, {n3})', (lambda f1=f1, f2=f2, f3=f3: Stub(Q['Sequence'], sequence=[f1(), f2(), f3()]))))
    ch = lambda *opts: Stub(Q['Choice'], options=[Stub(Q['Option'], exp=o) for o in opts])  # noqa: E731
    sq = lambda *xs: Stub(Q['Sequence'], sequence=list(xs))  # noqa: E731
    gr = lambda x: Stub(Q['Group'], exp=x)  # noqa: E731
    tk = lambda c: Stub(Q['Token'], token=c)  # noqa: E731
    cut = lambda: Stub(Q['Cut'])  # noqa: E731
    out += [
        ('nested choice without a cut: a | (b | c) | d', lambda: ch(tk('a'), gr(ch(tk('b'), tk('c'))), tk('d'))),
        ('nested choice with a cut in an inner option: a | (b ~ c | b x) | b d', lambda: ch(tk('a'), gr(ch(sq(tk('b'), cut(), tk('c')), sq(tk('b'), tk('x')))), sq(tk('b'), tk('d')))),
        ('nested choice with a cut behind a group: a | ((b ~ c) | b x) | b d', lambda: ch(tk('a'), gr(ch(gr(sq(tk('b'), cut(), tk('c'))), sq(tk('b'), tk('x')))), sq(tk('b'), tk('d')))),
        ('nested choice with a cut in a grouped prefix: a | ((a ~) b | c) | d', lambda: ch(tk('a'), gr(ch(sq(gr(sq(tk('a'), cut())), tk('b')), tk('c'))), tk('d'))),
        ('nested choice as the last option: a | (b ~ c | d)', lambda: ch(tk('a'), gr(ch(sq(tk('b'), cut(), tk('c')), tk('d'))))),
        ('nested choice under a name: a | x:(b | c)', lambda: ch(tk('a'), Stub(Q['Named'], name='x', exp=gr(ch(tk('b'), tk('c')))))),
    ]
    return out


def _copy(x):
    return Stub(x._cls, **dict(x._attrs)) if isinstance(x, Stub) else x


def r11_optimizer(a, tier):
    rep = RuleReport(
        'C01.R11',
        'the optimisation pass preserves the expression: optimized() of every expression class, interpreted on every term of depth <= 2 over '
        '{token, pattern, call, void, cut, constant, end of text, any char} x {group, optional, closure, positive closure, lookaheads, skip '
        'group, name, override, joins, one-element sequence / choice} and on all two- and three-element sequences and two-option choices, '
        'returns a tree that is equal to its input modulo ONLY: group removal, one-element sequence / choice removal, sequence flattening, '
        'and dropping an optional around an optional or non-positive closure / join / gather',
        floor=400,
    )
    terms = _terms(deep=(tier == 'thorough'))
    if tier != 'thorough':
        # quick: every leaf and depth-1 term, every 5th deeper term
        head = [t for t in terms if (t[0].count('(') <= 1 and not t[0].startswith(('sequence(', 'choice('))) or t[0].startswith('nested choice')]
        rest = [t for t in terms if t not in head]
        terms = head + rest[::5]
        rep.text += ' [quick tier: all terms of depth <= 1 and every 5th deeper term; thorough: all, plus all wrapper terms of depth 3]'
        rep.floor = 300
    G = {'copy': Hook(_copy), 'typename': Hook(lambda o: o._cls.split('.')[-1] if isinstance(o, Stub) else type(o).__name__),
         'Group': Hook(lambda exp=None, **k: Stub(Q['Group'], exp=exp)), 'Choice': Hook(lambda options=None, **k: Stub(Q['Choice'], options=options)),
         'Sequence': Hook(lambda sequence=None, **k: Stub(Q['Sequence'], sequence=sequence))}
    n_bad = 0
    for what, mk in terms:
        node = mk()
        before = ir(node)
        it = ModelInterp(a, dict(G))
        # class patterns of isinstance() in the optimizer need the classes themselves, constructors are the hooks above
        from ..modelinterp import ClassRef
        for nm in ('Group', 'Choice', 'Sequence'):
            it.globals[nm] = Hook(G[nm].fn, q=Q[nm])
        try:
            res = it.apply(it.get_attr(node, 'optimized'), [], {})
        except Unsupported as e:
            raise AnalysisError(f'C01.R11: cannot interpret optimized() of {what}: {e}') from e
        after = ir(res) if isinstance(res, Stub) else ('<not a model>', repr(res))
        ok = normal(before) == normal(after)
        rep.add({'term': what, 'optimized': repr(after)[:120], 'same_expression': ok})
        if not ok and n_bad < 8:
            n_bad += 1
            cls = node._cls
            m = a.ct.lookup(cls, 'optimized')
            rep.fail(m.qualname if m else cls, f'optimizer:{what}', f'optimized() turns {what} = {normal(before)} into {normal(after)}: the parse runs on the optimized '
                     f'grammar, which accepts / consumes / skips differently from the grammar that was written', m.loc if m else None)
    return rep


def calls_keep_their_rule(a, rule_id):
    """the optimisation pass never replaces a reference to a rule by a reference to, or the body of, the rule that rule refers to"""
    from ..minieval import Unsupported
    from ..modelinterp import Bound, ModelInterp
    rep = RuleReport(
        rule_id,
        'a rule invocation stays an invocation of THAT rule through the optimisation pass (which every parse and every generated parser '
        'goes through): the boundary of a rule is where its @name keyword check, its semantic action, its parse information and its memo '
        'entry live, so `ident` may not be optimised into the `word` it is an alias of. The alias-collapsing code of Call.optimized / '
        'Rule.optimized acts only on references that carry their resolved rule (Call._rule); as long as nothing but that code itself '
        'stores into Call._rule it cannot run. Where some other code stores it, Call.optimized and Rule.optimized are interpreted on '
        'resolved references (an alias of an @name rule, a chain of aliases) and must return a call of the same rule / keep the call',
        floor=1,
    )
    CALL, RULE = Q['Call'], 'tatsu.peg.base.Rule'
    writers = []
    for f in a.p.functions.values():
        if not f.module.name.startswith('tatsu.peg') and not f.module.name.startswith('tatsu.api') and not f.module.name.startswith('tatsu.contexts'):
            continue
        for n in walk_no_defs(f.node):
            if isinstance(n, ast.Attribute) and isinstance(n.ctx, ast.Store) and n.attr == '_rule':
                owner_is_call = (f.cls is not None and a.ct.is_subclass(f.cls.qualname, CALL) and norm(n.value) == 'self') or (
                    f.cls is None or not a.ct.is_subclass(f.cls.qualname, 'tatsu.peg.base.Grammar'))
                if f.cls is not None and a.ct.is_subclass(f.cls.qualname, 'tatsu.peg.base.Grammar') and norm(n.value) == 'self':
                    continue  # Grammar._rule is the namespace of rules, another attribute
                if owner_is_call:
                    writers.append((f, n))
    inside_optimizer = [(f, n) for f, n in writers if f.name == 'optimized']
    others = [(f, n) for f, n in writers if f.name != 'optimized']
    rep.add({'stores_into_Call._rule': [f'{f.qualname}: {norm(n)}' for f, n in writers], 'outside_the_optimizer': [f.qualname for f, _ in others]})
    if not others:
        rep.notes.append('no code outside optimized() resolves Call._rule: the alias-collapsing branches cannot run')
        return rep
    co, ro = a.ct.lookup(CALL, 'optimized'), a.ct.lookup(RULE, 'optimized')

    def mk_rule(name, exp, **flags):
        return Stub(RULE, name=name, exp=exp, params=(), kwparams={}, decorators=[], base=None, is_name=flags.get('is_name', False), is_tokn=False, no_memo=False,
                    no_stak=False, is_memo=True, is_lrec=False)
    word = mk_rule('word', Stub(Q['Pattern'], pattern='\\w+'))
    ident = mk_rule('ident', Stub(CALL, name='word', _rule=word), is_name=True)
    alias2 = mk_rule('alias2', Stub(CALL, name='ident', _rule=ident))
    G = {'copy': Hook(_copy), 'cast': Hook(lambda t, v: v), 'Call': Hook(lambda name=None, **k: Stub(CALL, name=name, _rule=None), q=CALL)}
    for what, target in (('a call of the @name rule `ident`, an alias of `word`', ident), ('a call of `alias2`, an alias of `ident`', alias2)):
        call = Stub(CALL, name=target._attrs['name'], _rule=target)
        try:
            got = ModelInterp(a, dict(G)).call_bound(Bound(call, co), [], {})
        except Unsupported as e:
            raise AnalysisError(f'{rule_id}: cannot interpret Call.optimized: {e}') from e
        gname = got._attrs.get('name') if isinstance(got, Stub) else None
        ok = isinstance(got, Stub) and got._cls == CALL and gname == target._attrs['name']
        rep.add({'optimized': what, 'gives': f'call of {gname!r}' if gname else repr(got)[:60], 'ok': ok})
        if not ok:
            rep.fail(co.qualname, f'call-bypasses-rule:{target._attrs["name"]}', f'{what} is optimised into ' + (f'a call of `{gname}`' if gname else repr(got)[:60]) +
                     f': the rule `{target._attrs["name"]}` is never invoked, so its @name keyword check, semantic action and parse information are skipped (resolved by '
                     f'{others[0][0].qualname})', co.loc)
    start = mk_rule('start', Stub(CALL, name='ident', _rule=ident))
    start._attrs['lookahead'] = Hook(lambda *x, **k: set())  # the lookahead sets are not part of this obligation
    try:
        it = ModelInterp(a, dict(G))
        it.globals['Sequence'] = Hook(lambda sequence=None, **k: Stub(Q['Sequence'], sequence=sequence), q=Q['Sequence'])
        it.globals['Group'] = Hook(lambda exp=None, **k: Stub(Q['Group'], exp=exp), q=Q['Group'])
        got = it.call_bound(Bound(start, ro), [], {})
        body = got._attrs.get('exp') if isinstance(got, Stub) else None
    except Unsupported as e:
        if rep.findings:
            rep.notes.append(f'Rule.optimized not interpreted ({e}); the findings on Call.optimized stand')
            return rep
        raise AnalysisError(f'{rule_id}: cannot interpret Rule.optimized: {e}') from e
    ok = isinstance(body, Stub) and body._cls == CALL and body._attrs.get('name') == 'ident'
    rep.add({'optimized': 'the rule `start = ident`', 'body': (body._cls.split('.')[-1] + ' ' + str(body._attrs.get('name', ''))) if isinstance(body, Stub) else repr(body)[:40], 'ok': ok})
    if not ok:
        rep.fail(ro.qualname, 'rule-inlines-call', 'the rule `start = ident` is optimised into the body of `ident` (or of the rule ident refers to): invoking `start` no longer '
                 'invokes `ident`', ro.loc)
    return rep


RULE_FIELDS = ('name', 'params', 'kwparams', 'decorators', 'base', 'is_name', 'is_tokn', 'no_memo', 'no_stak', 'is_memo', 'is_lrec')


def rule_and_grammar_optimized(a, rule_id):
    """Rule.optimized / Grammar.optimized: what every parse runs on is the grammar that was written, rule by rule."""
    from ..modelinterp import Bound
    rep = RuleReport(
        rule_id,
        'the optimised grammar every parse (and every generated parser) runs on has the rules that were written: Rule.optimized, interpreted '
        'on stand-in rules over 14 body shapes x 3 flag settings, returns a rule with the same name, parameters, keyword parameters, '
        'decorators, base and flags (is_name, is_tokn, no_memo, no_stak, is_memo, is_lrec) whose body equals the written body modulo the '
        'rewrites valid in PEG (C01.R11), and leaves the rule it was called on as it was; Grammar.optimized, interpreted on a stand-in '
        'grammar, returns the rules in the written order, each under its own name with its own body, does not change the grammar it was '
        'called on, and answers a second call with the same object',
        floor=30,
    )
    RULE, GRAMMAR = 'tatsu.peg.base.Rule', 'tatsu.peg.base.Grammar'
    ro, go = a.ct.lookup(RULE, 'optimized'), a.ct.lookup(GRAMMAR, 'optimized')
    if ro is None or go is None:
        raise AnalysisError(f'{rule_id}: Rule.optimized / Grammar.optimized not found')
    tk = lambda c: Stub(Q['Token'], token=c)  # noqa: E731
    sq = lambda *xs: Stub(Q['Sequence'], sequence=list(xs))  # noqa: E731
    gr = lambda x: Stub(Q['Group'], exp=x)  # noqa: E731
    ch = lambda *opts: Stub(Q['Choice'], options=[Stub(Q['Option'], exp=o) for o in opts])  # noqa: E731
    bodies = {
        "'a'": lambda: tk('a'), "sequence of one: 'a'": lambda: sq(tk('a')), "('a')": lambda: gr(tk('a')), "('a' 'b')": lambda: gr(sq(tk('a'), tk('b'))),
        "'a' 'b'": lambda: sq(tk('a'), tk('b')), "(('a'))": lambda: gr(gr(tk('a'))), "('a' | 'b')": lambda: gr(ch(tk('a'), tk('b'))),
        "x:'a'": lambda: Stub(Q['Named'], name='x', exp=tk('a')), "(x:'a')": lambda: gr(Stub(Q['Named'], name='x', exp=tk('a'))),
        "{'a'}": lambda: Stub(Q['Closure'], exp=tk('a')), "['a']": lambda: Stub(Q['Optional'], exp=tk('a')), 'call of r (unresolved)': lambda: _call(),
        "('a') 'b'": lambda: sq(gr(tk('a')), tk('b')), "'a' ~ 'b' | 'c'": lambda: ch(sq(tk('a'), Stub(Q['Cut']), tk('b')), tk('c')),
    }
    flagsets = [
        dict(params=(), kwparams={}, decorators=[], base=None, is_name=False, is_tokn=False, no_memo=False, no_stak=False, is_memo=True, is_lrec=False),
        dict(params=('P', 1), kwparams={'k': 'v'}, decorators=['name', 'nomemo'], base='basis', is_name=True, is_tokn=False, no_memo=True, no_stak=True, is_memo=False, is_lrec=True),
        dict(params=(), kwparams={}, decorators=['override'], base=None, is_name=False, is_tokn=True, no_memo=False, no_stak=False, is_memo=True, is_lrec=True),
    ]

    def interp():
        it = ModelInterp(a, {'copy': Hook(_copy), 'typename': Hook(lambda o: o._cls.split('.')[-1] if isinstance(o, Stub) else type(o).__name__)})
        for nm in ('Group', 'Choice', 'Sequence'):
            it.globals[nm] = Hook((lambda nm=nm: (lambda *p, **k: Stub(Q[nm], **({'exp': (p[0] if p else k.get('exp'))} if nm == 'Group' else
                                                                              {'options': (p[0] if p else k.get('options'))} if nm == 'Choice' else
                                                                              {'sequence': (p[0] if p else k.get('sequence'))}))))(), q=Q[nm])
        it.globals['Call'] = Hook(lambda name=None, **k: Stub(Q['Call'], name=name, _rule=None), q=Q['Call'])
        return it

    def mk_rule(name, body, fl):
        r = Stub(RULE, name=name, exp=body, _lookahead=None, **{k: (list(v) if isinstance(v, list) else dict(v) if isinstance(v, dict) else v) for k, v in fl.items()})
        r._attrs['lookahead'] = Hook(lambda *x, **k: frozenset())
        return r

    for bname, mk in bodies.items():
        for i, fl in enumerate(flagsets):
            rule = mk_rule('r1', mk(), fl)
            before = ir(rule._attrs['exp'])
            body_obj = rule._attrs['exp']
            try:
                got = interp().call_bound(Bound(rule, ro), [], {})
            except Unsupported as e:
                raise AnalysisError(f'{rule_id}: cannot interpret Rule.optimized on the body {bname}: {e}') from e
            if not isinstance(got, Stub) or got._cls != RULE:
                rep.add({'body': bname, 'flags': i, 'result': repr(got)[:60], 'ok': False})
                rep.fail(ro.qualname, f'rule-optimized:{bname}:not-a-rule', f'Rule.optimized of `r1 = {bname}` returns {got!r}, not a rule', ro.loc)
                continue
            after = ir(got._attrs['exp']) if isinstance(got._attrs.get('exp'), Stub) else ('<not a model>', repr(got._attrs.get('exp')))
            same_body = normal(before) == normal(after)
            changed = [f for f in RULE_FIELDS if got._attrs.get(f) != ({'name': 'r1', **fl}[f])]
            untouched = rule._attrs['exp'] is body_obj and ir(rule._attrs['exp']) == before and all(rule._attrs.get(f) == {'name': 'r1', **fl}[f] for f in RULE_FIELDS)
            ok = same_body and not changed and untouched and got is not rule
            rep.add({'body': bname, 'flags': i, 'optimized_body': repr(after)[:100], 'same_expression': same_body, 'fields_changed': changed, 'original_untouched': untouched, 'ok': ok})
            if not same_body:
                rep.fail(ro.qualname, f'rule-optimized:{bname}', f'Rule.optimized turns the body of `r1 = {bname}` from {normal(before)} into {normal(after)}: the parse runs on a '
                         f'rule that accepts / consumes / returns differently from the rule that was written', ro.loc)
            if changed:
                rep.fail(ro.qualname, f'rule-optimized-fields:{",".join(changed)}', f'Rule.optimized of a rule with {fl} returns a rule whose {changed} differ '
                         f'({ {f: got._attrs.get(f) for f in changed} }): the optimised grammar runs the rule under other parameters / flags than the written one', ro.loc)
            if not untouched or got is rule:
                rep.fail(ro.qualname, f'rule-optimized-mutates:{bname}', f'Rule.optimized changes (or returns) the rule it was called on (`r1 = {bname}`): the written grammar is '
                         f'altered by preparing a parse', ro.loc)
    # Grammar.optimized
    r_a, r_b, r_c = mk_rule('gamma', gr(tk('a')), flagsets[0]), mk_rule('alpha', sq(tk('b')), flagsets[1]), mk_rule('beta', _call(), flagsets[2])
    rules_before = (r_a, r_b, r_c)
    inits = []
    g = Stub(GRAMMAR, name='G', rules=rules_before, directives={'left_recursion': True}, keywords=['k'], _optimized=None)
    g._attrs['initialize'] = Hook(lambda *x, **k: inits.append(1))

    def gcopy(x):
        y = _copy(x)
        if isinstance(y, Stub) and y._cls == GRAMMAR:
            y._attrs['initialize'] = Hook(lambda *x_, **k: inits.append(1))
        return y
    it = interp()
    it.globals['copy'] = Hook(gcopy)
    try:
        g1 = it.call_bound(Bound(g, go), [], {})
        g2 = it.call_bound(Bound(g, go), [], {})
        g3 = it.call_bound(Bound(g1, go), [], {}) if isinstance(g1, Stub) else None
    except Unsupported as e:
        raise AnalysisError(f'{rule_id}: cannot interpret Grammar.optimized: {e}') from e
    ok_type = isinstance(g1, Stub) and g1._cls == GRAMMAR
    names = [r._attrs.get('name') for r in g1._attrs.get('rules', ())] if ok_type else None
    bodies_ok = ok_type and names == ['gamma', 'alpha', 'beta'] and all(
        normal(ir(n._attrs['exp'])) == normal(ir(o._attrs['exp'])) for n, o in zip(g1._attrs['rules'], rules_before))
    kept = ok_type and g1._attrs.get('directives') == {'left_recursion': True} and g1._attrs.get('keywords') == ['k'] and g1._attrs.get('name') == 'G'
    orig_ok = g._attrs['rules'] is rules_before and all(x is y for x, y in zip(g._attrs['rules'], (r_a, r_b, r_c)))
    rep.add({'Grammar.optimized': 'three rules (gamma, alpha, beta)', 'rule_names': names, 'bodies_equal': bodies_ok, 'directives_keywords_name_kept': kept,
             'original_rules_untouched': orig_ok, 'second_call_same_object': g2 is g1, 'optimized_of_optimized_same_object': g3 is g1, 'initialized': len(inits)})
    if not ok_type or names != ['gamma', 'alpha', 'beta'] or not bodies_ok:
        rep.fail(go.qualname, 'grammar-optimized:rules', f'Grammar.optimized of a grammar with the rules gamma, alpha, beta returns the rules {names} '
                 f'(bodies equal: {bodies_ok}): the parse runs on other rules, or in another order (the first rule is the default start rule), than written', go.loc)
    if ok_type and not kept:
        rep.fail(go.qualname, 'grammar-optimized:settings', 'Grammar.optimized loses the name, directives or keywords of the grammar', go.loc)
    if not orig_ok:
        rep.fail(go.qualname, 'grammar-optimized:mutates', 'Grammar.optimized replaces the rules of the grammar it was called on', go.loc)
    if ok_type and (g2 is not g1 or g3 is not g1):
        rep.fail(go.qualname, 'grammar-optimized:cache', 'a second Grammar.optimized() (or optimized() of the optimised grammar) builds another grammar: parses on the '
                 'same model stop sharing the analysed rules (and each parse pays the whole analysis again)', go.loc)
    if ok_type and not inits:
        rep.fail(go.qualname, 'grammar-optimized:initialize', 'Grammar.optimized does not initialize() the optimised copy: its rule map, left-recursion marks and lookahead sets '
                 'are those of the unoptimised rules', go.loc)
    return rep
