"""C16 - left recursion is detected exactly (structural clauses only)."""
from ..rules.common import rule_chain

LEVEL = 'other'
TECHNIQUE = 'static: cooperative-__init_subclass__ path rule over the static MRO (R-CHAIN)'
LEVEL_TEXT = ('Decides only structural necessary conditions of C16 (class-identity premise of the left-recursion '
              'analysis); exactness of the graph algorithm over all rule graphs is not decided statically.')
LEVEL_NOTE = 'CPython: typing.Protocol.__init_subclass__ clears _is_protocol only if every __init_subclass__ before it in the MRO chains to super().'
EXPLANATION = ('Static analysis of /repo sources. R-CHAIN: every __init_subclass__ in front of typing.Protocol in the '
               'MRO of a grammar-model class calls super().__init_subclass__ on all paths (path-state execution).')
ASSUMPTIONS = [LEVEL_NOTE]


def r_chain(a, tier):
    return rule_chain(a, 'C16.R-CHAIN')


RULES = [r_chain]
