"""C16 - left recursion is detected exactly, and never causes unbounded recursion (structural clauses)."""
from __future__ import annotations

import ast

from ..loader import AnalysisError, dotted, norm, walk_no_defs
from ..report import RuleReport
from ..rules.common import rule_chain, run_flags
from ..rules.leftrec import rule_all_small_graphs, rule_left_call_table, rule_nullable_table

LEVEL = 'other'
TECHNIQUE = ('static: interpretation of the nullable methods, of the left-call analysis and of the SCC/leader marking on '
             'stand-in model trees - exhaustive over all rule graphs with up to 3 rules - against the table read off the parse '
             'primitives and a graph oracle (every cycle has a marked rule), guarded-marking and error-condition path rules, R-CHAIN')
LEVEL_TEXT = ('Decides from the source: class identity of the model classes is nominal (R-CHAIN); is_nullable() of every '
              'expression class and the left-call extraction of the analysis agree with the documented table on a complete set '
              'of expression shapes over {call, token, optional, closure, positive closure, lookaheads, group, named, cut, void, '
              'constant, pattern, join}; marking of rules happens only under the SCC/self-loop guards after a reset; the grammar '
              'error is raised exactly when left-recursive rules exist and left recursion is off; the runtime guard exists. '
              'The marking algorithm is decided exhaustively for all graphs with up to 3 rules (the quantifier of the property); larger graphs and actual recursion depth are not decided.')
LEVEL_NOTE = ('CPython: typing.Protocol.__init_subclass__ clears _is_protocol only if every __init_subclass__ before it in the MRO '
              'chains to super(). The nullable table (DESIGN appendix C) is the oracle.')
EXPLANATION = ('Static analysis of /repo sources, TatSu not imported. Model methods are interpreted by the whitelisted evaluator '
               'on checker-built stand-in trees, resolving methods through the static MRO.')
ASSUMPTIONS = [LEVEL_NOTE]


def r_chain(a, tier):
    return rule_chain(a, 'C16.R-CHAIN')


def r1a(a, tier):
    return rule_nullable_table(a, 'C16.R1a')


def r1b(a, tier):
    return rule_left_call_table(a, 'C16.R1b')


def r2_guarded_marking(a, tier):
    rep = RuleReport(
        'C16.R2',
        'in mark_left_recursion every rule is first reset (is_lrec False, is_memo from no_memo); is_lrec=True is stored only '
        'under the guard `len(scc) > 1` (for the chosen leader) or under the self-loop guard `name in graph[name]`; is_memo=False '
        'is stored for every member of a multi-rule SCC; the function returns the marked rules',
        floor=4,
    )
    fn = a.p.func('tatsu.peg.leftrec.pegen.mark_left_recursion')
    pm = a.resolver.parents(fn)

    def guards(n):
        out = []
        cur = n
        while id(cur) in pm:
            par = pm[id(cur)]
            if isinstance(par, ast.If):
                in_body = any(cur is s or any(x is cur for x in ast.walk(s)) for s in par.body)
                out.append(('' if in_body else 'not ') + norm(par.test))
            cur = par
        return out

    stores = []
    for n in walk_no_defs(fn.node):
        if isinstance(n, ast.Assign) and isinstance(n.targets[0], ast.Attribute) and n.targets[0].attr in ('is_lrec', 'is_memo'):
            stores.append((n.targets[0].attr, norm(n.value), guards(n), n))
    resets = [s for s in stores if not s[2]]
    marks = [s for s in stores if s[0] == 'is_lrec' and s[1] == 'True']
    rep.add({'stores': [(s[0], s[1], s[2]) for s in stores]})
    if not any(s[0] == 'is_lrec' and s[1] == 'False' for s in resets):
        rep.fail(fn.qualname, 'no-reset', 'rules are not reset to is_lrec=False before marking: a re-initialised grammar keeps stale marks', fn.loc)
    if not marks:
        rep.fail(fn.qualname, 'no-mark', 'no store of is_lrec=True found', fn.loc)
    for attr, val, g, n in marks:
        ok = any('len(scc) > 1' in x for x in g) or any('in graph' in x and not x.startswith('not ') for x in g)
        rep.add({'mark': norm(n), 'guards': g, 'guarded': ok})
        if not ok:
            rep.fail(fn.qualname, f'unguarded-mark:{norm(n)}', f'`{norm(n)}` is not under the multi-rule-SCC guard or the self-loop '
                     f'guard (guards: {g}): rules on no cycle are treated as left recursive and lose memoization', f'{fn.module.relpath}:{n.lineno}')
    memo_off = [s for s in stores if s[0] == 'is_memo' and s[1] == 'False']
    if not any(any('len(scc) > 1' in x for x in g) for _, _, g, _ in memo_off):
        rep.fail(fn.qualname, 'scc-memo', 'members of a multi-rule SCC are not set is_memo=False', fn.loc)
    rets = [norm(r.value) for r in walk_no_defs(fn.node) if isinstance(r, ast.Return) and r.value is not None]
    ok = any('is_lrec' in r for r in rets)
    rep.add({'returns': rets, 'returns_marked_rules': ok})
    if not ok:
        rep.fail(fn.qualname, 'return-marked', 'mark_left_recursion does not return the rules it marked', fn.loc)
    return rep


def r3_error_condition(a, tier):
    rep = RuleReport(
        'C16.R3',
        'Grammar._mark_left_recursion raises GrammarError iff the analysis returned left-recursive rules and '
        'config.left_recursion is false; ParserEngine.recursive_call raises FailedLeftRecursion when left recursion is disabled; '
        'rule_call installs the left-recursion guard before evaluating the body',
        floor=3,
    )
    fn = a.p.func('tatsu.peg.base.Grammar._mark_left_recursion')
    # interpreted on a stand-in grammar: the analysis result (none / one marked rule) x config.left_recursion
    from ..minieval import Obj, Raised, Unsupported
    from ..modelinterp import Hook, ModelInterp, Stub
    for marked in (False, True):
        for allowed in (False, True):
            rules = [Obj(name='a', is_lrec=marked)]
            seen = []

            def analysis(rs, seen=seen, marked=marked):
                seen.append(rs)
                return [r for r in rs if marked]
            me = Stub('tatsu.peg.base.Grammar', rules=rules, config=Obj(left_recursion=allowed))
            it = ModelInterp(a, {'mark_left_recursion': Hook(analysis)})
            raised = None
            try:
                it.call_fn(fn, [me])
            except Raised as r:
                raised = r.cls_name
            except Unsupported as e:
                raise AnalysisError(f'cannot interpret {fn.qualname}: {e}') from e
            want = 'GrammarError' if (marked and not allowed) else None
            ok = raised == want and len(seen) == 1 and seen[0] is rules
            rep.add({'fn': fn.qualname, 'left_recursive_rules_found': marked, 'config.left_recursion': allowed, 'raises': raised,
                     'analysis_ran_over_self.rules': len(seen) == 1 and seen[0] is rules, 'ok': ok})
            if not ok:
                rep.fail(fn.qualname, f'error-condition:{marked}:{allowed}', f'with left-recursive rules {"found" if marked else "absent"} and '
                         f'config.left_recursion={allowed}, _mark_left_recursion raises {raised} (analysis run over self.rules: '
                         f'{len(seen) == 1 and seen[0] is rules}); required: {want or "no error"} - GrammarError exactly when rules '
                         f'were marked and left recursion is disabled', fn.loc)
    rc = a.p.func('tatsu.contexts.engine.ParserEngine.recursive_call')
    ok = False
    for n in walk_no_defs(rc.node):
        if isinstance(n, ast.If) and norm(n.test) == 'not self.config.left_recursion':
            ok = any(isinstance(x, ast.Raise) and x.exc is not None and 'FailedLeftRecursion' in norm(x.exc) for s in n.body for x in ast.walk(s))
    rep.add({'recursive_call_refuses_when_disabled': ok})
    if not ok:
        rep.fail(rc.qualname, 'runtime-disabled', 'recursive_call does not raise FailedLeftRecursion when left recursion is disabled', rc.loc)
    rl = a.p.func('tatsu.contexts.engine.ParserEngine.rule_call')

    def flagger(ex, f, call, state):
        nm = dotted(call.func)
        if f is rl and nm == 'self.set_left_recursion_guard':
            return ('guarded',)
        if f is rl and nm == 'self.func_call' and 'guarded' not in state:
            return ('body_before_guard',)
        return ()

    bad = any('body_before_guard' in o.state for o in run_flags(a, rl, flagger))
    rep.add({'guard_before_body': not bad})
    if bad:
        rep.fail(rl.qualname, 'no-guard', 'rule_call evaluates the rule body before installing the left-recursion guard memo: an '
                 'undetected left-recursive rule recurses without bound', rl.loc)
    g = a.p.func('tatsu.contexts.engine.ParserEngine.set_left_recursion_guard')
    stores_guard = any(isinstance(n, ast.Call) and dotted(n.func) == 'self.memoize' for n in walk_no_defs(g.node)) or any(
        isinstance(n, ast.Assign) and isinstance(n.targets[0], ast.Subscript) and norm(n.targets[0].value) == 'self._memos'
        for n in walk_no_defs(g.node))  # either way of storing the guard serves C16 (the gate itself is C04.R2's business)
    ok = stores_guard and any('FailedLeftRecursion' in norm(n) for n in walk_no_defs(g.node) if isinstance(n, ast.Call))
    rep.add({'guard_memoizes_FailedLeftRecursion': ok})
    if not ok:
        rep.fail(g.qualname, 'guard-shape', 'the guard does not memoize a FailedLeftRecursion for the key', g.loc)
    return rep


def r4_small_graphs(a, tier):
    return rule_all_small_graphs(a, 'C16.R4', tier)


RULES = [r_chain, r1a, r1b, r2_guarded_marking, r3_error_condition, r4_small_graphs]
