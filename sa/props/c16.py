"""C16 - left recursion is detected exactly, and never causes unbounded recursion (structural clauses)."""
from __future__ import annotations

import ast

from ..loader import AnalysisError, dotted, norm, walk_no_defs
from ..report import RuleReport
from ..rules.common import rule_chain, run_flags
from ..rules.leftrec import rule_all_small_graphs, rule_left_call_table, rule_nullable_table

LEVEL = 'other'
TECHNIQUE = ('static: interpretation of the nullable methods, of the left-call analysis and of the SCC/leader marking on '
             'stand-in model trees - exhaustive over all rule graphs with up to 3 rules and all expression terms of depth <= 2 - against the table read off the parse '
             'primitives and a graph oracle (every cycle has a marked rule), guarded-marking and error-condition path rules, R-CHAIN')
LEVEL_TEXT = ('Decides from the source: class identity of the model classes is nominal (R-CHAIN); is_nullable() of every '
              'expression class and the left-call extraction of the analysis agree with the documented table on a complete set '
              'of expression shapes over {call, token, optional, closure, positive closure, lookaheads, group, named, cut, void, '
              'constant, pattern, join}; marking of rules happens only under the SCC/self-loop guards after a reset; the grammar '
              'error is raised exactly when left-recursive rules exist and left recursion is off; the runtime guard exists. '
              'The marking algorithm is decided exhaustively for all graphs with up to 3 rules (the quantifier of the property); larger graphs and actual recursion depth are not decided.')
TECHNIQUE += '; recursive-grammar cases for the nullable computation (termination), rule-include cases for left calls, error condition interpreted with a cycle unreachable from the start rule'
LEVEL_TEXT += ' Added clauses: is_nullable terminates on recursive rules; a left call through `>rule` is seen; cycles are detected in all rules, not only those reachable from the first rule.'
TECHNIQUE += '; pegen._is_nullable_safe against the same nullable table incl. nested sequences/choices; an exception raised by the interpreted marking is a finding'
LEVEL_TEXT += " Added clause: the analysis' own nullable helper agrees with the table on nested sequences and choices."
TECHNIQUE += '; bare-option choices (the optimized grammar) in the nullable table'
LEVEL_TEXT += ' Added clause: a choice whose options are bare expressions is nullable iff an option is.'
TECHNIQUE += '; the seed store is pruned only by its owners (= C04.R2)'
LEVEL_NOTE = ('CPython: typing.Protocol.__init_subclass__ clears _is_protocol only if every __init_subclass__ before it in the MRO '
              'chains to super(). The nullable table (DESIGN appendix C) is the oracle.')
EXPLANATION = ('Static analysis of /repo sources, TatSu not imported. Model methods are interpreted by the whitelisted evaluator '
               'on checker-built stand-in trees, resolving methods through the static MRO.')
ASSUMPTIONS = [LEVEL_NOTE]


def r_chain(a, tier):
    return rule_chain(a, 'C16.R-CHAIN')


def r1a(a, tier):
    return rule_nullable_table(a, 'C16.R1a')


def r1b(a, tier):
    return rule_left_call_table(a, 'C16.R1b', thorough=tier == 'thorough')


def r2_guarded_marking(a, tier):
    from ..rules.leftrec import B, Q, _MI
    from ..modelinterp import Stub
    from ..minieval import Unsupported
    rep = RuleReport(
        'C16.R2',
        'mark_left_recursion, interpreted on named rule graphs with stale marks and @nomemo rules: every rule is first reset '
        '(is_lrec False, is_memo = not no_memo) so that a re-initialised grammar keeps no stale mark; is_lrec=True only on a rule of '
        'a cycle; is_memo=False for every rule of a cycle with more than one rule; a @nomemo rule stays unmemoized; the function '
        'returns exactly the rules it marked',
        floor=4,
    )
    fn = a.p.func('tatsu.peg.leftrec.pegen.mark_left_recursion')
    b = B(a)
    cases = [
        # name, edges, nomemo rules, expected: marked subset-of, memo-false must include, memo-true must include
        ('no cycle, stale marks', {('a', 'b'), ('b', 'c')}, set(), set(), set(), {'a', 'b', 'c'}),
        ('self loop', {('a', 'a'), ('a', 'b')}, set(), {'a'}, set(), {'b', 'c'}),
        ('two-rule cycle', {('a', 'b'), ('b', 'a')}, set(), {'a', 'b'}, {'a', 'b'}, {'c'}),
        ('three-rule cycle', {('a', 'b'), ('b', 'c'), ('c', 'a')}, set(), {'a', 'b', 'c'}, {'a', 'b', 'c'}, set()),
        ('@nomemo rule off the cycle', {('a', 'a')}, {'c'}, {'a'}, {'c'}, {'b'}),
        ('cycle reached from outside', {('c', 'a'), ('a', 'b'), ('b', 'a')}, set(), {'a', 'b'}, {'a', 'b'}, {'c'}),
    ]
    names = ('a', 'b', 'c')
    for what, edges, nomemo, may_mark, memo_off, memo_on in cases:
        rules = []
        for n in names:
            opts = [b.seq(b.call(t), b.tok()) for t in names if (n, t) in edges] + [b.seq(b.tok())]
            rules.append(Stub(Q['Rule'], name=n, exp=b.choice(*opts), no_memo=n in nomemo, is_lrec=True, is_memo=n in nomemo))
        try:
            res = _MI(a).call_fn(fn, [rules])
        except Unsupported as e:
            raise AnalysisError(f'cannot interpret mark_left_recursion ({what}): {e}') from e
        marked = {r._attrs['name'] for r in rules if r._attrs['is_lrec']}
        memo = {r._attrs['name'] for r in rules if r._attrs['is_memo']}
        returned = {r._attrs['name'] for r in res}
        ok = marked <= may_mark and bool(marked) == bool(may_mark) and not (memo & memo_off) and memo_on <= memo and returned == marked
        rep.add({'graph': what, 'marked': sorted(marked), 'memoized': sorted(memo), 'returned': sorted(returned), 'ok': ok})
        if not ok:
            rep.fail(fn.qualname, f'marking:{what}', f'{what} (edges {sorted(edges)}, @nomemo {sorted(nomemo)}; every rule starts with stale '
                     f'is_lrec=True): marked {sorted(marked)}, memoized {sorted(memo)}, returned {sorted(returned)}; required: marks only '
                     f'in {sorted(may_mark)} (some iff non-empty), not memoized {sorted(memo_off)}, memoized {sorted(memo_on)}, returned = marked',
                     fn.loc)
    return rep


def r3_error_condition(a, tier):
    rep = RuleReport(
        'C16.R3',
        'Grammar._mark_left_recursion raises GrammarError iff the analysis returned left-recursive rules and '
        'config.left_recursion is false; ParserEngine.recursive_call raises FailedLeftRecursion when left recursion is disabled; '
        'rule_call installs the left-recursion guard before evaluating the body',
        floor=3,
    )
    fn = a.p.func('tatsu.peg.base.Grammar._mark_left_recursion')
    # interpreted on a stand-in grammar: the analysis result (none / one marked rule) x config.left_recursion
    from ..minieval import Obj, Raised, Unsupported
    from ..modelinterp import Hook, ModelInterp, Stub
    for marked in (False, True):
        for allowed in (False, True):
            # two rules, the second one not reachable from the first: the analysis must still see both (parse(start=...) can enter anywhere)
            rules = [Stub('tatsu.peg.base.Rule', name='a', is_lrec=False, _used_rule_names=Hook(lambda: set()), exp=None),
                     Stub('tatsu.peg.base.Rule', name='b', is_lrec=marked, _used_rule_names=Hook(lambda: {'b'}), exp=None)]
            seen = []

            def analysis(rs, seen=seen, marked=marked):
                seen.append(rs)
                return [r for r in rs if marked and r._attrs['name'] == 'b']
            me = Stub('tatsu.peg.base.Grammar', rules=rules, config=Obj(left_recursion=allowed))
            it = ModelInterp(a, {'mark_left_recursion': Hook(analysis)})
            raised = None
            try:
                it.call_fn(fn, [me])
            except Raised as r:
                raised = r.cls_name
            except Unsupported as e:
                raise AnalysisError(f'cannot interpret {fn.qualname}: {e}') from e
            want = 'GrammarError' if (marked and not allowed) else None
            ok = raised == want and len(seen) == 1 and [r._attrs['name'] for r in seen[0]] == ['a', 'b']
            rep.add({'fn': fn.qualname, 'left_recursive_rules_found': marked, 'config.left_recursion': allowed, 'raises': raised,
                     'analysis_ran_over_all_rules': len(seen) == 1 and [r._attrs['name'] for r in seen[0]] == ['a', 'b'], 'ok': ok})
            if not ok:
                rep.fail(fn.qualname, f'error-condition:{marked}:{allowed}', f'with left-recursive rules {"found" if marked else "absent"} and '
                         f'config.left_recursion={allowed}, _mark_left_recursion raises {raised} (analysis run over self.rules: '
                         f'{[r._attrs["name"] for r in seen[0]] if seen else None}, expected every rule a, b - also the ones not reachable from the first rule); required: {want or "no error"} - GrammarError exactly when rules '
                         f'were marked and left recursion is disabled', fn.loc)
    rc = a.p.func('tatsu.contexts.engine.ParserEngine.recursive_call')
    ok = False
    for n in walk_no_defs(rc.node):
        if isinstance(n, ast.If) and norm(n.test) == 'not self.config.left_recursion':
            ok = any(isinstance(x, ast.Raise) and x.exc is not None and 'FailedLeftRecursion' in norm(x.exc) for s in n.body for x in ast.walk(s))
    rep.add({'recursive_call_refuses_when_disabled': ok})
    if not ok:
        rep.fail(rc.qualname, 'runtime-disabled', 'recursive_call does not raise FailedLeftRecursion when left recursion is disabled', rc.loc)
    rl = a.p.func('tatsu.contexts.engine.ParserEngine.rule_call')

    def flagger(ex, f, call, state):
        nm = dotted(call.func)
        if f is rl and nm == 'self.set_left_recursion_guard':
            return ('guarded',)
        if f is rl and nm == 'self.func_call' and 'guarded' not in state:
            return ('body_before_guard',)
        return ()

    bad = any('body_before_guard' in o.state for o in run_flags(a, rl, flagger))
    rep.add({'guard_before_body': not bad})
    if bad:
        rep.fail(rl.qualname, 'no-guard', 'rule_call evaluates the rule body before installing the left-recursion guard memo: an '
                 'undetected left-recursive rule recurses without bound', rl.loc)
    g = a.p.func('tatsu.contexts.engine.ParserEngine.set_left_recursion_guard')
    stores_guard = any(isinstance(n, ast.Call) and dotted(n.func) == 'self.memoize' for n in walk_no_defs(g.node)) or any(
        isinstance(n, ast.Assign) and isinstance(n.targets[0], ast.Subscript) and norm(n.targets[0].value) == 'self._memos'
        for n in walk_no_defs(g.node))  # either way of storing the guard serves C16 (the gate itself is C04.R2's business)
    ok = stores_guard and any('FailedLeftRecursion' in norm(n) for n in walk_no_defs(g.node) if isinstance(n, ast.Call))
    rep.add({'guard_memoizes_FailedLeftRecursion': ok})
    if not ok:
        rep.fail(g.qualname, 'guard-shape', 'the guard does not memoize a FailedLeftRecursion for the key', g.loc)
    return rep


def r4_small_graphs(a, tier):
    return rule_all_small_graphs(a, 'C16.R4', tier)


def r5_seed_store_owners(a, tier):
    """the guards and seeds of active left recursion are removed only by their owners; a pruner that deletes the seed of an enclosing rule makes it re-enter without bound"""
    from . import c04
    rep = c04.r2_ownership(a, tier)
    rep.rule = 'C16.R5'
    for f in rep.findings:
        f.rule = 'C16.R5'
    rep.text = '[= C04.R2] ' + rep.text
    return rep


RULES = [r_chain, r1a, r1b, r2_guarded_marking, r3_error_condition, r4_small_graphs, r5_seed_store_owners]
