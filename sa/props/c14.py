"""C14 - serialized grammar models reload to equivalent parsers (structural clauses)."""
from __future__ import annotations

import ast

from ..classes import dataclass_fields
from ..loader import AnalysisError, dotted, norm, walk_no_defs
from ..paths import Executor, Semantics
from ..report import RuleReport
from ..rules.common import FlagSem, is_super_call, rule_chain, run_flags

LEVEL = 'other'
TECHNIQUE = ('static: registry-completeness (cooperative __init_subclass__ in front of the JSON registry, unique registry names), '
             'writer/reader agreement between exported fields and constructor parameters of every model dataclass (JSON and '
             'repr-as-source routes), encoder/decoder image rule for strings, typestate of the cycle bookkeeping in asjson incl. threading of the visited set through every __json__/asjson hop, '
             'pickle state-key agreement, export of every model class that repr-as-source names')
LEVEL_TEXT = ('Decides from the source, for every model class at once: each class is registered under a unique name for JSON '
              'reload; every public field a model object exports is either a constructor parameter or recomputed in __post_init__ '
              '(JSON), and every public field that repr-as-source can print is a constructor parameter; the JSON decoder does not '
              'reinterpret plain strings the encoder emitted unchanged; asjson marks a node as seen before descending and unmarks '
              'it on every exit; __getstate__/__setstate__ pairs use the same keys; every class that can occur in the emitted model '
              'source is exported by tatsu.peg. Equality of the reloaded parser on concrete inputs is not decided.')
TECHNIQUE += '; registry-overwrite clause; interpretation of the Config pickle state round trip on all-falsy settings; read-back (ast.literal_eval) of the folded repr-as-source form for every container shape'
LEVEL_TEXT += ' Added clauses: falsy settings survive __getstate__/__setstate__; one-element tuples, nested containers and strings print as literals that evaluate to themselves; silent overwrite of a registry entry by a same-named class is recorded as a known finding.'
TECHNIQUE += "; generic encoder/decoder interpreted on stand-in structures (JSON-dumpable output, '__class__' tag, private attributes left out, fallback to a string; decoding of members before reconstruction, unknown tags, plain mappings, tuples)"
LEVEL_TEXT += ' Added clause: see technique (C14.R8).'
TECHNIQUE += '; pickle protocol of nodes: __getstate__ -> __setstate__ interpreted on stand-ins with non-default fields'
LEVEL_TEXT += ' Added clause: every constructor field of a rule, the left-recursion marks included, survives pickling.'
TECHNIQUE += '; the PARSER source template hands every content parameter of Grammar.__init__ to the per-parse Grammar'
LEVEL_TEXT += " Added clause: the generated parser class parses with the model's keywords."
LEVEL_TEXT += ' Added clauses (rounds 9-11): Grammar.__from_json__ hands on the decoded members unchanged; Model.link re-binds nodes to the grammar given.'
TECHNIQUE += '; asjson of ten scalar kinds is dumpable'
TECHNIQUE += '; Grammar.__from_json__ interpreted on decoded members: same rule objects handed on, none changed (C14.R11)'
TECHNIQUE += '; Model.link(grammar) re-binds node and children to the grammar given (R12, interpreted on linked / unlinked stand-ins)'
LEVEL_NOTE = 'Trusted: dataclass semantics (init=False fields are not constructor parameters); BaseNode.__repr__ omits None values.'
EXPLANATION = ('Static analysis of /repo sources, TatSu not imported. Field tables are computed from the class table and the '
               'dataclass field declarations through the static MRO.')
ASSUMPTIONS = [LEVEL_NOTE]

MODEL = 'tatsu.peg.base.Model'
JSONBASE = 'tatsu.util.fromjson.JSONBase'


def r_chain(a, tier):
    return rule_chain(a, 'C14.R-CHAIN')


def r1_registry(a, tier):
    rep = RuleReport(
        'C14.R1',
        'registry completeness: every __init_subclass__ defined by a class that precedes JSONBase in the MRO of a JSONBase subclass '
        'chains to super().__init_subclass__ on all paths (so JSONBase.__init_subclass__ registers the class for reload), '
        'JSONBase.__init_subclass__ stores the class under its __name__, and no two JSON-registered classes of the package share '
        'a name',
        floor=50,
    )
    subs = a.ct.subclasses(JSONBASE, strict=True)
    defs: dict[str, int] = {}
    for c in subs:
        mro = a.ct.mro(c)
        for d in mro[: mro.index(JSONBASE)]:
            ci = a.p.classes.get(d)
            if ci and '__init_subclass__' in ci.methods:
                defs[d] = defs.get(d, 0) + 1

    def flagger(ex, fn, call, state):
        return ('chained',) if is_super_call(call, '__init_subclass__') else ()

    for d, n in sorted(defs.items()):
        fn = a.p.classes[d].methods['__init_subclass__']
        bad = [o for o in run_flags(a, fn, flagger) if o.kind == 'return' and 'chained' not in o.state]
        rep.add({'defines': fn.qualname, 'classes_behind_it': n, 'chains': not bad})
        if bad:
            rep.fail(fn.qualname, 'no-chain-to-registry', f'{fn.qualname} does not chain to super(): {n} classes are never registered '
                     f'for JSON reload (fromjson falls back to an anonymous namespace object)', fn.loc)
    jb = a.p.func(f'{JSONBASE}.__init_subclass__')
    stores = [n for n in walk_no_defs(jb.node) if isinstance(n, ast.Assign) and isinstance(n.targets[0], ast.Subscript)
              and norm(n.targets[0].slice) == f'{jb.params[0]}.__name__' and norm(n.value) == jb.params[0]]
    rep.add({'registers_under___name__': bool(stores)})
    if not stores:
        rep.fail(jb.qualname, 'registry-store', 'JSONBase.__init_subclass__ does not store cls under cls.__name__', jb.loc)
    # classes are also created at run time (objectmodel.synth.synthesize builds Node subclasses named by the grammar author, and
    # Node is a JSONBase): the registration must not replace an entry that is already there
    from ..rules.common import dominating_conditions
    pm = a.resolver.parents(jb)
    for st in stores:
        conds = [norm(c) for c in dominating_conditions(jb, pm, st)]
        guarded = any('not in' in c and '__name__' in c for c in conds)
        rep.add({'registry_store': norm(st), 'guarded_against_overwriting': guarded, 'conditions': conds})
        if not guarded:
            rep.fail(jb.qualname, 'registry-overwrite', f'`{norm(st)}` replaces whatever class is registered under that bare name: after any '
                     f'parse with a typed rule such as `start::Token = ...` (asmodel=True synthesizes a Node subclass called Token) the JSON '
                     f'form of every grammar reloads its Token nodes as that class', jb.loc)
    names: dict[str, list[str]] = {}
    for c in subs:
        names.setdefault(c.split('.')[-1], []).append(c)
        rep.add({'registered': c.split('.')[-1]})
    for nm, cs in names.items():
        mods = [c for c in cs if not c.startswith(('tatsu.tool', 'tatsu.boot'))]
        if len(mods) > 1:
            rep.fail(mods[1], f'duplicate-name:{nm}', f'classes {mods} register under the same name {nm!r}: the one imported last wins, '
                     f'a model containing the other reloads as the wrong class', a.p.classes[mods[1]].loc)
    return rep


def _post_init_assigns(a, cls_q: str) -> dict[str, list[ast.expr]]:
    out: dict[str, list[ast.expr]] = {}
    for c in a.ct.mro(cls_q):
        ci = a.p.classes.get(c)
        if ci is None:
            continue
        for mname in ('__post_init__', '__init__'):
            m = ci.methods.get(mname)
            if m is None:
                continue
            for n in walk_no_defs(m.node):
                if isinstance(n, ast.Assign):
                    for t in n.targets:
                        if isinstance(t, ast.Attribute) and isinstance(t.value, ast.Name) and t.value.id == 'self':
                            out.setdefault(t.attr, []).append(n.value)
    return out


def r2_fields(a, tier):
    rep = RuleReport(
        'C14.R2',
        'exported fields are reloadable: for every grammar-model dataclass, each public field (no leading underscore) that is not a '
        'constructor parameter (init=False) is recomputed in __post_init__ (JSON route: fromjson passes only init fields), and is '
        'never given a non-None value (repr-as-source route: BaseNode.__repr__ prints every public non-None field as a keyword '
        'argument of the constructor call, which must accept it)',
        floor=40,
    )
    for c in sorted(a.ct.subclasses(MODEL)):
        ci = a.p.classes[c]
        if not any(d.split('.')[-1] in ('nodedataclass', 'dataclass') for k in a.ct.mro(c) if (kc := a.p.classes.get(k)) for d in kc.decorators):
            continue
        short = c.split('.')[-1]
        if short == 'Grammar':
            continue  # Grammar has a hand-written __init__ and its own __from_json__
        fields = dataclass_fields(a.ct, c)
        assigns = _post_init_assigns(a, c)
        for f in fields:
            if f.name.startswith('_') or f.init:
                continue
            vals = assigns.get(f.name, [])
            non_none = [v for v in vals if not (isinstance(v, ast.Constant) and v.value is None)]
            rep.add({'class': short, 'field': f.name, 'init': f.init, 'assigned_in_post_init': [norm(v)[:40] for v in vals]})
            if non_none:
                rep.fail(c, f'non-init-public:{f.name}', f'{short}.{f.name} is a public field declared init=False but set to '
                         f'`{norm(non_none[0])[:50]}` in __post_init__: the repr-as-source of the model prints `{f.name}=...` inside '
                         f'{short}(...), and the constructor does not accept that keyword - the emitted model source cannot be '
                         f'loaded', ci.loc)
        rep.add({'class': short, 'public_init_fields': [f.name for f in fields if f.init and not f.name.startswith('_')]})
    # fromjson filters on init
    fj = a.p.func(f'{JSONBASE}.__from_json__')
    ok = any(isinstance(n, ast.Attribute) and n.attr == 'init' for n in walk_no_defs(fj.node))
    rep.add({'from_json_passes_only_init_fields': ok})
    if not ok:
        rep.fail(fj.qualname, 'init-filter', '__from_json__ no longer restricts the constructor arguments to init fields', fj.loc)
    return rep


def r3_string_images(a, tier):
    rep = RuleReport(
        'C14.R3',
        'encoder images are disjoint where the decoder dispatches on content: if fromjson turns a JSON string into something else '
        'depending on its text (prefix sniffing), then asjson must not emit plain str values unchanged - otherwise a token or '
        'constant whose text happens to look like the marker is reloaded as another object',
        floor=1,
    )
    from ..minieval import Obj, Unsupported
    from ..modelinterp import Hook, ModelInterp
    fj = a.p.func('tatsu.util.fromjson.fromjson.dfs')
    fjo = a.p.func('tatsu.util.fromjson.fromjson')
    ajo = a.p.func('tatsu.util.asjson.asjson')
    # candidate markers: the string constants the decoder compares text against
    markers: list[str] = []
    for n in ast.walk(fj.node):
        if isinstance(n, ast.Call) and isinstance(n.func, ast.Attribute) and n.func.attr in ('startswith', 'endswith', 'find', 'index') \
                or isinstance(n, ast.Compare):
            for c in ast.walk(n):
                if isinstance(c, ast.Constant) and isinstance(c.value, str) and c.value and c.value not in markers \
                        and c.value != '__class__':
                    markers.append(c.value)
    for text, what in [('plain', 'plain text')] + [(m + 'x', f'text starting with {m!r}') for m in markers]:
        style = Obj(kind='Style', raw=text)
        try:
            enc = ModelInterp(a).call_fn(ajo, [text])
            dec = ModelInterp(a, {'Style': Hook(lambda *x: style, from_raw=Hook(lambda *x: style))}).call_fn(fjo, [enc])
        except Unsupported as e:
            raise AnalysisError(f'cannot interpret asjson/fromjson on a string: {e}') from e
        ok = dec == text and isinstance(dec, str)
        rep.add({'string': text, 'asjson': enc if isinstance(enc, str) else type(enc).__name__,
                 'fromjson_of_that': dec if isinstance(dec, str) else 'a Style object', 'round_trips': ok})
        if not ok:
            marker = text[:-1] if text != 'plain' else text
            rep.fail(fj.qualname, f'sniff:{marker}', f'a str value that is {what} ({text!r}) is emitted by asjson as {enc!r} and reloaded by '
                     f'fromjson as {"a Style object" if dec is style else repr(dec)}: a token/constant/pattern with that text is not '
                     f'reloaded as itself - the reloaded grammar differs', fj.loc)
    return rep


def r4_cycles(a, tier):
    rep = RuleReport(
        'C14.R4',
        'cycle bookkeeping in asjson: the membership test `id in seen` precedes the descent, every recursive descent (dfs(...) / '
        '__json__(seen=...)) happens after seen.add(id), and seen.discard(id) runs on every exit after the add (finally); every function '
        'that is given the visited set passes it on to each asjson()/__json__() call it makes',
        floor=3,
    )
    fn = a.p.func('tatsu.util.asjson.asjson.dfs')

    def flagger(ex, f, call, state):
        nm = dotted(call.func)
        if f is fn and nm == 'seen.add':
            return ('added',)
        if f is fn and nm in ('seen.discard', 'seen.remove'):
            return ('discarded',)
        if f is fn and (nm == 'dfs' or nm.endswith('.__json__')) and 'added' not in state:
            return ('descent_before_mark',)
        return ()

    class Sem(FlagSem):
        def tracked(self, ex, f, node):
            return False  # descents inside comprehensions are evaluated at that program point

    outs = Executor(a.p, a.ct, a.resolver, Sem(flagger), raises=a.raises).run(fn, frozenset())
    flags_all = set().union(*[o.state for o in outs]) if outs else set()
    leaked = [o for o in outs if 'added' in o.state and 'discarded' not in o.state]
    has_test = any(isinstance(n, ast.Compare) and isinstance(n.ops[0], ast.In) and norm(n.comparators[0]) == 'seen' for n in walk_no_defs(fn.node))
    rep.add({'outcomes': len(outs), 'membership_test': has_test, 'descent_before_mark': 'descent_before_mark' in flags_all,
             'exits_with_mark_left': len(leaked)})
    if not has_test:
        rep.fail(fn.qualname, 'no-membership-test', 'asjson.dfs no longer tests `id in seen`: a cyclic structure recurses forever', fn.loc)
    if 'descent_before_mark' in flags_all:
        rep.fail(fn.qualname, 'descent-before-mark', 'asjson.dfs descends into children before marking the node as seen', fn.loc)
    # the visited set is threaded through every protocol hop: a function that receives it (parameter `seen`) hands it to every
    # asjson(...) / <x>.__json__(...) it calls, and so does every function that closes over it (asjson.dfs)
    accepts = {f.qualname for f in a.p.functions.values() if 'seen' in f.params and (f.name in ('asjson', '__json__'))}
    for f in a.p.functions.values():
        if not f.module.name.startswith('tatsu.') or f.module.name.startswith(('tatsu.tool', 'tatsu.boot.bootstrap')):
            continue
        has_seen = 'seen' in f.params or (f.parent is not None and 'seen' in f.parent.params)
        if not has_seen:
            continue
        for n in walk_no_defs(f.node):
            if not isinstance(n, ast.Call):
                continue
            nm = dotted(n.func).split('.')[-1]
            if nm not in ('asjson', '__json__'):
                continue
            passed = any(k.arg == 'seen' and isinstance(k.value, ast.Name) and k.value.id == 'seen' for k in n.keywords) or (
                nm == 'asjson' and len(n.args) >= 2 and isinstance(n.args[1], ast.Name) and n.args[1].id == 'seen') or (
                nm == '__json__' and len(n.args) >= 1 and isinstance(n.args[0], ast.Name) and n.args[0].id == 'seen')
            rep.add({'function': f.qualname, 'descent': norm(n)[:70], 'passes_the_visited_set': passed})
            if not passed:
                rep.fail(f.qualname, f'seen-not-threaded:{nm}', f'`{norm(n)[:80]}` in {f.name}() starts a conversion without the visited '
                         f'set it was given: each object reached through it begins with an empty set, so a reference cycle through two '
                         f'such objects is never recognised and asjson recurses until RecursionError', f'{f.module.relpath}:{n.lineno}')
    if not accepts:
        raise AnalysisError('no asjson/__json__ accepting `seen` found')
    if leaked:
        rep.fail(fn.qualname, 'mark-leaked', 'an exit of asjson.dfs leaves the node marked as seen (no discard): a shared (not cyclic) '
                 'reference later in the structure is rendered as a reference string instead of its value', fn.loc)
    return rep


def r5_state_keys(a, tier):
    rep = RuleReport(
        'C14.R5',
        'pickle state keys agree: for every class defining both __getstate__ and __setstate__, every string key the setter reads '
        'from the state (state.get("k") / state["k"]) is a key the getter writes (state["k"] = ...), and vice versa',
        floor=2,
    )
    for ci in a.p.classes.values():
        if ci.module.name.startswith(('tatsu.tool', 'tatsu.boot.boot')):
            continue
        g, s = ci.methods.get('__getstate__'), ci.methods.get('__setstate__')
        if not (g and s):
            continue
        written = {ast.literal_eval(n.targets[0].slice) for n in walk_no_defs(g.node) if isinstance(n, ast.Assign)
                   and isinstance(n.targets[0], ast.Subscript) and isinstance(n.targets[0].slice, ast.Constant)}
        read = set()
        for n in walk_no_defs(s.node):
            if isinstance(n, ast.Call) and isinstance(n.func, ast.Attribute) and n.func.attr == 'get' and n.args and isinstance(n.args[0], ast.Constant) \
                    and isinstance(n.func.value, ast.Name):
                read.add(n.args[0].value)
            if isinstance(n, ast.Subscript) and isinstance(n.ctx, ast.Load) and isinstance(n.slice, ast.Constant) and isinstance(n.slice.value, str) \
                    and isinstance(n.value, ast.Name) and n.value.id in s.params:
                read.add(n.slice.value)
        rep.add({'class': ci.qualname, 'getstate_writes': sorted(written), 'setstate_reads': sorted(read)})
        for k in sorted(read - written):
            if written or read:
                rep.fail(ci.qualname, f'state-key:{k}', f'{ci.name}.__setstate__ reads the key {k!r}, which __getstate__ never writes (it '
                         f'writes {sorted(written)}): that part of the object is lost by pickling', s.loc)
        for k in sorted(written - read):
            generic = any(isinstance(n, ast.For) and 'items()' in norm(n.iter) for n in walk_no_defs(s.node)) or any(
                isinstance(n, ast.Call) and dotted(n.func) == 'super().__setstate__' for n in walk_no_defs(s.node))
            if not generic:
                rep.fail(ci.qualname, f'state-key-unread:{k}', f'{ci.name}.__getstate__ writes {k!r}, __setstate__ never reads it', s.loc)
        # the configuration object a model carries: __getstate__ then __setstate__ (interpreted) give back every setting, the ones
    # that were switched OFF explicitly (False, '', 0, empty tuple) and the tri-state None included
    from ..minieval import Obj, Unsupported
    from ..modelinterp import Hook, ModelInterp, Stub
    cq = 'tatsu.util.configs.Config'
    gs, ss = a.p.func(f'{cq}.__getstate__'), a.p.func(f'{cq}.__setstate__')
    settings = {'whitespace': '', 'nameguard': False, 'left_recursion': False, 'memoization': True, 'namechars': '', 'keywords': (),
                'comments': None, 'perlinememos': 0, 'name': 'g', 'semantics': None, 'parseinfo': False, 'start': 'expr'}
    me = Stub(cq, asdict=Hook(lambda: dict(settings)), **settings)
    fresh = Stub(cq)
    try:
        it = ModelInterp(a, {'types': Obj(ModuleType=type(ast))})
        state = it.call_fn(gs, [me])

        class _SetI(ModelInterp):
            def call(self, e, env):
                if dotted(e.func) == 'object.__setattr__' and len(e.args) == 3:
                    o, k, v = (self.expr(x, env) for x in e.args)
                    o._attrs[k] = v
                    return None
                return super().call(e, env)
        _SetI(a, {'types': Obj(ModuleType=type(ast))}).call_fn(ss, [fresh, state])
    except Unsupported as e:
        raise AnalysisError(f'cannot interpret Config.__getstate__/__setstate__: {e}') from e
    lost = {k: v for k, v in settings.items() if k not in fresh._attrs or fresh._attrs[k] != v or type(fresh._attrs[k]) is not type(v)}
    rep.add({'config_state_round_trip': {k: repr(v) for k, v in settings.items()}, 'settings_not_restored': sorted(lost)})
    for k, v in sorted(lost.items(), key=lambda kv: kv[0]):
        rep.fail(f'{cq}.__getstate__', f'state-lost:{k}', f'a configuration with {k}={v!r} comes back from pickle without that setting '
                 f'({"missing: the class default applies" if k not in fresh._attrs else "as " + repr(fresh._attrs[k])}): a reloaded model '
                 f'whose grammar switched the feature off (e.g. @@whitespace :: None, @@nameguard :: False) accepts different inputs',
                 gs.loc)
    return rep


def r6_exports(a, tier):
    rep = RuleReport(
        'C14.R6',
        'repr-as-source is importable: the emitted model source does `from tatsu.peg import *`; every concrete grammar-model class '
        '(whose name BaseNode.__repr__ prints as a constructor) is listed in tatsu.peg.__all__',
        floor=40,
    )
    peg = a.p.module('tatsu.peg')
    exported = set(peg.all_names or [])
    if not exported:
        raise AnalysisError('tatsu.peg.__all__ not found')
    abstract = {'Model', 'Leaf', 'Box', 'NamedBox', 'Patterns', 'Meta'}
    for c in sorted(a.ct.subclasses(MODEL)):
        short = c.split('.')[-1]
        ok = short in exported
        rep.add({'class': short, 'exported_by_tatsu.peg': ok})
        if not ok and short not in abstract and not c.startswith('tatsu.peg.base.Patterns'):
            rep.fail(c, f'not-exported:{short}', f'{short} can appear in the repr-as-source of a grammar model but is not in '
                     f'tatsu.peg.__all__: loading the emitted model source raises NameError', a.p.classes[c].loc)
    gen = a.p.func('tatsu.ngcodegen.grammar_gen.PARSER')
    txt = ' '.join(n.value for n in ast.walk(gen.node) if isinstance(n, ast.Constant) and isinstance(n.value, str))
    ok = 'from tatsu.peg import *' in txt
    rep.add({'emitted_source_imports_tatsu.peg_star': ok})
    if not ok:
        rep.fail(gen.qualname, 'import-star', 'the emitted model source no longer imports the model classes from tatsu.peg', gen.loc)
    return rep


def r7_source_literals(a, tier):
    import contextlib

    from ..minieval import Obj, Unsupported
    from ..modelinterp import Hook, ModelInterp
    rep = RuleReport(
        'C14.R7',
        'model source reads back: fold() (tatsu/util/indent.py), which writes every field of a node in repr-as-source form, '
        'interpreted for tuples of 0, 1, 2 and 9 elements, lists, dicts and scalars in both its one-line and its multi-line '
        'layout, produces text that ast.literal_eval reads back as the same value of the same type - a tuple of one element keeps '
        'its comma (rules=(Rule(...),), keywords=("if",))',
        floor=16,
    )
    fn = a.p.func('tatsu.util.indent.fold')
    values = [(), ('if',), ('a', 'b'), tuple(f'k{i}' for i in range(9)), ['x'], [], {'k': 1}, 'text', 7, None]
    for v in values:
        for fits in (True, False):
            lines: list[str] = []

            class IM(Obj):
                pass
            im = IM()

            def methods(recv, name, args, kwargs, lines=lines, fits=fits, im=im):
                if recv is im:
                    if name == 'print':
                        lines.append(' '.join(str(x) for x in args))
                        return None
                    if name == 'fitsfmt':
                        return fits
                    if name == 'indent':
                        return contextlib.nullcontext()
                    if name == 'printed_text':
                        return '\n'.join(lines)
                return NotImplemented
            it = ModelInterp(a, {'IndentPrintMixin': Hook(lambda **_k: im), 'isiter': Hook(lambda o: isinstance(o, (list, set, tuple, dict))),
                                 'typename': Hook(lambda o: type(o).__name__ if o is not None else 'None')})
            it.methods = methods
            try:
                text = it.call_fn(fn, ['x=', v])
            except Unsupported as e:
                raise AnalysisError(f'cannot interpret {fn.qualname}: {e}') from e
            got, ok = '<unreadable>', False
            try:
                got = ast.literal_eval(str(text).split('=', 1)[1].strip())
                ok = got == v and type(got) is type(v)
            except (SyntaxError, ValueError, IndexError):
                pass
            rep.add({'value': repr(v)[:40], 'layout': 'one line' if fits else 'multi-line', 'written': str(text)[:60], 'reads_back_as': repr(got)[:40], 'ok': ok})
            if not ok:
                rep.fail(fn.qualname, f'fold:{type(v).__name__}:{len(v) if hasattr(v, "__len__") else "-"}:{"1" if fits else "n"}',
                         f'fold() writes {v!r} as `{str(text)[:70]}` ({"one-line" if fits else "multi-line"} layout), which reads back as {got!r}: '
                         f'generated model source with a one-element rules= or keywords= tuple does not load (or loads other keywords)', fn.loc)
    return rep


def r8_structure(a, tier):
    from ..minieval import Unsupported
    from ..modelinterp import Hook, ModelInterp, Stub
    rep = RuleReport(
        'C14.R8',
        'the generic encoder and decoder, interpreted on stand-in structures: asjson turns nested mappings / lists / tuples into data the '
        'json module can dump (string keys, lists, scalars), writes an object as its public attributes plus "__class__" = the class name '
        '(nested objects likewise, private attributes left out) and any other object as a string; fromjson rebuilds a class-tagged mapping '
        'through the registered class\'s __from_json__ AFTER decoding its members (lists and nested tagged mappings included), turns a '
        'mapping with an unknown tag into an attribute object and leaves plain mappings as dicts with decoded values',
        floor=7,
    )
    ajo = a.p.func('tatsu.util.asjson.asjson')
    fjo = a.p.func('tatsu.util.fromjson.fromjson')

    class _No:
        pass
    G = {'id': Hook(lambda o: id(o)), 'hex': Hook(hex), 'as_namedtuple': Hook(lambda n: None), 'isiter': Hook(lambda n: False),
         'enum': Hook(None, Enum=_No), 'weakref': Hook(None, ReferenceType=_No, ProxyTypes=(), ProxyType=_No),
         'inspect': Hook(None, ismethod=Hook(lambda v: False)), 'is_readonly_property': Hook(lambda o, n: False),
         'vars': Hook(lambda o: dict(o._attrs) if isinstance(o, Stub) else {}), 'hasattr': Hook(lambda o, n: isinstance(o, Stub) and n in o._attrs),
         'getattr': Hook(lambda o, n, *d: ((lambda **k: None) if isinstance(o, Stub) and n == '__json__' else o._attrs.get(n, *d) if isinstance(o, Stub) else (d[0] if d else None))),
         'callable': Hook(lambda o: callable(o)),
         'repr': Hook(lambda o: '<repr>')}

    def jsonable(v) -> bool:
        if v is None or isinstance(v, (str, int, float, bool)):
            return True
        if isinstance(v, list):
            return all(jsonable(x) for x in v)
        if type(v) is dict:
            return all(isinstance(k, str) and jsonable(x) for k, x in v.items())
        return False

    def enc(x):
        try:
            return ModelInterp(a, dict(G)).call_fn(ajo, [x])
        except Unsupported as e:
            raise AnalysisError(f'C14.R8: cannot interpret asjson: {e}') from e

    JB = 'tatsu.util.fromjson.JSONBase'
    inner = Stub(JB, token='u', _cache=9)
    obj = Stub(JB, token='t', _private=1, sub=inner, items=[inner, (1, 2)])
    cases = [
        ('nested mappings, lists, tuples, a non-string key', {'k': [1, 'x', (2.5, True)], 3: None}, {'k': [1, 'x', [2.5, True]], '3': None}),
        ('an object with public, private and nested object attributes', obj,
         {'__class__': 'JSONBase', 'token': 't', 'sub': {'__class__': 'JSONBase', 'token': 'u'}, 'items': [{'__class__': 'JSONBase', 'token': 'u'}, [1, 2]]}),
        ('an object without a JSON protocol', object(), '<repr>'),
    ]
    # every scalar a parse result can hold (constants are literal_eval'ed: complex, bytes, Ellipsis ...; actions return anything)
    for sc in (1j, 2 + 3j, b'ab', bytearray(b'c'), ..., frozenset({1}), 1.5, float('inf'), True, None):
        got = enc(sc)
        okj = jsonable(got)
        rep.add({'asjson_of_scalar': repr(sc), 'gives': repr(got)[:60], 'json_dumpable': okj})
        if not okj:
            rep.fail(ajo.qualname, f'encode-scalar:{type(sc).__name__}', f'asjson of the {type(sc).__name__} value {sc!r} gives {got!r}, which the json module cannot dump '
                     f'(a constant such as `1j`, or an action returning such a value, is a legitimate parse result)', ajo.loc)
    for what, value, want in cases:
        got = enc(value)
        ok = got == want and jsonable(got)
        rep.add({'asjson_of': what, 'gives': repr(got)[:200], 'json_dumpable': jsonable(got), 'ok': ok})
        if not ok:
            rep.fail(ajo.qualname, f'encode:{what}', f'asjson of {what} gives {got!r}; required {want!r} (data the json module can dump)', ajo.loc)
    made: list = []
    reg = {'Zed': Hook(None, __from_json__=Hook(lambda data: made.append(data) or ('ZED', tuple(sorted(data.items(), key=str)))))}

    def dec(x):
        try:
            return ModelInterp(a, {**G, '__from_json__class__': reg, 'issubclass': Hook(lambda c, b_: True),
                                   'SimpleNamespace': Hook(lambda **kw: ('NS', tuple(sorted(kw.items()))))}).call_fn(fjo, [x])
        except Unsupported as e:
            raise AnalysisError(f'C14.R8: cannot interpret fromjson: {e}') from e
    z1 = ('ZED', (('a', 1),))
    dcases = [
        ('a tagged mapping whose members hold a list of tagged mappings and a plain mapping',
         {'__class__': 'Zed', 'a': [{'__class__': 'Zed', 'a': 1}], 'b': {'c': {'__class__': 'Zed', 'a': 1}}},
         ('ZED', (('a', [z1]), ('b', {'c': z1})))),
        ('a mapping with an unknown tag', {'__class__': 'Unknown', 'x': {'__class__': 'Zed', 'a': 1}}, ('NS', (('x', z1),))),
        ('a plain mapping and scalars', {'p': [1, 'x', None, 2.5], 'q': {'__class__': 'Zed', 'a': 1}}, {'p': [1, 'x', None, 2.5], 'q': z1}),
        ('a tuple', (1, {'__class__': 'Zed', 'a': 1}), [1, z1]),
        ('members whose value is null, false, 0, an empty string or an empty list', {'__class__': 'Zed', 'n': None, 'f': False, 'z': 0, 's': '', 'l': [], 'd': {'k': None}},
         ('ZED', (('d', {'k': None}), ('f', False), ('l', []), ('n', None), ('s', ''), ('z', 0)))),
    ]
    for what, value, want in dcases:
        got = dec(value)
        ok = got == want
        rep.add({'fromjson_of': what, 'gives': repr(got)[:200], 'ok': ok})
        if not ok:
            rep.fail(fjo.qualname, f'decode:{what}', f'fromjson of {what} gives {got!r}; required {want!r}', fjo.loc)
    return rep


def r9_node_state(a, tier):
    import weakref

    from ..classes import dataclass_fields
    from ..minieval import Obj, Unsupported
    from ..modelinterp import Bound, ClassRef, Hook, ModelInterp, Stub
    rep = RuleReport(
        'C14.R9',
        'the pickled state of a grammar node carries every declared field: __getstate__ (-> __pub__) and __setstate__ of Rule and of '
        'expression classes, interpreted on stand-in nodes whose fields all hold NON-default values, give a fresh object on which every '
        'field the class declares for its constructor reads back the same - the marks of the left-recursion analysis (is_lrec, is_memo) '
        'included: an unpickled model parses with the optimized grammar it cached before, which is not analysed again',
        floor=4,
    )
    PEG = 'tatsu.peg'
    tok = Stub(f'{PEG}.syntax.Token', token='t')
    subjects = [
        (f'{PEG}.base.Rule', dict(name='r', exp=tok, params=('p',), kwparams={'k': 1}, decorators=['nomemo'], base='b', is_name=True, is_tokn=True, no_memo=True,
                                  no_stak=True, is_memo=False, is_lrec=True)),
        (f'{PEG}.syntax.Token', dict(token='tk')),
        (f'{PEG}.pattern.Pattern', dict(pattern='a+')),
        (f'{PEG}.syntax.Call', dict(name='callee')),
        (f'{PEG}.named.Named', dict(name='n', exp=tok)),
    ]

    def class_vars(o):
        if isinstance(o, Stub):
            return dict(o._attrs)
        if isinstance(o, ClassRef):
            ci = a.p.classes[o.q]
            return {n: None for n in [*ci.methods, *ci.assigns, *[f.name for f in dataclass_fields(a.ct, o.q)]]}
        raise Unsupported('vars()')
    for q, vals in subjects:
        if q not in a.p.classes:
            continue
        declared = [f.name for f in dataclass_fields(a.ct, q) if f.init and not f.name.startswith('_')]
        me = Stub(q, ast=None, ctx=None, parseinfo=None, **vals)
        fresh = Stub(q)
        it = ModelInterp(a, {'vars': Hook(class_vars), 'dc': Hook(None, fields=Hook(lambda o: [Obj(name=f.name) for f in dataclass_fields(a.ct, o._cls)])),
                             'inspect': Hook(None, ismethod=Hook(lambda v: False)), 'is_readonly_property': Hook(lambda o, n: False),
                             'hasattr': Hook(lambda o, n: isinstance(o, Stub) and n in o._attrs),
                             'setattr': Hook(lambda o, n, v: o._attrs.__setitem__(n, v)),
                             'weakref': Hook(None, ReferenceType=weakref.ReferenceType, ProxyTypes=weakref.ProxyTypes)})
        it.globals['rowselect'] = Hook(lambda keys, row, where=None, it=it: {k: row[k] for k in keys if k in row and (where is None or it.as_callable(where)(k, row[k]))})
        try:
            state = it.call_bound(Bound(me, a.ct.lookup(q, '__getstate__')), [], {})
            it.call_bound(Bound(fresh, a.ct.lookup(q, '__setstate__')), [state], {})
        except Unsupported as e:
            raise AnalysisError(f'C14.R9: cannot interpret the pickle protocol of {q.split(".")[-1]}: {e}') from e
        lost = [f for f in declared if f in vals and not (f in fresh._attrs and fresh._attrs[f] == vals[f] and (fresh._attrs[f] is vals[f] or type(fresh._attrs[f]) is type(vals[f])))]
        rep.add({'class': q.split('.')[-1], 'declared_fields_set': sorted(set(declared) & set(vals)), 'state_keys': sorted(state) if isinstance(state, dict) else repr(state)[:60],
                 'lost': lost})
        for f in lost:
            g = a.ct.lookup(q, '__pub__') or a.ct.lookup(q, '__getstate__')
            rep.fail(g.qualname, f'state-lost:{q.split(".")[-1]}.{f}', f'{q.split(".")[-1]}.{f} = {vals[f]!r} does not survive __getstate__ / __setstate__ (the state has '
                     f'{sorted(state) if isinstance(state, dict) else state!r}): the unpickled node falls back to the class default' + (
                         ' - a left-recursive rule of a model that had parsed before pickling is then run as an ordinary memoized rule' if f in ('is_lrec', 'is_memo') else ''), g.loc)
    return rep


def r10_generated_parser_copies_the_model(a, tier):
    import textwrap

    from ..minieval import MiniEval, Unsupported
    rep = RuleReport(
        'C14.R10',
        'the parser class of a generated model module parses with the whole model: the source template PARSER(name) of '
        'ngcodegen/grammar_gen.py (evaluated, then parsed as Python) rebuilds a per-parse Grammar from GRAMMAR_MODEL; that Grammar(...) call '
        'hands over every content parameter of Grammar.__init__ - name, rules, directives, keywords - from `self.model.<the same name>`: a '
        'parameter left out falls back to the configuration (no keywords: reserved words are accepted as names)',
        floor=4,
    )
    fn = a.p.functions.get('tatsu.ngcodegen.grammar_gen.PARSER')
    init = a.ct.lookup('tatsu.peg.base.Grammar', '__init__')
    if fn is None or init is None:
        raise AnalysisError('C14.R10: grammar_gen.PARSER / Grammar.__init__ not found')
    try:
        text = MiniEval({'version': '0', '__version__': '0'}).call_function(fn.node, ['X'])
        tree = ast.parse(textwrap.dedent(str(text)))
    except Unsupported as e:
        raise AnalysisError(f'C14.R10: cannot evaluate the PARSER template: {e}') from e
    except SyntaxError as e:
        rep.fail(fn.qualname, 'template-syntax', f'the PARSER template is not valid Python: {e}', fn.loc)
        return rep
    calls = [n for n in ast.walk(tree) if isinstance(n, ast.Call) and isinstance(n.func, ast.Name) and n.func.id == 'Grammar']
    if not calls:
        rep.notes.append('the template no longer rebuilds a Grammar per parse')
        rep.floor = 0
        rep.add({'Grammar_calls_in_template': 0})
        return rep
    params = [x.arg for x in init.node.args.args[1:]] + [x.arg for x in init.node.args.kwonlyargs]
    content = [p_ for p_ in params if p_ in ('name', 'rules', 'directives', 'keywords')]
    for c in calls:
        bound = {}
        for p_, arg in zip([x.arg for x in init.node.args.args[1:]], c.args):
            bound[p_] = arg
        for k in c.keywords:
            if k.arg:
                bound[k.arg] = k.value
        for p_ in content:
            got = norm(bound[p_]) if p_ in bound else None
            ok = got is not None and got.endswith(f'.model.{p_}')
            rep.add({'Grammar_parameter': p_, 'passed': got, 'ok': ok})
            if not ok:
                rep.fail(fn.qualname, f'model-copy:{p_}', f'the generated parser class rebuilds its Grammar with {p_}={got}: the {p_} of GRAMMAR_MODEL ' + (
                    'are not handed over, so the per-parse grammar has none (a @name rule accepts reserved words)' if p_ == 'keywords' else 'is not handed over'), fn.loc)
    return rep


def r11_from_json_keeps_members(a, tier):
    """Grammar.__from_json__ builds the grammar from the decoded members AS THEY ARE"""
    from ..minieval import Unsupported
    from ..modelinterp import ClassRef, FuncRef, Hook, ModelInterp, Stub
    rep = RuleReport(
        'C14.R11',
        'a reloaded grammar is the grammar that was written out: Grammar.__from_json__, interpreted on decoded members (rules among them a '
        'based rule whose embedded base differs from the rule the grammar now has under that name - the base was overridden after the '
        'extension -, a rule include, directives, keywords), hands the Grammar constructor the decoded name, directives, keywords and the '
        'SAME rule objects in the same order, and changes no attribute of any decoded rule on the way (a based rule is bound to its base '
        'when it is defined, not when it is loaded)',
        floor=4,
    )
    G = 'tatsu.peg.base.Grammar'
    fj = a.ct.lookup(G, '__from_json__')
    if fj is None or fj.cls is None or fj.cls.qualname != G:
        rep.add({'Grammar.__from_json__': 'inherited (the generic reconstruction, C14.R8)'})
        rep.floor = 1
        return rep
    tok = lambda t: Stub('tatsu.peg.basic.Token', token=t)  # noqa: E731
    old_base = Stub('tatsu.peg.base.Rule', name='prefix', exp=tok('#'), params=(), kwparams={}, base=None, decorators=[])
    new_base = Stub('tatsu.peg.base.Rule', name='prefix', exp=tok('@'), params=('P',), kwparams={'k': 1}, base=None, decorators=['override'])
    old_rhs = Stub('tatsu.peg.syntax.Sequence', sequence=[old_base._attrs['exp'], tok('x')])
    based = Stub('tatsu.peg.rulelike.BasedRule', name='long', exp=tok('x'), params=(), kwparams={}, base='prefix', baserule=old_base, rhs=old_rhs, decorators=[])
    start = Stub('tatsu.peg.base.Rule', name='start', exp=Stub('tatsu.peg.rulelike.RuleInclude', name='prefix', _exp=None), params=(), kwparams={}, base=None, decorators=[])
    rules = [start, based, new_base]
    data = {'__class__': 'Grammar', 'name': 'Demo', 'rules': rules, 'directives': {'whitespace': ' '}, 'keywords': ['if']}
    snap = {id(r): {k: (id(v) if isinstance(v, Stub) else repr(v)) for k, v in r._attrs.items()} for r in rules + [old_base]}
    built: list = []

    def construct(*args, **kw):
        built.append((args, kw))
        return Stub(G, **{k: v for k, v in kw.items()})

    def generic(d):
        return Stub(G, **{k: v for k, v in dict(d).items() if k != '__class__'})
    it = ModelInterp(a, {'__super__': Hook(None, __from_json__=Hook(generic)), 'Grammar': Hook(construct, q=G),
                         'Sequence': Hook(lambda *x, **k: Stub('tatsu.peg.syntax.Sequence', sequence=list(k.get('ast') or k.get('sequence') or (x[0] if x else []))), q='tatsu.peg.syntax.Sequence'),
                         'typename': Hook(lambda o: o._cls.split('.')[-1] if isinstance(o, Stub) else type(o).__name__)})
    try:
        it.modstack.append(fj.module.name)
        res = it._call_with_env(fj.node, [Hook(construct, q=G), data], {}, {'__class_q__': G})
        it.modstack.pop()
    except Unsupported as e:
        raise AnalysisError(f'C14.R11: cannot interpret Grammar.__from_json__: {e}') from e
    got_rules = None
    src = None
    if built:
        args, kw = built[-1]
        got_rules, src = kw.get('rules'), kw
    elif isinstance(res, Stub):
        got_rules, src = res._attrs.get('rules'), res._attrs
    same_rules = got_rules is not None and len(list(got_rules)) == 3 and all(x is y for x, y in zip(got_rules, rules))
    rest_ok = src is not None and src.get('name') == 'Demo' and src.get('directives') == {'whitespace': ' '} and list(src.get('keywords') or ()) == ['if']
    changed = []
    for r in rules + [old_base]:
        now = {k: (id(v) if isinstance(v, Stub) else repr(v)) for k, v in r._attrs.items()}
        for k in sorted(set(now) | set(snap[id(r)])):
            if now.get(k) != snap[id(r)].get(k):
                changed.append(f'{r._attrs.get("name")}.{k}')
    rep.add({'rules_handed_on': [r._attrs.get('name') for r in got_rules] if got_rules is not None else None, 'same_objects_same_order': same_rules})
    rep.add({'name_directives_keywords_handed_on': rest_ok})
    rep.add({'attributes_of_decoded_rules_changed': changed})
    rep.add({'based_rule_still_bound_to': 'the base it was defined on' if based._attrs.get('baserule') is old_base else 'another rule'})
    if not same_rules:
        rep.fail(fj.qualname, 'from-json:rules', f'Grammar.__from_json__ builds the grammar from {[r._attrs.get("name") if isinstance(r, Stub) else r for r in (got_rules or [])]}, '
                 f'not from the decoded rules start, long, prefix as they are and in their order', fj.loc)
    if not rest_ok:
        rep.fail(fj.qualname, 'from-json:settings', 'Grammar.__from_json__ does not hand the decoded name / directives / keywords to the grammar it builds', fj.loc)
    if changed:
        rep.fail(fj.qualname, f'from-json:mutates:{",".join(changed)[:80]}', f'Grammar.__from_json__ changes {changed} of the decoded rules: the reloaded model is not the one that was '
                 f'written out (a based rule re-bound to the rule now registered under its base\'s name parses the OVERRIDING body where the original parses the overridden one)', fj.loc)
    return rep


def r12_link_rebinds(a, tier):
    """a grammar built over rule objects that already belonged to another grammar (the reload path builds two) owns them afterwards"""
    from ..minieval import Unsupported
    from ..modelinterp import Bound, Hook, ModelInterp, Stub
    rep = RuleReport(
        'C14.R12',
        'a reloaded grammar owns its rules: Grammar.__from_json__ (and every Grammar(...) over existing rule objects) links nodes that were already '
        'linked to another - temporary - grammar. Model.link(grammar), interpreted on stand-in nodes that are unlinked / linked to another grammar / '
        'linked to the same grammar, with and without children, leaves every node and child referring to THE GRAMMAR IT WAS GIVEN (the weak reference '
        'to the temporary grammar dies with it: `Call incorrectly initialized None` at the first parse of the reloaded model)',
        floor=4,
    )
    G = 'tatsu.peg.base.Grammar'
    link = a.ct.lookup('tatsu.peg.base.Model', 'link')
    if link is None:
        raise AnalysisError('C14.R12: Model.link not found')

    class Ref:
        def __init__(self, target):
            self.target = target
    g_old, g_new = Stub(G, name='old'), Stub(G, name='new')

    def referent(node):
        r = node._attrs.get('_grammar_ref')
        return r.target if isinstance(r, Ref) else r
    for what, before in (('never linked', None), ('linked to another grammar', g_old), ('linked to this grammar', g_new)):
        for with_child in (False, True):
            child = Stub('tatsu.peg.basic.Token', token='x', _grammar_ref=(Ref(before) if before is not None else None))
            child._attrs['children'] = Hook(lambda: [])
            node = Stub('tatsu.peg.syntax.Sequence', sequence=[child], _grammar_ref=(Ref(before) if before is not None else None))
            node._attrs['children'] = Hook(lambda child=child, with_child=with_child: [child] if with_child else [])
            it = ModelInterp(a, {'weakref': Hook(None, ref=Hook(Ref))})
            it.methods = lambda recv, name, args, kwargs: (recv.target if isinstance(recv, Ref) and name == '__call__' else NotImplemented)
            try:
                it.call_bound(Bound(node, link), [g_new], {})
            except Unsupported as e:
                raise AnalysisError(f'C14.R12: cannot interpret Model.link: {e}') from e
            ok = referent(node) is g_new and (not with_child or referent(child) is g_new)
            rep.add({'node': what, 'with_child': with_child, 'node_refers_to_given_grammar': referent(node) is g_new,
                     'child_refers_to_given_grammar': (referent(child) is g_new) if with_child else None, 'ok': ok})
            if not ok:
                rep.fail(link.qualname, f'link:{what}:{"child" if with_child else "leaf"}', f'Model.link(grammar) on a node that was {what}' + (' (with a child)' if with_child else '') +
                         f': afterwards the node refers to {"the given grammar" if referent(node) is g_new else "another grammar / nothing"}' +
                         (f', its child to {"the given grammar" if referent(child) is g_new else "another grammar / nothing"}' if with_child else '') +
                         ': a model rebuilt over existing rule objects (JSON reload) keeps pointing at the grammar that was thrown away', link.loc)
    return rep


RULES = [r_chain, r1_registry, r2_fields, r3_string_images, r4_cycles, r5_state_keys, r6_exports, r7_source_literals, r8_structure, r9_node_state, r10_generated_parser_copies_the_model, r11_from_json_keeps_members, r12_link_rebinds]
