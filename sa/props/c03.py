"""C03 - left-recursive rules parse, terminate and associate to the left (structural clauses)."""
from __future__ import annotations

import ast

from ..loader import AnalysisError, dotted, norm, walk_no_defs
from ..minieval import MiniEval, Obj, mro_methods
from ..paths import Executor, Semantics
from ..report import RuleReport
from ..rules.common import rule_chain
from ..rules.leftrec import rule_left_call_table, rule_nullable_table
from .c01 import CL, Elem, _shape

LEVEL = 'other'
TECHNIQUE = ('static: syntactic ranking function of the seed-growing loop (path-state execution), per-iteration reset rules, '
             'flag-transfer agreement model <-> generated parser (call dispatch, Rule.ruleinfo and walk_Rule interpreted for every flag combination), left-call table of the analysis (interpreted), R-CHAIN')
LEVEL_TEXT = ('Decides from the source: the seed loop of recursive_call has a strict ranking function (every back edge passes '
              '`new.newpos > lastpos` and `lastpos = new.newpos`), the seed is stored before the first evaluation, recursion '
              'guards are cleared and the position reset in every iteration, an open-list seed is closed when saved; the '
              'analysis finds the left calls of every expression shape of the documented table (so a left-recursive rule is '
              'marked); is_lrec/is_memo travel from the analysis into RuleInfo and into @tatsu.leftrec/@tatsu.nomemo of '
              'generated parsers. Associativity of results and leader selection are not decided.')
TECHNIQUE += '; replay contracts of rule_call and recursive_call interpreted with memo / _results hits'
LEVEL_TEXT += ' Added clause: the recursive invocation inside the seed loop ends at the _results lookup (hit returned, exception raised) before anything is evaluated; the seed is stored before the first evaluation.'
TECHNIQUE += '; SCC marking: no memoized rule on a cycle, all graphs with <= 3 edges in the quick tier'
LEVEL_TEXT += ' Added clause: every rule on a left-recursive cycle loses memoization (a split component is reported).'
TECHNIQUE += '; the analysis runs over every rule (= C16.R3)'
LEVEL_TEXT += ' Added clause: rules reached only through start=, an include or a base rule are analysed too.'
LEVEL_TEXT += ' Added clauses (rounds 9-11): the store of growing seeds is pruned only by its owners.'
TECHNIQUE += '; the store of left-recursion seeds is not an evicting container (= C04.R9)'
TECHNIQUE += '; the seed store is rebuilt per parse (= C06.R6)'
TECHNIQUE += '; the store of growing seeds is pruned only by its owners (C03.R7 = C04.R2, stores followed through helpers and loops over displays)'
LEVEL_NOTE = 'Positions are bounded by the text length, so a strictly increasing lastpos bounds the number of iterations.'
EXPLANATION = ('Static analysis of /repo sources, TatSu not imported. recursive_call is executed abstractly with flags and test '
               'hooks; pegen._callable_rule_ids/_is_nullable_safe and the is_nullable methods are interpreted on stand-in trees.')
ASSUMPTIONS = [LEVEL_NOTE]

ENGINE = 'tatsu.contexts.engine.ParserEngine'


def r_chain(a, tier):
    return rule_chain(a, 'C03.R-CHAIN')


def r1_seed_loop(a, tier):
    rep = RuleReport(
        'C03.R1',
        'seed growing terminates and resets: in recursive_call the seed (a FailedLeftRecursion) is stored in _results before the '
        'first evaluation; every iteration clears the recursion guards before evaluating, resets the position after a '
        'successful evaluation, and continues only through `new.newpos > lastpos` followed by `lastpos = new.newpos` (strict '
        'ranking function bounded by the text length); every other path leaves the loop',
        floor=1,
    )
    fn = a.p.func(f'{ENGINE}.recursive_call')
    init_vars = {n.targets[0].id for _f, n in a.extents.walk(fn) if isinstance(n, ast.Assign) and norm(n.value) in ('self.pos', 'ctx.pos')
                 and isinstance(n.targets[0], ast.Name)}

    class Sem(Semantics):
        def call(self, ex, f, node, state):
            nm = dotted(node.func)
            if ex.in_extent(f) and nm == 'self.clear_recursion_errors':
                if 'entered' in state and not {'grew', 'ranked'} <= state:
                    state = frozenset(state | {'bad_backedge'})
                keep = {x for x in state if x in ('seeded', 'bad_backedge', 'eval_before_seed', 'eval_without_clear', 'cmp_without_reset',
                                                  'non_strict', 'variant_seen')}
                if {'grew', 'ranked'} <= state:
                    keep.add('variant_seen')
                state = frozenset(keep | {'entered', 'cleared'})
            if ex.in_extent(f) and nm == 'self.rule_call' and any(isinstance(p, ast.While) for p in _ancestors(ex, f, node)):
                extra = set()
                if 'seeded' not in state:
                    extra.add('eval_before_seed')
                if 'cleared' not in state:
                    extra.add('eval_without_clear')
                state = frozenset((state - {'cleared'}) | extra | {'evaluated'})
            if ex.in_extent(f) and nm == 'self.goto' and node.args and isinstance(node.args[0], ast.Name) and node.args[0].id in init_vars:
                state = frozenset(state | {'reset'})
            return ex.default_call(f, node, state)

        def stmt(self, ex, f, node, state):
            if ex.in_extent(f) and isinstance(node, ast.Assign):
                t = node.targets[0]
                if isinstance(t, ast.Subscript) and norm(t.value) == 'self._results':
                    return frozenset(state | {'seeded'})
                if isinstance(t, ast.Name) and isinstance(node.value, ast.Attribute) and node.value.attr == 'newpos' and 'grew' in state:
                    return frozenset(state | {'ranked'})
            return state

        def test(self, ex, f, test, state):
            if ex.in_extent(f) and isinstance(test, ast.Compare) and len(test.ops) == 1 and isinstance(test.left, ast.Attribute) \
                    and test.left.attr == 'newpos' and isinstance(test.comparators[0], ast.Name):
                if 'reset' not in state:
                    state = frozenset(state | {'cmp_without_reset'})
                if isinstance(test.ops[0], ast.Gt):
                    return [frozenset(state | {'grew'})], [state]
                if isinstance(test.ops[0], ast.GtE):
                    return [frozenset(state | {'grew', 'non_strict'})], [state]
                if isinstance(test.ops[0], ast.LtE):
                    return [state], [frozenset(state | {'grew'})]
            return [state], [state]

    ex = Executor(a.p, a.ct, a.resolver, Sem(), raises=a.raises)
    ex.MAX_LOOP_STATES = 200
    outs = ex.run(fn, frozenset())
    allflags = set().union(*[o.state for o in outs]) if outs else set()
    rep.add({'fn': fn.qualname, 'outcomes': len(outs), 'flags_seen': sorted(allflags)})
    msgs = {
        'bad_backedge': 'the growth loop can iterate again without `new.newpos > lastpos` and `lastpos = new.newpos` having been passed: '
                        'no ranking function, a seed that stops advancing loops forever',
        'non_strict': 'the growth test is not strict (>=): a seed that does not advance is re-evaluated forever',
        'eval_before_seed': 'the rule body is evaluated in the growth loop before the seed was stored in _results: the recursive '
                            'invocation does not find the seed',
        'eval_without_clear': 'an iteration evaluates the rule body without clear_recursion_errors(): stale left-recursion guards '
                              'of inner rules fail the larger seed',
        'cmp_without_reset': 'the position is not reset to the start (goto(initial)) before results are compared: the next iteration '
                             'starts after the previous seed',
    }
    for flag, msg in msgs.items():
        if flag in allflags:
            rep.fail(fn.qualname, flag, msg, fn.loc)
    if 'variant_seen' not in allflags:
        rep.fail(fn.qualname, 'no-variant', 'no `new.newpos > lastpos` / `lastpos = new.newpos` pair found in the growth loop', fn.loc)
    # save_result closes an open list
    sr = a.p.func(f'{ENGINE}.save_result')
    cmod = a.p.module('tatsu.contexts.cst')
    env = {'closedlist': CL, 'list': list, 'isinstance': isinstance}
    ev = MiniEval(env)
    for name, f in cmod.functions.items():
        ev.globals[name] = ('<func>', f.node, {})
    store: dict = {}

    class Res(Obj):
        pass
    ev.globals['RuleResult'] = Res

    def mk(node):
        r = Res(node=node, newpos=3)
        return r

    e1, e2 = Elem(1), Elem(2)
    for what, node, want in (('open list', [e1, e2], 'C[e1,e2]'), ('scalar', e1, 'e1'), ('closed list', CL([e1]), 'C[e1]')):
        me = Obj(_results={})
        object.__setattr__(me, '_methods', mro_methods(a, ENGINE, skip=('save_result',)))
        res = mk(node)

        def methods(recv, name, args, kwargs, res=res):
            if recv is res and name == '_replace':
                return Res(node=kwargs.get('node', res.node), newpos=res.newpos)
            return NotImplemented

        ev2 = MiniEval(dict(ev.globals), methods=methods)
        ev2.call_function(sr.node, [me, 'key', res])
        got = me._results.get('key')
        shape = _shape(got.node) if got is not None else None
        rep.add({'save_result': what, 'stored_node': shape, 'want': want})
        if shape != want:
            rep.fail(sr.qualname, f'save:{what}', f'save_result stores a seed whose node is {shape} for an {what}; documented: {want} '
                     f'(a seed list is one value of the next iteration, not spliced)', sr.loc)
    return rep


def _ancestors(ex, fn, node):
    pm = ex.resolver.parents(fn)
    cur = node
    while id(cur) in pm:
        cur = pm[id(cur)]
        yield cur


def r2_flag_transfer(a, tier):
    rep = RuleReport(
        'C03.R2',
        'is_lrec / is_memo reach the engine on both back-ends: Rule.ruleinfo passes is_lrec=self.is_lrec and '
        'is_memo=self.memoizable; walk_Rule emits @tatsu.leftrec iff rule.is_lrec and @tatsu.nomemo iff not rule.memoizable; the '
        'leftrec decorator sets is_lrec=True and is_memo=False; call() dispatches to recursive_call iff ri.is_lrec; these are '
        'the only runtime readers of is_lrec',
        floor=6,
    )
    import contextlib
    import itertools

    from ..minieval import Obj, Unsupported
    from ..modelinterp import Hook, ModelInterp, Recorder, Stub
    # Rule.ruleinfo and walk_Rule interpreted on stand-in rules for every combination of the analysis flags
    ri = a.p.func('tatsu.peg.base.Rule.ruleinfo')
    wr = a.p.func('tatsu.ngcodegen.ngparser_gen.PythonParserGenerator.walk_Rule')
    for lrec, memoizable, no_memo in itertools.product((False, True), repeat=3):
        if memoizable and no_memo:
            continue  # memoizable implies not no_memo (C16/C04 rules decide Rule.memoizable itself)
        exp = Stub('tatsu.peg.basic.Void', _parse=Hook(lambda *_a: None))
        rule = Stub('tatsu.peg.base.Rule', name='r', exp=exp, params=(), kwparams={}, is_lrec=lrec, memoizable=memoizable,
                    no_memo=no_memo, no_stak=False, is_name=False, is_tokn=False, _parse=Hook(lambda *_a: None))
        got = {}

        def mkri(**kw):
            got.update(kw)
            return Obj(**kw)
        it = ModelInterp(a, {'RuleInfo': Hook(mkri, bind=Hook(lambda r, *_a: r))})
        try:
            it.get_attr(rule, 'ruleinfo')
        except Unsupported as e:
            raise AnalysisError(f'cannot interpret Rule.ruleinfo: {e}') from e
        ok = got.get('is_lrec') is lrec and got.get('is_memo') is memoizable
        rep.add({'Rule.ruleinfo': {'is_lrec': lrec, 'memoizable': memoizable, 'no_memo': no_memo},
                 'RuleInfo': {k: got.get(k) for k in ('is_lrec', 'is_memo', 'no_memo')}, 'ok': ok})
        if not ok:
            rep.fail(ri.qualname, f'ruleinfo:{lrec}:{memoizable}:{no_memo}', f'a rule with is_lrec={lrec}, memoizable={memoizable}, '
                     f'no_memo={no_memo} gets RuleInfo(is_lrec={got.get("is_lrec")}, is_memo={got.get("is_memo")}); required '
                     f'is_lrec={lrec}, is_memo={memoizable}', ri.loc)
        out = []
        gen = Stub('tatsu.ngcodegen.ngparser_gen.PythonParserGenerator', ctx_stack=['ctx'], ctx='ctx',
                   reset_counters=Hook(lambda: None), print=Hook(lambda *x, **_k: out.append(' '.join(str(y) for y in x))),
                   indent=Hook(lambda *_a, **_k: contextlib.nullcontext()), walk=Hook(lambda *_a, **_k: ''))
        it = ModelInterp(a, {'safe_name': Hook(lambda n, *_a: n)})
        try:
            it.call_fn(wr, [gen, rule])
        except Unsupported as e:
            raise AnalysisError(f'cannot interpret walk_Rule: {e}') from e
        text = '\n'.join(out)
        decs = {d: (d in text) for d in ('@tatsu.leftrec', '@tatsu.nomemo')}
        ok = decs['@tatsu.leftrec'] is lrec and decs['@tatsu.nomemo'] is (not memoizable)
        rep.add({'walk_Rule': {'is_lrec': lrec, 'memoizable': memoizable, 'no_memo': no_memo}, 'emits': decs, 'ok': ok})
        if not ok:
            rep.fail(wr.qualname, f'emit:{lrec}:{memoizable}:{no_memo}', f'for a rule with is_lrec={lrec}, memoizable={memoizable}, '
                     f'no_memo={no_memo} walk_Rule emits {[d for d, v in decs.items() if v]}; required @tatsu.leftrec iff is_lrec and '
                     f'@tatsu.nomemo iff not memoizable (the analysis result, not only the @nomemo written by the author)', wr.loc)
    lr = a.p.func('tatsu.contexts.decorator.basic.leftrec')
    sets = {norm(n.targets[0]).split('.')[-1]: norm(n.value) for n in walk_no_defs(lr.node) if isinstance(n, ast.Assign) and isinstance(n.targets[0], ast.Attribute)}
    ok = sets.get('is_lrec') == 'True' and sets.get('is_memo') == 'False'
    rep.add({'leftrec_decorator_sets': sets, 'ok': ok})
    if not ok:
        rep.fail(lr.qualname, 'leftrec-decorator', f'@tatsu.leftrec sets {sets}; required is_lrec=True and is_memo=False', lr.loc)
    exported = 'leftrec' in (a.p.module('tatsu').all_names or []) and 'nomemo' in (a.p.module('tatsu').all_names or [])
    rep.add({'leftrec_nomemo_exported_by_tatsu': exported})
    if not exported:
        rep.fail('tatsu', 'export', 'tatsu does not export leftrec/nomemo used by generated parsers', '')
    call = a.p.func(f'{ENGINE}.call')
    # interpret call() on a stand-in engine for ri.is_lrec in {True, False}: which of recursive_call / rule_call runs
    from ..minieval import Obj, Unsupported
    from ..modelinterp import Hook, ModelInterp, Recorder, Stub
    ok = True
    for lrec in (True, False):
        seen = []
        res = Obj(newpos=0, node='n')

        def mk(tag, seen=seen, res=res):
            def h(*_a, **_k):
                seen.append(tag)
                return res
            return Hook(h)
        nop = Hook(lambda *_a, **_k: None)
        me = Stub(ENGINE, pos=0, callstack=[], tracer=Recorder('tracer'), state=Recorder('state'), heartbeat=nop, next_token=nop,
                  goto=nop, set_furthest_exception=nop, recursive_call=mk('recursive_call'), rule_call=mk('rule_call'))
        ri = Stub('tatsu.contexts.infos.RuleInfo', is_lrec=lrec, should_trace=False, is_tokn=False, name='r')
        it = ModelInterp(a, {'MemoKey': Hook(lambda *x: ('key', *x))})
        try:
            it.call_fn(call, [me, ri])
        except Unsupported as e:
            raise AnalysisError(f'cannot interpret {call.qualname}: {e}') from e
        ok = ok and seen == (['recursive_call'] if lrec else ['rule_call'])
    rep.add({'call_dispatches_on_is_lrec': ok})
    if not ok:
        rep.fail(call.qualname, 'dispatch', 'call() does not dispatch to recursive_call iff ri.is_lrec (rule_call otherwise)', call.loc)
    readers = set()
    for f in a.p.functions.values():
        if f.qualname.startswith('tatsu.contexts.') and not f.qualname.startswith('tatsu.contexts.decorator') \
                and not f.qualname.startswith('tatsu.contexts.infos'):
            for n in walk_no_defs(f.node):
                if isinstance(n, ast.Attribute) and n.attr == 'is_lrec' and isinstance(n.ctx, ast.Load):
                    readers.add(f.qualname)
    rep.add({'runtime_readers_of_is_lrec': sorted(readers)})
    extra = readers - {f'{ENGINE}.call', f'{ENGINE}.recursive_call'}
    for r in sorted(extra):
        rep.fail(r, 'lrec-reader', f'{r} reads is_lrec at run time; only call/recursive_call may branch on it', a.p.functions[r].loc)
    return rep


def r3a(a, tier):
    return rule_nullable_table(a, 'C03.R3a')


def r3b(a, tier):
    return rule_left_call_table(a, 'C03.R3b', thorough=tier == 'thorough')


def r3c(a, tier):
    # every cycle must contain a marked rule, or its rules get neither seed growing nor the runtime guard (shared with C16.R4)
    from ..rules.leftrec import rule_all_small_graphs
    return rule_all_small_graphs(a, 'C03.R3c', tier)


def r_replay(a, tier):
    from .c01_contracts import replay_contracts
    return replay_contracts(a, 'C03.R4')


def r3d(a, tier):
    """the analysis runs over EVERY rule of the grammar (a rule entered through start=, an include or a base rule is left-recursive too)"""
    from . import c16
    rep = c16.r3_error_condition(a, tier)
    rep.rule = 'C03.R3d'
    for f in rep.findings:
        f.rule = 'C03.R3d'
    rep.text = '[= C16.R3] ' + rep.text
    return rep


def r5_seeds_never_evicted(a, tier):
    from .c04 import seeds_never_evicted
    rep = seeds_never_evicted(a, 'C03.R5')
    rep.text = '[= C04.R9] ' + rep.text
    return rep


def r6_seeds_per_parse(a, tier):
    """the seeds and guards of left recursion belong to ONE parse: a context used for a second text starts with an empty store"""
    from . import c06
    rep = c06.r6_per_parse_state(a, tier)
    rep.rule = 'C03.R6'
    for f in rep.findings:
        f.rule = 'C03.R6'
    rep.text = '[= C06.R6] ' + rep.text
    return rep


def r7_seed_store_owners(a, tier):
    """the seeds of a growing left recursion are removed only by their owners: a pruner (cut) that deletes the seed of a rule still
    growing at an earlier position makes the next call of that rule start a new growth loop, without bound"""
    from . import c04
    rep = c04.r2_ownership(a, tier)
    rep.rule = 'C03.R7'
    for f in rep.findings:
        f.rule = 'C03.R7'
    rep.text = '[= C04.R2] ' + rep.text
    return rep


RULES = [r_chain, r1_seed_loop, r2_flag_transfer, r3a, r3b, r3c, r3d, r_replay, r5_seeds_never_evicted, r6_seeds_per_parse, r7_seed_store_owners]
