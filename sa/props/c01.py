"""C01 - grammar models parse as the documented PEG semantics prescribe (structural clauses)."""
from __future__ import annotations

import ast

from ..loader import AnalysisError, dotted, norm, walk_no_defs
from ..minieval import MiniEval, Obj, Raised, Unsupported
from ..paths import FP, PE, Exc, Executor, Out, Semantics
from ..report import RuleReport
from ..modelinterp import Bound as Bound_
from ..rules.common import FlagSem, _bindings, rule_chain, run_flags, through_locals
from ..rules.frames import (POPPERS, PUSHERS, classify_exc, pushing_functions, run_depth, stack_op)

LEVEL = 'other'
TECHNIQUE = ('static: path-state abstract execution (frame balance on all normal and exceptional exits, inlined '
             'context managers), abstract interpretation of the CST algebra over a kind lattice against the '
             'documented table, syntactic order/progress rules, R-CHAIN')
LEVEL_TEXT = ('Decides necessary structural conditions of C01, for every path/class/call site at once: state frames '
              'are balanced on every normal and FailedParse exit of every frame-pushing function; semantic-failure '
              'exceptions cannot arise inside a frame; the CST accumulation functions implement the documented '
              'table (closures one element, groups/optionals spliced, rule value one element); choice options are '
              'tried in source order; repetition checks progress. Does NOT decide acceptance/AST for concrete '
              'grammar x input pairs (functional correctness of the interpreter).')
TECHNIQUE += '; interpretation of defines_single/defines_list of every expression class on stand-in nodes with a named element in every operand (declared keys cover every operand)'
LEVEL_TEXT += ' Added clause: every name bound in any operand of an expression (incl. join separators) is a declared key of the rule, so that it is None / [] when it did not match.'
TECHNIQUE += '; frame-keeping table per construct and exit by frame signatures (undo/pop/merge), negative lookahead per body outcome, leaf-primitive protocol interpreted with a scripted cursor'
LEVEL_TEXT += ' Added clauses: a lookahead discards its frame on every exit, optional/choice/group merge on success and undo on failure, a skip group keeps the position only; `!e` fails iff e matches and lets foreign exceptions through; every leaf matcher returns and appends exactly what the cursor matched and raises through the failure factory otherwise.'
TECHNIQUE += '; contracts of call/rule_call/repeat/gather/join/left-right join/naming context managers/skip_to interpreted with scripted callees (R9), values and bindings of the pass-through and naming model classes (R10), merge splices and define keeps bound names (R5), AST._define (R2)'
LEVEL_TEXT += ' Added clauses: call() moves the caller to the end of the rule result and appends its node once; rule_call() opens its frame with new(), builds and memoizes RuleResult(action value, position after the body) and undoes the frame; separators are kept/dropped as documented; group/optional/choice return the value that matched, a choice whose options all fail raises; name:e / name+:e / @:e / @+:e store under the right key as single value or list.'
TECHNIQUE += '; optimizer equivalence: optimized() of every expression class interpreted on all terms of depth <= 2 and compared with its input modulo four rewrites that are valid in PEG (C01.R11)'
LEVEL_TEXT += ' Added clause: the optimisation pass every parse runs on accepts, consumes and skips exactly like the grammar that was written.'
LEVEL_TEXT += ' Added clauses (rounds 9-11): the optimised rules / grammar every parse runs on keep name, parameters, flags, order and (modulo valid rewrites) bodies; whitespace placement table incl. the is_tokn derivation.'
TECHNIQUE += '; falsy rule values and action results in the call / rule_call contracts; AST._define with a name listed as single and list'
TECHNIQUE += '; a single-bound name is never declared as a list (defines_list over all classes); a call is optimised into a call of the same rule (who-may-write Call._rule + contract)'
TECHNIQUE += '; the separator of joins and gathers commits (= C05.R4); nameset/nameadd bind whatever last_node holds (None and falsy values)'
TECHNIQUE += '; Rule.optimized / Grammar.optimized contract: the optimised rules keep name, parameters, flags and (modulo the valid rewrites) their body, in the written order, the written grammar untouched (C01.R15, interpreted on stand-ins)'
TECHNIQUE += '; whitespace placement and is_tokn derivation (R16 = C09.R1)'
LEVEL_NOTE = ('Trusted: contextlib.contextmanager throws the body exception at the yield; unresolved calls may raise '
              'anything; the documented CST table (DESIGN appendix A) is the oracle, written from docs/ast.rst and '
              'docs/syntax.rst.')
EXPLANATION = ('Static analysis of /repo sources; TatSu is not imported. Path-state execution enumerates the outcome '
               'set (normal/return/raise by exception class) of each frame-pushing function with stack depth as state; '
               'cst.py/state.py/ast.py helpers are interpreted by a whitelisted mini-evaluator over representative '
               'shapes with opaque elements (parametricity) and compared with the documented table.')
ASSUMPTIONS = [LEVEL_NOTE]

CTX = 'tatsu.contexts.context.ParseContext'
CORE = 'tatsu.contexts.core.ParserCore'
ENGINE = 'tatsu.contexts.engine.ParserEngine'

REQUIRED_PUSHERS = {
    f'{CTX}.option': 'choice option scope (generated parsers)',
    f'{CTX}.optional': 'optional scope (generated parsers, closure)',
    f'{CTX}.if_': 'lookahead scope',
    f'{CTX}.isolate': 'repetition element scope',
    f'{CORE}.statescope': 'group/closure/rule-body scope',
    f'{ENGINE}.rule_call': 'rule invocation scope',
    'tatsu.peg.choice.Choice._parse': 'choice option scope (model)',
    'tatsu.peg.syntax.Optional._parse': 'optional scope (model)',
}


def r_chain(a, tier):
    return rule_chain(a, 'C01.R-CHAIN')


def r1_frames(a, tier):
    rep = RuleReport(
        'C01.R1',
        'every function that pushes a parse-state frame (ParseStateStack.push/new) leaves the stack at net depth 0 '
        'on every path to a normal exit and on every path that leaves with an exception of the FailedParse family '
        '(context managers analysed with the with-body as a hole that may complete or raise anything); foreign '
        'exceptions are abort paths, exempt because ParserEngine.bound re-creates the stack in a finally',
        floor=8,
    )
    fns = pushing_functions(a)
    found = {f.qualname for f in fns}
    for q, why in REQUIRED_PUSHERS.items():
        a.p.func(q)
        if q not in found:
            rep.fail(q, 'no-frame', f'{q} no longer pushes a state frame ({why}): backtracking and name scoping of '
                     f'the construct are lost', a.p.func(q).loc)
    for f in fns:
        outs = run_depth(a, f)
        summary = sorted({(o.kind, classify_exc(a, o.exc) if o.exc else '-', o.state) for o in outs})
        rep.add({'function': f.qualname, 'loc': f.loc, 'outcomes(kind,exc-family,net-depth)': summary})
        for o in outs:
            fam = classify_exc(a, o.exc) if o.exc else '-'
            if o.kind == 'return' and o.state != 0:
                rep.fail(f.qualname, f'return-depth:{o.state}',
                         f'a normal exit leaves net frame depth {o.state:+d}', f.loc)
            elif o.kind == 'raise' and fam == 'failedparse' and o.state != 0:
                rep.fail(f.qualname, f'failedparse-depth:{o.state}',
                         f'an exit with {o.exc.bound.split(".")[-1]} (raised at {o.exc.origin or "callee"}) leaves net '
                         f'frame depth {o.state:+d}: the frame of the failed construct stays on the stack, later '
                         f'elements backtrack/merge into the wrong scope', f.loc)
    # abort paths: bound() must re-create the stack on every exit
    b = a.p.func(f'{ENGINE}.bound')
    # path rule (helpers of bound() are run in place): every exit of bound() that follows the with-body has passed a call of
    # _initialize_caches() / _reset() made AFTER the body
    from ..rules.common import run_flags
    from ..rules.frames import generic_hole

    def reinit_flagger(ex, fn, node, state):
        if dotted(node.func).split('.')[-1] in ('_initialize_caches', '_reset') and 'ran' in state:
            return ('reinit',)
        return ()
    outs_b = run_flags(a, b, reinit_flagger, hole=lambda st: generic_hole(frozenset(st | {'ran'})))
    after_body = [o for o in outs_b if 'ran' in o.state]
    fin_ok = bool(after_body) and all('reinit' in o.state for o in after_body)
    ic = a.p.func(f'{CORE}._initialize_caches')
    resets = any(isinstance(n, ast.Assign) and any(norm(t) == 'self.states' for t in n.targets)
                 and isinstance(n.value, ast.Call) and dotted(n.value.func).endswith('ParseStateStack')
                 for n in walk_no_defs(ic.node))
    rep.add({'bound_finally_reinitialises': fin_ok, '_initialize_caches_recreates_stack': resets})
    if not (fin_ok and resets):
        rep.fail(b.qualname, 'abort-reset', 'ParserEngine.bound no longer re-creates the state stack in a finally: '
                 'frames leaked by a foreign exception survive into the next parse', b.loc)
    return rep


ALLOWED_NON_FP = {
    ('tatsu.exceptions.OptionSucceeded', f'{CTX}.option'): 'control exception, contained by suppress(OptionSucceeded) (R1c)',
    ('tatsu.exceptions.HeartDied', f'{CORE}.heartbeat'): 'abort of the whole parse',
}


def r1b_semantic_failures(a, tier):
    rep = RuleReport(
        'C01.R1b',
        'inside the engine (tatsu/contexts/**, Model._parse methods) every explicit raise of a ParseException that is '
        'not a FailedParse is a reviewed control/abort exception: the frame-managing constructs only unwind on '
        'FailedParse, so a FailedSemantics raised inside a rule body would leak the frames of every enclosing '
        'option/optional/closure',
        floor=10,
    )
    ex = Executor(a.p, a.ct, a.resolver, Semantics())
    for f in a.p.functions.values():
        q = f.qualname
        if not (q.startswith('tatsu.contexts.') or (q.startswith('tatsu.peg.') and f.name == '_parse')):
            continue
        if q.startswith('tatsu.contexts.tracing') or q.startswith('tatsu.contexts.memento'):
            continue
        for n in walk_no_defs(f.node):
            if not isinstance(n, ast.Raise) or n.exc is None:
                continue
            if isinstance(n.exc, ast.Name) and a.p.resolve(f.module.name, n.exc.id) not in a.p.classes:
                continue  # re-raise of a caught / stored exception object: not an originating raise
            tok = ex.raise_token(f, n.exc, None, {})
            mro = a.ct.mro(tok.bound)
            rep.add({'function': q, 'raise': norm(n)[:80], 'class': tok.bound.split('.')[-1]})
            if PE in mro and FP not in mro:
                if (tok.bound, q) in ALLOWED_NON_FP:
                    continue
                rep.fail(q, f'raise:{tok.bound.split(".")[-1]}',
                         f'`{norm(n)[:90]}` raises {tok.bound.split(".")[-1]} (a ParseException that is not a '
                         f'FailedParse) inside the engine: option/optional/statescope/Choice/Optional do not unwind '
                         f'their frame for it', f'{f.module.relpath}:{n.lineno}')
    return rep


def r1c_control_containment(a, tier):
    rep = RuleReport(
        'C01.R1c',
        'OptionSucceeded is raised only by ParseContext.option, and every `with <ctx>.option()` site is lexically '
        'inside `with suppress(OptionSucceeded)` (or a try whose `except OptionSucceeded` handler does not re-raise), or is ChoiceContext.parse whose '
        'caller choice() invokes it inside suppress(OptionSucceeded)',
        floor=3,
    )
    os_q = 'tatsu.exceptions.OptionSucceeded'
    a.p.cls(os_q)
    ex = Executor(a.p, a.ct, a.resolver, Semantics())
    for f in a.p.functions.values():
        for n in walk_no_defs(f.node):
            if isinstance(n, ast.Raise) and n.exc is not None:
                tok = ex.raise_token(f, n.exc, None, {})
                if tok.bound == os_q:
                    rep.add({'raise_site': f.qualname})
                    if f.qualname != f'{CTX}.option':
                        rep.fail(f.qualname, 'raise-OptionSucceeded', 'OptionSucceeded raised outside ParseContext.option', f.loc)

    def in_suppress(f, node) -> bool:
        pm = a.resolver.parents(f)
        cur = node
        while id(cur) in pm:
            par = pm[id(cur)]
            if isinstance(par, ast.With) and cur in par.body:
                for it in par.items:
                    ce = it.context_expr
                    if isinstance(ce, ast.Call) and dotted(ce.func).split('.')[-1] == 'suppress' and any(
                            dotted(x).split('.')[-1] == 'OptionSucceeded' for x in ce.args):
                        return True
            if isinstance(par, ast.Try) and any(cur is s_ or any(x is cur for x in ast.walk(s_)) for s_ in par.body):
                # try: with option(): ...  except OptionSucceeded: <no re-raise>   - the same containment written with a handler
                for h in par.handlers:
                    names = [] if h.type is None else [dotted(t).split('.')[-1] for t in (h.type.elts if isinstance(h.type, ast.Tuple) else [h.type])]
                    if 'OptionSucceeded' in names and not any(isinstance(x, ast.Raise) for x in ast.walk(h)):
                        return True
            cur = par
        return False

    for f in a.p.functions.values():
        if f.module.name.startswith('tatsu.boot') or f.module.name.startswith('tatsu.tool'):
            continue
        for n in walk_no_defs(f.node):
            if not isinstance(n, ast.With):
                continue
            for it in n.items:
                ce = it.context_expr
                if isinstance(ce, ast.Call) and isinstance(ce.func, ast.Attribute) and ce.func.attr in ('option', '_option'):
                    r = a.resolver.resolve_call(f, ce)
                    if not any(t.qualname == f'{CTX}.option' for t in r.targets):
                        continue
                    ok = in_suppress(f, n)
                    via = 'lexical suppress'
                    if not ok and f.qualname == 'tatsu.contexts.ctxlib.choice.ChoiceContext.parse':
                        ch = a.p.func(f'{CTX}.choice')
                        for c in walk_no_defs(ch.node):
                            if isinstance(c, ast.Call) and isinstance(c.func, ast.Attribute) and c.func.attr == 'parse':
                                ok = in_suppress(ch, c)
                                via = 'choice() calls parse inside suppress'
                    rep.add({'option_site': f.qualname, 'line': n.lineno, 'contained': ok, 'via': via})
                    if not ok:
                        rep.fail(f.qualname, 'option-not-contained',
                                 '`with ...option()` is not enclosed by suppress(OptionSucceeded): the success signal '
                                 'escapes as an exception', f'{f.module.relpath}:{n.lineno}')
    return rep


# --------------------------------------------------------------------------- R2 CST algebra
class CL(list):
    """Checker stand-in for tatsu.contexts.cst.closedlist."""


class Elem:
    def __init__(self, n):
        self.n = n

    def __repr__(self):
        return f'e{self.n}'


def _shape(v):
    if v is None:
        return 'None'
    if isinstance(v, Elem):
        return repr(v)
    if isinstance(v, CL):
        return 'C[' + ','.join(_shape(x) for x in v) + ']'
    if isinstance(v, list):
        return 'O[' + ','.join(_shape(x) for x in v) + ']'
    if isinstance(v, dict):
        return 'D{' + ','.join(f'{k}:{_shape(x)}' for k, x in v.items()) + '}'
    if isinstance(v, (str, int, tuple)):
        return repr(v)
    return f'?{type(v).__name__}'


def _kind(v):
    if v is None:
        return 'N'
    if isinstance(v, CL):
        return 'C'
    if isinstance(v, list):
        return 'O'
    return 'S'


def _operands(base: int):
    e = [Elem(base + i) for i in range(4)]
    return [None, e[0], [], [e[1]], [e[1], e[2]], CL([]), CL([e[3]]), CL([e[1], e[3]])]


def _oracle_add(cst, node):
    if cst is None:
        return node
    if _kind(cst) == 'O':
        return [*cst, node]
    return [cst, node]


def _oracle_addlist(cst, node):
    if cst is None:
        return [node]
    if _kind(cst) == 'O':
        return [*cst, node]
    return [cst, node]


def _oracle_merge(cst, other):
    if other is None:
        return cst
    if cst is None:
        return other
    ko, kc = _kind(other), _kind(cst)
    if ko == 'O' and kc == 'O':
        return [*cst, *other]
    if ko == 'O':
        return [cst, *other]
    if kc == 'O':
        return [*cst, other]
    return [cst, other]


def _oracle_final(cst):
    return CL(cst) if _kind(cst) == 'O' else cst


def _cst_eval(a):
    mod = a.p.module('tatsu.contexts.cst')
    env = {'closedlist': CL, 'list': list, 'isinstance': isinstance}
    ev = MiniEval(env)
    for name, f in mod.functions.items():
        ev.globals[name] = ('<func>', f.node, {})
    return ev, mod


def binding_values(a, rep, tag):
    # ... whatever the last node is - None (an optional that did not match), a falsy value - it is what gets bound, exactly once
    from ..modelinterp import Bound as _B, ModelInterp as _MI, Recorder as _Rec, Stub as _St
    from ..minieval import Unsupported as _Uns
    PSQ = 'tatsu.contexts.state.ParseState'
    for m, target in (('nameset', '_set'), ('nameadd', '_setlist')):
        fnm = a.ct.lookup(PSQ, m)
        if fnm is None:
            continue
        for val in (None, 'v', '', 0, [], ()):
            astrec = _Rec('ast')
            me_ = _St(PSQ, ast=astrec, last_node=val, cst=None)
            try:
                _MI(a).call_bound(_B(me_, fnm), ['n'], {})
            except _Uns as e:
                raise AnalysisError(f'{tag}: cannot interpret ParseState.{m}: {e}') from e
            calls_ = [t for t in astrec.trace if t[0] in ('_set', '_setlist', '__setitem__')]
            okb = len(calls_) == 1 and calls_[0][0] == target and len(calls_[0][1]) == 2 and calls_[0][1][0] == 'n' and (
                calls_[0][1][1] is val or (calls_[0][1][1] == val and type(calls_[0][1][1]) is type(val)))
            rep.add({'fn': f'ParseState.{m}', 'last_node': repr(val), 'binds': [(c[0], [repr(x) for x in c[1]]) for c in calls_], 'ok': okb})
            if not okb:
                rep.fail(fnm.qualname, f'{m}-value:{val!r}', f'ParseState.{m}("n") with last_node {val!r} performs {[(c[0], c[1]) for c in calls_]}; required: one AST.{target}("n", {val!r}) '
                         f'- the model binds the value of the named expression also when it is None or falsy (x+=[e] adds None when e is absent), and generated '
                         f'parsers bind through this method', fnm.loc)


def r2_cst(a, tier):
    rep = RuleReport(
        'C01.R2',
        'the CST accumulation functions (cst.py: islist, cstfinal, cstadd, cstaddlist, cstmerge), interpreted over '
        'None / scalar / open list / closed list operands with opaque elements, produce the documented table: '
        'add = one new element (a closure result stays ONE element), merge = splice open lists, closed lists and '
        'scalars are values, final = close an open list; ParseState.append/extend/fold and AST._set/_setlist use '
        'them as documented; closures/empty return closed lists; a rule result is appended as one element',
        floor=150,
    )
    ev, mod = _cst_eval(a)
    fns = {n: a.p.func(f'tatsu.contexts.cst.{n}') for n in ('islist', 'cstfinal', 'cstadd', 'cstaddlist', 'cstmerge')}

    def call(name, *args):
        ev.steps = 0
        return ev.call_function(fns[name].node, list(args))

    for v in _operands(0):
        got = call('islist', v)
        want = _kind(v) == 'O'
        rep.add({'fn': 'islist', 'arg': _shape(v), 'got': got, 'want': want})
        if bool(got) != want:
            rep.fail(fns['islist'].qualname, f'islist({_kind(v)})', f'islist({_shape(v)}) = {got}, documented: {want}', fns['islist'].loc)
        got = call('cstfinal', v)
        want = _oracle_final(v)
        rep.add({'fn': 'cstfinal', 'arg': _shape(v), 'got': _shape(got), 'want': _shape(want)})
        if _shape(got) != _shape(want):
            rep.fail(fns['cstfinal'].qualname, f'cstfinal({_kind(v)})',
                     f'cstfinal({_shape(v)}) = {_shape(got)}, documented: {_shape(want)}', fns['cstfinal'].loc)
    for fname, oracle in (('cstadd', _oracle_add), ('cstaddlist', _oracle_addlist), ('cstmerge', _oracle_merge)):
        for x in _operands(0):
            for y in _operands(10):
                got = call(fname, x, y)
                want = oracle(x, y)
                rep.add({'fn': fname, 'args': [_shape(x), _shape(y)], 'got': _shape(got), 'want': _shape(want)})
                if _shape(got) != _shape(want):
                    rep.fail(fns[fname].qualname, f'{fname}({_kind(x)},{_kind(y)})',
                             f'{fname}({_shape(x)}, {_shape(y)}) = {_shape(got)}, documented: {_shape(want)}',
                             fns[fname].loc)
                # no aliasing of an input list that is later extended in place
                if isinstance(got, list) and not isinstance(got, CL) and (got is x or got is y) and fname != 'cstmerge':
                    pass
    # ---- ParseState.fold / append / extend ; AST._set / _setlist -----------------------
    st = a.p.cls('tatsu.contexts.state.ParseState')
    smod = a.p.module('tatsu.contexts.state')
    at_key = ast.literal_eval(smod.assigns['_AT_']) if '_AT_' in smod.assigns else None
    if not isinstance(at_key, str):
        raise AnalysisError('tatsu.contexts.state._AT_ is not a string constant')
    ev.globals['_AT_'] = at_key
    methods = {n: m.node for n, m in st.methods.items()}
    e1, e2 = Elem(21), Elem(22)
    fold_cases = [
        ({}, [e1, e2], 'C[e21,e22]', 'no names: cstfinal(cst), open list closed'),
        ({}, e1, 'e21', 'no names: scalar unchanged'),
        ({}, None, 'None', 'no names, nothing matched'),
        ({'a': e1}, [e1, e2], 'D{a:e21}', 'named elements: the AST dict'),
        ({at_key: e2, 'a': e1}, e1, 'e22', 'override key present: its value'),
    ]
    for astv, cstv, want, what in fold_cases:
        o = Obj(methods, ast=dict(astv), cst=cstv, last_node=None)
        ev.steps = 0
        got = ev.call_function(methods['fold'], [o])
        rep.add({'fn': 'ParseState.fold', 'ast': _shape(astv), 'cst': _shape(cstv), 'got': _shape(got), 'want': want, 'case': what})
        if _shape(got) != want:
            rep.fail(st.methods['fold'].qualname, f'fold:{what}', f'fold() with ast={_shape(astv)} cst={_shape(cstv)} = '
                     f'{_shape(got)}, documented: {want} ({what})', st.methods['fold'].loc)
    for mname, oracle in (('append', _oracle_add), ('extend', _oracle_merge)):
        for x in _operands(0):
            for y in _operands(10):
                o = Obj(methods, ast={}, cst=x, last_node=None)
                ev.steps = 0
                ret = ev.call_function(methods[mname], [o, y])
                want = oracle(x, y)
                rep.add({'fn': f'ParseState.{mname}', 'cst': _shape(x), 'node': _shape(y), 'new_cst': _shape(o.cst), 'want': _shape(want)})
                if _shape(o.cst) != _shape(want) or o.last_node is not y or ret is not y:
                    rep.fail(st.methods[mname].qualname, f'{mname}({_kind(x)},{_kind(y)})',
                             f'ParseState.{mname}: cst {_shape(x)} + node {_shape(y)} -> cst {_shape(o.cst)}, last_node '
                             f'{_shape(o.last_node)}; documented cst {_shape(want)}, last_node = the node', st.methods[mname].loc)
    astc = a.p.cls('tatsu.contexts.ast.AST')
    amethods = {n: m.node for n, m in astc.methods.items()}

    class ADict(dict, Obj):  # a dict the interpreted AST methods may call get / super().__setitem__ on
        pass

    for mname, oracle in (('_set', _oracle_add), ('_setlist', _oracle_addlist)):
        for x in _operands(0):
            for y in _operands(10):
                store = {} if x is None else {'k': x}
                got = _run_ast_set(ev, amethods, mname, store, y)
                want = oracle(x, y)
                rep.add({'fn': f'AST.{mname}', 'current': _shape(x), 'node': _shape(y), 'new': _shape(got), 'want': _shape(want)})
                if _shape(got) != _shape(want):
                    rep.fail(astc.methods[mname].qualname, f'{mname}({_kind(x)},{_kind(y)})',
                             f'AST.{mname}: current {_shape(x)} + node {_shape(y)} -> {_shape(got)}, documented {_shape(want)}',
                             astc.methods[mname].loc)
    # AST._define declares the missing keys (None / []) and keeps what is bound
    if '_define' in amethods:
        for store in ({}, {'n': e1}, {'l': [e1]}):
            got = _run_ast_define(ev, amethods, store, ['n', 'k'], ['l', 'm'])
            want = {'n': store.get('n'), 'k': None, 'l': store.get('l', []), 'm': []}
            okd = got is not None and {k: _shape(v) for k, v in got.items()} == {k: _shape(v) for k, v in want.items()}
            rep.add({'fn': 'AST._define', 'bound_before': {k: _shape(v) for k, v in store.items()}, 'after': None if got is None else {k: _shape(v) for k, v in got.items()}, 'ok': okd})
            if not okd:
                rep.fail(astc.methods['_define'].qualname, f'_define:{sorted(store)}', f'AST._define(["n","k"], ["l","m"]) on {store} gives {got}; required {want} '
                         f'(names that did not match are None / [], bound names keep their value)', astc.methods['_define'].loc)
        # the form generated parsers use: a list name is also listed among the single names (NamedList is a Named)
        got = _run_ast_define(ev, amethods, {}, ['n', 'l'], ['l'])
        okd = got == {'n': None, 'l': []}
        rep.add({'fn': 'AST._define', 'call': "_define(['n', 'l'], ['l'])", 'after': repr(got), 'ok': okd})
        if not okd:
            rep.fail(astc.methods['_define'].qualname, '_define:overlap', f"AST._define(['n','l'], ['l']) gives {got}; required {{'n': None, 'l': []}}: a name declared "
                     f'as a list is a list also when it is listed among the single names (generated parsers declare it in both)', astc.methods['_define'].loc)
    # nameset/nameadd use the last node
    for m, target in (('nameset', '_set'), ('nameadd', '_setlist')):
        fn = st.methods.get(m)
        ok = fn is not None and any(isinstance(n, ast.Call) and isinstance(n.func, ast.Attribute) and n.func.attr == target
                                    and len(n.args) == 2 and norm(n.args[1]) == 'self.last_node' for n in walk_no_defs(fn.node))
        rep.add({'fn': f'ParseState.{m}', 'binds_last_node_with': target, 'ok': ok})
        if not ok:
            rep.fail(f'tatsu.contexts.state.ParseState.{m}', f'{m}-binding', f'ParseState.{m} does not store self.last_node '
                     f'through AST.{target}', fn.loc if fn else '')
    binding_values(a, rep, 'C01.R2')
    # ---- structural companions ---------------------------------------------------------
    import contextlib

    from ..minieval import Unsupported
    from ..modelinterp import Hook, ModelInterp, Stub
    def _cstadd(cur, node):
        # cstadd of appendix A: None -> node; open list -> element added; anything else -> two-element open list
        if cur is None:
            return node
        if isinstance(cur, list) and not isinstance(cur, CL):
            return [*cur, node]
        return [cur, node]

    for q in (f'{CTX}.closure', f'{CTX}.positive_closure'):
        # interpreted on a stand-in context: the element matches (cst := e1), repeat() adds e2 the way state.append does; the result
        # must be a closedlist holding [e1, e2] and be the scope's cst when the scope ends - also when e1 is itself an open list
        fn = a.p.func(q)
        for e1 in (Elem(41), [Elem(1), Elem(2)]):
            e2 = Elem(42)
            me = Stub(CTX, cst=None)
            nullctx = Hook(lambda *_a, **_k: contextlib.nullcontext())
            me._attrs.update(statescope=nullctx, optional=nullctx, option=nullctx,
                             expcall=Hook(lambda *_a, me=me, e1=e1: me._attrs.__setitem__('cst', e1)),
                             repeat=Hook(lambda *_a, me=me, e2=e2, **_k: me._attrs.__setitem__('cst', _cstadd(me._attrs['cst'], e2))))
            it = ModelInterp(a, {'closedlist': Hook(CL)})
            try:
                got = it.call_fn(fn, [me, Hook(lambda *_a: None)])
            except Unsupported as e:
                raise AnalysisError(f'cannot interpret {q}: {e}') from e
            ok = isinstance(got, CL) and len(got) == 2 and got[0] is e1 and got[1] is e2 and me._attrs.get('cst') is got
            rep.add({'fn': q, 'first_element': _shape(e1), 'result': _shape(got), 'scope_cst_is_result': me._attrs.get('cst') is got, 'ok': ok})
            if not ok:
                rep.fail(q, f'closure-not-closed:{_shape(e1)}', f'with a first element {_shape(e1)} and repeat() adding e42 the repetition returns {_shape(got)} and '
                         f'leaves the scope cst {_shape(me._attrs.get("cst"))}; required: the same closedlist C[first, e42] (an open list would be '
                         f'spliced into the enclosing sequence; an unwrapped first element that is a list absorbs the later ones)', fn.loc)
    fn = a.p.func(f'{CTX}.empty')
    ok = any(isinstance(n, ast.Call) and dotted(n.func) == 'closedlist' for n in walk_no_defs(fn.node)) and any(
        isinstance(n, ast.Call) and norm(n.func) == 'self.state.append' for n in walk_no_defs(fn.node))
    rep.add({'fn': fn.qualname, 'appends_closed_empty_list': ok})
    if not ok:
        rep.fail(fn.qualname, 'empty-not-closed', 'empty closure does not append a closedlist([])', fn.loc)
    fn = a.p.func(f'{ENGINE}.func_call')
    rets = [n for n in walk_no_defs(fn.node) if isinstance(n, ast.Return)]
    ok = bool(rets) and all(r.value is not None and norm(through_locals(fn, r.value)) in ('self.state.fold()', 'self.states.fold()') for r in rets)
    rep.add({'fn': fn.qualname, 'returns_fold': ok})
    if not ok:
        rep.fail(fn.qualname, 'func_call-fold', 'func_call does not return the folded state of the rule body', fn.loc)
    # (what call() does with the rule result is decided by the contract C01.R9: goto(end position), one append of the node)
    # Sequence._parse: interpreted over stub elements returning prescribed values; only None (no value) is skipped
    fn = a.p.func('tatsu.peg.syntax.Sequence._parse')
    stub = ast.parse('def _parse(self, ctx):\n    return self.value\ndef _add_defined(self, ctx):\n    return None\n').body
    stub_methods = {'_parse': stub[0], '_add_defined': stub[1]}
    ea, eb, ec = Elem(31), Elem(32), Elem(33)
    seq_cases = [
        [ea, None, eb], [ea, CL([]), eb], [CL([])], [ea, ''], [None, None], [[ea, eb], ec], [ea, 0], [ea, CL([eb]), None],
        [None, ea], [ea, [eb, ec]], [CL([ea]), CL([eb])], [ea, ()],
    ]
    sev = MiniEval({**ev.globals, 'Group': type('Group', (), {}), 'isinstance': isinstance})
    for name, f in a.p.module('tatsu.peg.syntax').functions.items():  # module-level helpers of Sequence._parse
        sev.globals.setdefault(name, ('<func>', f.node, {}))
    for vals in seq_cases:
        elems = [Obj(stub_methods, value=v) for v in vals]
        me = Obj({'_add_defined': stub[1]}, sequence=elems)
        got = sev.call_function(fn.node, [me, Obj({})])
        want = None
        for v in vals:
            if v is not None:
                want = _oracle_merge(want, v)
        rep.add({'fn': 'Sequence._parse', 'element_values': [_shape(v) for v in vals], 'got': _shape(got), 'want': _shape(want)})
        if _shape(got) != _shape(want):
            rep.fail(fn.qualname, f'sequence:{[_shape(v) for v in vals]}',
                     f'Sequence._parse over element values {[_shape(v) for v in vals]} returns {_shape(got)}, documented: '
                     f'{_shape(want)} (elements in order, only None is "no value"; an empty closure [] is an element)', fn.loc)
    # order of operands in result displays (accumulated first)
    for name, f in fns.items():
        if name in ('cstadd', 'cstaddlist', 'cstmerge'):
            first = f.params[0]
            for n in walk_no_defs(f.node):
                if isinstance(n, ast.List) and len(n.elts) >= 2:
                    names = [x.value.id if isinstance(x, ast.Starred) and isinstance(x.value, ast.Name)
                             else (x.id if isinstance(x, ast.Name) else None) for x in n.elts]
                    if first in names and names[0] != first:
                        rep.fail(f.qualname, f'order:{norm(n)}', f'`{norm(n)}` puts the new element before the accumulated one', f.loc)
    return rep


def _run_ast_set(ev, amethods, mname, store: dict, node):
    """Interpret AST._set/_setlist on a dict-like checker object."""

    class A(Obj):
        pass

    data = dict(store)
    o = A({})

    def methods(recv, name, args, kwargs):
        if recv is o and name == 'get':
            return data.get(*args)
        if recv == '<super>' and name == '__setitem__':
            data[args[0]] = args[1]
            return None
        if recv is o and name == '_unsafe':
            return frozenset(vars(dict).keys())
        if recv is o and name == '_safekey':
            return args[0]
        return NotImplemented

    sub = MiniEval(dict(ev.globals), calls={'super': lambda: '<super>'}, methods=methods)
    sub.call_function(amethods[mname], [o, 'k', node])
    return data.get('k')


def _run_ast_define(ev, amethods, store: dict, keys, list_keys):
    """Interpret AST._define on a dict-like checker object."""
    data = dict(store)

    class A(Obj):
        def __contains__(self, k):
            return k in data

    o = A({})

    def methods(recv, name, args, kwargs):
        if recv == '<super>' and name == '__setitem__':
            data[args[0]] = args[1]
            return None
        if recv is o and name == '__setitem__':
            data[args[0]] = args[1]
            return None
        if recv is o and name == '_safekey':
            return args[0]
        if recv is o and name == 'setdefault':
            return data.setdefault(*args)
        return NotImplemented

    sub = MiniEval(dict(ev.globals), calls={'super': lambda: '<super>'}, methods=methods)
    try:
        sub.call_function(amethods['_define'], [o, keys], {'list_keys': list_keys})
    except Unsupported:
        return None
    return data


def _is_result_node(fn, e) -> bool:
    """e is <r>.node where <r> is the local bound to the result of recursive_call/rule_call (possibly through a dispatch local)"""
    e = through_locals(fn, e)
    if not (isinstance(e, ast.Attribute) and e.attr == 'node' and isinstance(e.value, ast.Name)):
        return False
    binds = _bindings(fn, e.value.id)
    return bool(binds) and all(b is not None and isinstance(b, ast.Call) for b in binds)


def _returns_closedlist_of_cst(fn) -> bool:
    """... self.cst = cst = closedlist(self.cst); return cst   (any equivalent spelling)"""
    closed_names: set[str] = set()
    stores_cst = False
    for n in walk_no_defs(fn.node):
        if isinstance(n, ast.Assign) and isinstance(n.value, ast.Call) and dotted(n.value.func) == 'closedlist':
            if n.value.args and norm(n.value.args[0]) == 'self.cst':
                for t in n.targets:
                    if isinstance(t, ast.Name):
                        closed_names.add(t.id)
                    if norm(t) == 'self.cst':
                        stores_cst = True
    rets = [n for n in walk_no_defs(fn.node) if isinstance(n, ast.Return)]
    if not rets:
        return False
    for r in rets:
        v = r.value
        if v is None:
            return False
        if isinstance(v, ast.Name) and v.id in closed_names:
            continue
        if norm(v) == 'self.cst' and stores_cst:
            continue
        if isinstance(v, ast.Call) and dotted(v.func) == 'closedlist':
            continue
        return False
    return stores_cst


def _sequence_merges_in_order(fn) -> bool:
    loops = [n for n in walk_no_defs(fn.node) if isinstance(n, ast.For)]
    for lp in loops:
        if norm(lp.iter) != 'self.sequence':
            continue
        for n in ast.walk(lp):
            if (isinstance(n, ast.Assign) and isinstance(n.value, ast.Call) and dotted(n.value.func) == 'cstmerge'
                    and len(n.value.args) == 2 and isinstance(n.targets[0], ast.Name)
                    and norm(n.value.args[0]) == n.targets[0].id):
                acc = n.targets[0].id
                rets = [r for r in walk_no_defs(fn.node) if isinstance(r, ast.Return)]
                return all(r.value is not None and norm(r.value) == acc for r in rets)
    return False


REORDERING = {'sorted', 'reversed', 'set', 'frozenset', 'shuffle', 'sample', 'dict', 'Counter'}


def _order_preserving(e: ast.expr) -> bool:
    """enumerate()/list()/tuple()/forward slices of the option list keep its order; anything else is refused."""
    for n in ast.walk(e):
        if isinstance(n, ast.Call):
            nm = dotted(n.func).split('.')[-1]
            if nm in REORDERING:
                return False
        if isinstance(n, ast.Slice) and n.step is not None:
            return False
    return True


def r3_ordered_choice(a, tier):
    rep = RuleReport(
        'C01.R3',
        'ordered choice: the option loops of Choice._parse and ChoiceContext.parse iterate the options attribute '
        'itself (no sorted/reversed/set/slicing), ChoiceContext.option appends, and the model returns the value of '
        'the first succeeding option from inside the loop',
        floor=3,
    )
    for q, attr in (('tatsu.peg.choice.Choice._parse', 'self.options'),
                    ('tatsu.contexts.ctxlib.choice.ChoiceContext.parse', 'self.options')):
        fn = a.p.func(q)
        loops = [n for n in walk_no_defs(fn.node) if isinstance(n, ast.For)]
        derived = {attr}
        changed = True
        exprs: list[ast.expr] = []
        while changed:
            changed = False
            for n in walk_no_defs(fn.node):
                if isinstance(n, ast.Assign) and any(d in norm(n.value).replace('(', ' ').replace(')', ' ').replace(',', ' ').replace('[', ' ').replace(']', ' ').replace('*', ' ').split()
                                                      for d in derived):
                    for t in n.targets:
                        for x in ast.walk(t):
                            if isinstance(x, ast.Name) and x.id not in derived:
                                derived.add(x.id)
                                changed = True
                    if n.value not in exprs:
                        exprs.append(n.value)
        srcs = [lp.iter for lp in loops if any(d in [norm(x) for x in ast.walk(lp.iter) if isinstance(x, (ast.Name, ast.Attribute))] for d in derived)]
        ok = bool(srcs) and all(_order_preserving(s_) for s_ in [*srcs, *exprs])
        rep.add({'fn': q, 'iterates': [norm(lp.iter) for lp in loops], 'derived_from_options': sorted(derived), 'ok': ok})
        if not ok:
            rep.fail(q, 'choice-order', f'the option loop does not iterate `{attr}` in its own order '
                     f'(found {[norm(lp.iter) for lp in loops]}): options may be tried in another order than written', fn.loc)
    fn = a.p.func('tatsu.peg.choice.Choice._parse')
    lp = next((n for n in walk_no_defs(fn.node) if isinstance(n, ast.For)), None)
    ok = lp is not None and any(isinstance(n, ast.Return) and n.value is not None for n in ast.walk(lp))
    rep.add({'fn': fn.qualname, 'returns_first_success_inside_loop': ok})
    if not ok:
        rep.fail(fn.qualname, 'first-success', 'Choice._parse does not return from inside the option loop on the first success', fn.loc)
    fn = a.p.func('tatsu.contexts.ctxlib.choice.ChoiceContext.option')
    ok = any(isinstance(n, ast.Call) and norm(n.func) == 'self.options.append' for n in walk_no_defs(fn.node))
    rep.add({'fn': fn.qualname, 'appends': ok})
    if not ok:
        rep.fail(fn.qualname, 'option-append', 'ChoiceContext.option does not append to the option list (order lost)', fn.loc)
    return rep


def r4_progress(a, tier):
    rep = RuleReport(
        'C01.R4',
        'greedy repetition makes progress: in ParseContext.repeat every path on which an iteration body '
        '(isolate(exp)) completed reaches the success signal of the iteration only after a comparison of the position '
        'with the position saved at the start of the iteration whose equal-branch raises a FailedParse; skip_to '
        'advances at least one character per failed probe',
        floor=2,
    )
    fn = a.p.func(f'{CTX}.repeat')
    ext = a.extents.of(fn)   # repeat() and the private helpers that exist only for it

    def snorm(f, e):
        """norm(e) with the context read as `self`: in a module-level helper of the extent the context is its first parameter"""
        t = norm(e)
        if f is not None and f.cls is None and f.params and t.startswith(f.params[0] + '.'):
            t = 'self.' + t[len(f.params[0]) + 1:]
        return t
    saved: set[str] = set()
    for _f, n in a.extents.walk(fn):
        if isinstance(n, ast.Assign) and snorm(_f, n.value) == 'self.pos' and isinstance(n.targets[0], ast.Name):
            saved.add(n.targets[0].id)

    def origin(f, e):
        return a.extents.param_origin(fn, f, e.id) if isinstance(e, ast.Name) else None

    class Sem(Semantics):
        def call(self, ex, f, node, state):
            nm = snorm(f, node.func)
            if ex.in_extent(f) and nm in ('self.isolate', 'self._isolate') and node.args and origin(f, node.args[0]) == fn.params[1]:
                state = frozenset((state - {'checked'}) | {'iterated'})
            if nm.split('.')[-1] == 'OptionSucceeded' and 'iterated' in state and 'checked' not in state:
                state = frozenset(state | {'unchecked_success'})
            return ex.default_call(f, node, state)

        def test(self, ex, f, test, state):
            if ex.in_extent(f) and isinstance(test, ast.Compare) and len(test.ops) == 1 and isinstance(test.ops[0], (ast.Eq, ast.LtE)):
                l, r = snorm(f, test.left), snorm(f, test.comparators[0])
                if {l, r} & {'self.pos'} and ({l, r} - {'self.pos'}) <= saved and ({l, r} - {'self.pos'}):
                    return [frozenset(state | {'no_progress'})], [frozenset(state | {'checked'})]
            if ex.in_extent(f) and isinstance(test, ast.Compare) and len(test.ops) == 1 and isinstance(test.ops[0], (ast.NotEq, ast.Gt)):
                l, r = snorm(f, test.left), snorm(f, test.comparators[0])
                if {l, r} & {'self.pos'} and ({l, r} - {'self.pos'}) <= saved and ({l, r} - {'self.pos'}):
                    return [frozenset(state | {'checked'})], [frozenset(state | {'no_progress'})]
            return [state], [state]

    ex = Executor(a.p, a.ct, a.resolver, Sem(), raises=a.raises)
    outs = ex.run(fn, frozenset())
    bad = [o for o in outs if 'unchecked_success' in o.state]
    # the no-progress branch must not reach the success signal either
    silent = [o for o in outs if 'no_progress' in o.state and 'unchecked_success' in o.state]
    rep.add({'fn': fn.qualname, 'extent': [f.name for f in ext], 'saved_position_vars': sorted(saved), 'outcomes': len(outs),
             'iteration_success_always_after_progress_check': not bad})
    if bad or silent:
        rep.fail(fn.qualname, 'no-progress-check', 'an iteration of repeat() can succeed without the position having been '
                 'compared with the position at its start: a body that matches the empty string loops forever', fn.loc)
    # the saved position is the one at the START of the iteration: bound once per iteration (inside the loop, or in a helper the
    # loop calls each time round), before the separator and the element are evaluated (the documented expansion
    # s%{e} = [e {s e}] counts the separator as progress)
    p_names = set(fn.params[1:3])
    cmp_vars = set()
    for _f, n in a.extents.walk(fn):
        if isinstance(n, ast.Compare) and len(n.ops) == 1:
            l, r = snorm(_f, n.left), snorm(_f, n.comparators[0])
            if 'self.pos' in (l, r):
                cmp_vars |= ({l, r} - {'self.pos'}) & saved

    def per_iteration_scopes(f):
        """the regions of F that run once per iteration: loops of F; the whole body when F is a helper invoked from a loop of
        the extent (in its body or its test)"""
        scopes = [n for n in walk_no_defs(f.node) if isinstance(n, (ast.While, ast.For))]
        if f is not fn:
            for g in ext:
                for lp in [n for n in walk_no_defs(g.node) if isinstance(n, (ast.While, ast.For))]:
                    if any(isinstance(x, ast.Call) and ((isinstance(x.func, ast.Attribute) and x.func.attr == f.name) or (isinstance(x.func, ast.Name) and x.func.id == f.name))
                           for x in ast.walk(lp)):
                        scopes.append(f.node)
        return scopes
    for v in sorted(cmp_vars):
        ok_any = False
        for f in ext:
            scopes = per_iteration_scopes(f)
            binds = [n for sc in scopes for n in ast.walk(sc) if isinstance(n, ast.Assign) and isinstance(n.targets[0], ast.Name)
                     and n.targets[0].id == v and snorm(f, n.value) == 'self.pos']
            if not binds:
                continue
            evals = [n for sc in scopes for n in ast.walk(sc) if isinstance(n, ast.Call) and (
                any(origin(f, x) in p_names for x in n.args) or origin(f, n.func) in p_names)]
            first_eval = min(((e.lineno, e.col_offset) for e in evals), default=None)
            ok_any = first_eval is not None and all((b_.lineno, b_.col_offset) < first_eval for b_ in binds)
        rep.add({'fn': fn.qualname, 'start_position_var': v, 'bound_once_per_iteration_before_separator_and_element': ok_any})
        if not ok_any:
            rep.fail(fn.qualname, f'late-marker:{v}', f'the position `{v}` that the no-progress test of repeat() compares with is not taken at '
                     f'the start of the iteration (inside the loop, before the separator and the element are evaluated): an iteration '
                     f'whose separator consumed input but whose element matched empty is rejected, so `s%{{e}}` differs from [e {{s e}}]',
                     fn.loc)
    if not cmp_vars:
        rep.fail(fn.qualname, 'no-marker', 'repeat() compares the position with no saved start position', fn.loc)
    # no-progress branch raises
    raises_on_equal = False
    for _f, n in a.extents.walk(fn):
        if isinstance(n, ast.If) and isinstance(n.test, ast.Compare):
            l, r = snorm(_f, n.test.left), snorm(_f, n.test.comparators[0])
            if 'self.pos' in (l, r) and ({l, r} - {'self.pos'}) <= saved:
                branch = n.body if isinstance(n.test.ops[0], (ast.Eq, ast.LtE)) else n.orelse
                raises_on_equal = any(isinstance(x, ast.Raise) for s_ in branch for x in ast.walk(s_))
    rep.add({'no_progress_branch_raises': raises_on_equal})
    if not raises_on_equal:
        rep.fail(fn.qualname, 'no-progress-raise', 'the equal-position branch of repeat() does not raise', fn.loc)
    # skip_to
    st = a.p.func(f'{CTX}.skip_to')
    ok = False
    for n in walk_no_defs(st.node):
        if isinstance(n, ast.If) and isinstance(n.test, ast.Compare) and 'self.pos' in (norm(n.test.left), norm(n.test.comparators[0])):
            ok = any(isinstance(x, ast.Call) and dotted(x.func) in ('self._next', 'self.cursor.next', 'self.cursor.move')
                     for s in n.body for x in ast.walk(s))
    rep.add({'fn': st.qualname, 'advances_when_stuck': ok})
    if not ok:
        rep.fail(st.qualname, 'skipto-progress', 'skip_to does not advance a character when next_token() made no progress', st.loc)
    return rep


def r5_state_stack(a, tier):
    from ..minieval import Obj, Unsupported
    from ..modelinterp import Hook, ModelInterp, Stub
    rep = RuleReport(
        'C01.R5',
        'the parse-state stack, interpreted on model cursors (ParseState / ParseStateStack of tatsu/contexts/state.py): a pushed or '
        'new frame works on its own cursor (moving it does not move the enclosing frame: undo() restores position, CST and names), '
        'starts with cutseen False and an empty CST; push() inherits the names by copy, new() starts without names; merge() hands '
        'position, names, alerts to the enclosing frame and splices the CST; pop() hands over the position only',
        floor=4,
    )
    SS = 'tatsu.contexts.state.ParseStateStack'
    a.p.cls(SS)

    class Cur(Obj):
        pass

    class AstM(dict):
        pass

    def mk_cursor(pos):
        c = Cur(pos=pos)
        return c

    def methods(recv, name, args, kwargs):
        if isinstance(recv, Cur) and name == 'clone':
            return mk_cursor(recv.pos)
        if isinstance(recv, Cur) and name == 'goto':
            object.__setattr__(recv, 'pos', args[0])
            return None
        if isinstance(recv, AstM) and name == '_define':
            # what AST._define does (decided by R2): declare the missing keys
            for k in (kwargs.get('list_keys') or (args[1] if len(args) > 1 else None) or []):
                recv.setdefault(k, [])
            for k in args[0]:
                recv.setdefault(k, None)
            return None
        if isinstance(recv, AstM) and name == 'update':
            dict.update(recv, *args)
            return None
        return NotImplemented

    def fresh():
        it = ModelInterp(a, {'AST': Hook(lambda base=None: AstM(base or {})), 'closedlist': CL})
        it.methods = methods
        st = it.construct(__import__('sa.modelinterp', fromlist=['ClassRef']).ClassRef(SS), [mk_cursor(3)], {})
        return it, st

    def top(it, st):
        return it.get_attr(st, 'state')

    def snap(frame):
        at = frame._attrs
        return {'pos': at['cursor'].pos, 'cst': _shape(at['cst']), 'names': dict(at['ast']), 'cutseen': at['cutseen'], 'alerts': len(at['alerts'])}

    def call(it, obj, name, *args):
        return it.apply(it.get_attr(obj, name), list(args), {})

    e1, e2 = Elem(51), Elem(52)
    try:
        for opener in ('push', 'new'):
            # -- a frame is isolated; undo restores everything
            it, st = fresh()
            base = top(it, st)
            call(it, base, 'append', e1)
            base._attrs['ast']['n'] = e1
            before = snap(base)
            child = call(it, st, opener)
            c0 = snap(child)
            call(it, child._attrs['cursor'], 'goto', 9) if False else methods(child._attrs['cursor'], 'goto', [9], {})
            call(it, child, 'append', e2)
            child._attrs['ast']['m'] = e2
            child._attrs['cutseen'] = True
            mid = snap(base)
            call(it, st, 'undo')
            after = snap(top(it, st))
            ok = (mid == before == after and top(it, st) is base and c0['pos'] == 3 and c0['cst'] == 'None' and c0['cutseen'] is False
                  and c0['names'] == ({'n': e1} if opener == 'push' else {}) and child._attrs['ast'] is not base._attrs['ast']
                  and child._attrs['cursor'] is not base._attrs['cursor'])
            rep.add({'case': f'{opener}(); work in the frame; undo()', 'enclosing_before': str(before), 'during': str(mid), 'after': str(after),
                     'new_frame': str(c0), 'ok': ok})
            if not ok:
                rep.fail(f'{SS}.{opener}', f'isolation:{opener}', f'{opener}() then work in the new frame then undo(): the enclosing frame was '
                         f'{before}, is {mid} while the inner frame works and {after} after undo(); the new frame started as {c0}; required: '
                         f'enclosing frame untouched, new frame at the same position with empty CST, cutseen False, '
                         f'{"a copy of the names" if opener == "push" else "no names"} and its own cursor', a.p.func(f'{SS}.{opener}').loc)
        # -- merge
        it, st = fresh()
        base = top(it, st)
        call(it, base, 'append', e1)
        child = call(it, st, 'push')
        methods(child._attrs['cursor'], 'goto', [9], {})
        call(it, child, 'append', e2)
        child._attrs['ast']['m'] = e2
        child._attrs['cutseen'] = True
        child._attrs['alerts'].append('al')
        call(it, st, 'merge')
        got = snap(top(it, st))
        ok = top(it, st) is base and got == {'pos': 9, 'cst': 'O[e51,e52]', 'names': {'m': e2}, 'cutseen': False, 'alerts': 1}
        rep.add({'case': 'push(); element e52, name m, cut, alert at 9; merge()', 'enclosing_after': str(got), 'ok': ok})
        if not ok:
            rep.fail(f'{SS}.merge', 'merge', f'after push(), an element, a name, a cut and an alert in the inner frame at position 9, merge() '
                     f'leaves the enclosing frame as {got}; required pos 9, CST [e51,e52] (spliced), names of the inner frame, cutseen '
                     f'False (a cut is not handed on by merge), one alert', a.p.func(f'{SS}.merge').loc)
        # -- merge of a frame that holds two elements: spliced, not nested
        it, st = fresh()
        base = top(it, st)
        call(it, base, 'append', e1)
        child = call(it, st, 'push')
        e3 = Elem(53)
        call(it, child, 'append', e2)
        call(it, child, 'append', e3)
        call(it, st, 'merge')
        got = snap(top(it, st))
        ok = got['cst'] == 'O[e51,e52,e53]' and _shape(top(it, st)._attrs['last_node']) == 'O[e52,e53]'
        rep.add({'case': 'push(); two elements; merge()', 'enclosing_cst': got['cst'], 'last_node': _shape(top(it, st)._attrs['last_node']), 'ok': ok})
        if not ok:
            rep.fail(f'{SS}.merge', 'merge-splices', f'after push(), two elements e52 e53 and merge() the enclosing CST is {got["cst"]} with last node '
                     f'{_shape(top(it, st)._attrs["last_node"])}; required [e51,e52,e53] (the inner CST spliced) and last node [e52,e53] (the value a '
                     f'name around the block binds)', a.p.func(f'{SS}.merge').loc)
        # -- define() declares keys and keeps what is bound already
        it, st = fresh()
        base = top(it, st)
        base._attrs['ast']['n'] = e1
        try:
            call(it, base, 'define', ['n', 'k'], ['l'])
            names = dict(base._attrs['ast'])
            ok = names.get('n') is e1 and 'k' in names and names['k'] is None and names.get('l') == []
        except Unsupported as e:
            names, ok = f'not interpretable: {e}', None
        rep.add({'case': 'define([n, k], [l]) with n bound', 'names_after': str(names), 'ok': ok})
        if ok is False:
            rep.fail('tatsu.contexts.state.ParseState.define', 'define', f'define(["n","k"], ["l"]) on a frame where n is bound leaves the names {names}; '
                     f'required: n keeps its value, k is None, l is []', a.p.func('tatsu.contexts.state.ParseState.define').loc)
        # -- new + pop
        it, st = fresh()
        base = top(it, st)
        call(it, base, 'append', e1)
        child = call(it, st, 'new')
        methods(child._attrs['cursor'], 'goto', [9], {})
        call(it, child, 'append', e2)
        prev = call(it, st, 'pop')
        got = snap(top(it, st))
        ok = top(it, st) is base and prev is child and got == {'pos': 9, 'cst': 'e51', 'names': {}, 'cutseen': False, 'alerts': 0}
        rep.add({'case': 'new(); element at 9; pop()', 'enclosing_after': str(got), 'ok': ok})
        if not ok:
            rep.fail(f'{SS}.pop', 'pop', f'new(), an element at position 9, pop(): the enclosing frame is {got}; required: position 9 handed '
                     f'over, CST and names untouched, the popped frame returned', a.p.func(f'{SS}.pop').loc)
    except Unsupported as e:
        raise AnalysisError(f'cannot interpret the parse-state stack: {e}') from e
    return rep


def r6_defines_cover_operands(a, tier):
    from ..classes import dataclass_fields
    from ..minieval import Unsupported
    from ..modelinterp import ModelInterp, Stub
    from ..rules.leftrec import Q
    rep = RuleReport(
        'C01.R6',
        'names that did not match are None / []: the key lists a rule declares before parsing (defines_single / defines_list, '
        'interpreted on stand-in nodes) contain the names bound in EVERY operand of every expression class - a name bound in an '
        'operand the recursion does not visit (the separator of a join) appears in the AST only when that operand happened to '
        'match, instead of being None / [] otherwise (docs/ast.rst)',
        floor=40,
    )
    model = 'tatsu.peg.base.Model'
    skip = {'Grammar', 'RuleInclude', 'Option'}
    for c in sorted(a.ct.subclasses(model)):
        short = c.split('.')[-1]
        if c not in a.p.classes or short in skip:
            continue
        fields = [f for f in dataclass_fields(a.ct, c) if not f.name.startswith('_') and f.annotation
                  and any(t in f.annotation for t in ('Model', 'Option')) and 'ref' not in f.annotation]
        if not fields:
            continue
        # an operand that __post_init__ derives from other operands (BasedRule.rhs) is given the value __post_init__ would give it
        for kind, prop, ncls in (('single', 'defines_single', 'Named'), ('list', 'defines_list', 'NamedList')):
            attrs = {}
            want = set()
            for f in fields:
                nm = f'{f.name}_name'
                leaf = Stub(Q[ncls], name=nm, exp=Stub(Q['Token'], token='t'))
                if 'Option' in f.annotation:
                    attrs[f.name] = [Stub(Q['Option'], exp=leaf)]
                elif f.annotation.replace(' ', '').startswith(('list[', 'tuple[', 'Sequence[')):
                    attrs[f.name] = [leaf]
                else:
                    attrs[f.name] = leaf
                want.add(nm)
            extra = {}
            if 'tatsu.peg.base.NamedBox' in a.ct.mro(c) or short in ('Named', 'NamedList', 'Override', 'OverrideList'):
                extra['name'] = 'own'
            node = Stub(c, **extra, **attrs)
            it = ModelInterp(a)
            try:
                got = set(it.get_attr(node, prop))
            except Unsupported as e:
                raise AnalysisError(f'C01.R6: cannot interpret {short}.{prop}: {e}') from e
            derived = _derived_operands(a, c)
            missing = sorted(n for n in want - got if n[:-5] not in derived)
            rep.add({'class': short, 'keys': prop, 'operands': sorted(attrs), 'declared': sorted(got), 'missing': missing,
                     'derived_operands_not_required': sorted(derived)})
            impl = a.ct.lookup(c, prop)
            if kind == 'single':
                # ... and a name that is only ever bound with `=` is not declared as a list (it would start as [] and collect its value)
                try:
                    as_list = set(ModelInterp(a).get_attr(node, 'defines_list'))
                except Unsupported as e:
                    raise AnalysisError(f'C01.R6: cannot interpret {short}.defines_list: {e}') from e
                wrong = sorted(want & as_list)
                rep.add({'class': short, 'single_names_declared_as_lists': wrong})
                for n in wrong:
                    il = a.ct.lookup(c, 'defines_list')
                    rep.fail(c, f'defines:single-as-list:{n[:-5]}', f'{short}.defines_list (implemented by {il.qualname if il else "?"}) contains the name bound with `=` in the '
                             f'operand `{n[:-5]}`: the enclosing sequence declares it as a list, so the AST holds [] instead of None when it did not match and '
                             f'[value] instead of value when it matched once', a.p.classes[c].loc)
            for n in missing:
                rep.fail(c, f'defines:{kind}:{n[:-5]}', f'{short}.{prop} (implemented by {impl.qualname if impl else "?"}) does not contain the '
                         f'names bound in the operand `{n[:-5]}`: such a name is missing from the AST, instead of being '
                         f'{"None" if kind == "single" else "[]"}, whenever that operand did not match', a.p.classes[c].loc)
    return rep


def _derived_operands(a, c) -> set[str]:
    """operand fields that __post_init__ builds from other operand fields of self (their names are the other operands' names)."""
    out = set()
    for q in a.ct.mro(c):
        k = a.p.classes.get(q)
        pi = k.methods.get('__post_init__') if k else None
        if pi is None:
            continue
        for n in walk_no_defs(pi.node):
            if isinstance(n, ast.Assign):
                for t in n.targets:
                    if isinstance(t, ast.Attribute) and norm(t.value) == 'self' and any(
                            isinstance(x, ast.Attribute) and norm(x.value) == 'self' and x.attr == 'exp' for x in ast.walk(n.value)):
                        if t.attr != 'exp':
                            out.add(t.attr)
    return out


# what each construct keeps of its inner frame (ParseStateStack: undo keeps nothing, pop keeps the position, merge keeps position,
# CST and names - decided by R5), per exit.  kind -> (ops allowed on a normal exit, must some normal exit merge?,
#                                                     ops allowed on a FailedParse exit, ops allowed on a success signalled by exception)
_KEEP = {
    'lookahead': ({'undo'}, False, {'undo'}, set()),
    'optional': ({'merge', 'undo'}, True, {'undo'}, set()),
    'choice': ({'merge', 'undo'}, True, {'undo'}, set()),
    'option': ({'undo'}, False, {'undo'}, {'merge'}),
    'skipgroup': ({'pop'}, False, {'undo'}, set()),
    'scope': ({'merge', 'pop'}, True, {'undo'}, set()),
    'rule': ({'undo'}, False, {'undo'}, set()),
}
_KIND_OF_PRIMITIVE = {'if_': 'lookahead', 'optional': 'optional', 'option': 'option', 'skipgroup': 'skipgroup', 'statescope': 'scope',
                      'rule_call': 'rule'}
_KIND_OF_CLASS = {'Lookahead': 'lookahead', 'NegativeLookahead': 'lookahead', 'Optional': 'optional', 'Choice': 'choice',
                  'SkipGroup': 'skipgroup', 'Group': 'scope'}


def r7_what_a_frame_keeps(a, tier):
    from .c05 import constant_parameters, frame_signature
    rep = RuleReport(
        'C01.R7',
        'what a construct keeps of its inner frame, per exit (frame signatures by path-state execution; undo keeps nothing, pop '
        'keeps the position, merge keeps position, CST and names - R5): a lookahead discards its frame with undo on EVERY exit '
        '(non-consuming); optional, choice and scopes merge on success and undo on failure; an option merges before it signals '
        'success; a skip group keeps the position only; a rule frame is always undone (its value and end position travel in the '
        'RuleResult). Applies to the primitives of the parse context and to every model class _parse that handles frames itself',
        floor=6,
    )
    checked = 0
    for f in pushing_functions(a):
        kind = None
        if f.cls is not None and f.name == '_parse':
            kind = _KIND_OF_CLASS.get(f.cls.qualname.split('.')[-1])
        elif f.name in _KIND_OF_PRIMITIVE and f.cls is not None and f.cls.qualname.startswith('tatsu.contexts.'):
            kind = _KIND_OF_PRIMITIVE[f.name]
        if kind is None:
            rep.add({'pusher': f.qualname, 'kind': None, 'note': 'not a documented construct (classified by C05.R3)'})
            continue
        try:
            fixed = constant_parameters(a, f)
            sig = frame_signature(a, f, fixed)
        except Exception as e:  # noqa: BLE001
            raise AnalysisError(f'C01.R7: no frame signature for {f.qualname}: {e}') from e
        ok_ret, need_merge, ok_fail, ok_signal = _KEEP[kind]
        rets, fails, signals = [], [], []
        for k, fam, ops, depth in sig:
            o = {x.split(':', 1)[1] for x in ops}
            if not o:
                continue  # no frame closed on this exit (memo hit; or the frame is left to the caller: R1 balance)
            if k == 'return' or k == 'next':
                rets.append(o)
            elif fam == 'failedparse':
                fails.append(o)
            elif fam == 'parseexception':
                signals.append(o)
        checked += 1
        rep.add({'pusher': f.qualname, 'kind': kind, 'parameters_constant_at_every_call': fixed, 'normal_exits': sorted(map(sorted, rets)), 'failedparse_exits': sorted(map(sorted, fails)),
                 'other_parse_exception_exits': sorted(map(sorted, signals))})
        for o in rets:
            if not o <= ok_ret:
                rep.fail(f.qualname, f'keeps:return:{"+".join(sorted(o))}', f'{f.qualname} ({kind}) closes its frame with {sorted(o)} on a normal exit; a '
                         f'{kind} may only use {sorted(ok_ret)} there', f.loc)
        if kind == 'choice':
            for o in rets:
                if 'merge' not in o:
                    rep.fail(f.qualname, 'keeps:choice-succeeds-without-option', f'{f.qualname} has a normal exit on which no option was merged '
                             f'(closing operations {sorted(o)}): a choice whose options all failed succeeds', f.loc)
        if need_merge and not any('merge' in o for o in rets):
            rep.fail(f.qualname, 'keeps:never-merges', f'{f.qualname} ({kind}) never merges its frame on a normal exit: what the body matched is lost', f.loc)
        for o in fails:
            if not o <= ok_fail:
                rep.fail(f.qualname, f'keeps:failure:{"+".join(sorted(o))}', f'{f.qualname} ({kind}) closes its frame with {sorted(o)} when the body '
                         f'fails; only {sorted(ok_fail)} leaves the enclosing frame as it was', f.loc)
        for o in signals:
            allowed = ok_signal | ok_fail
            if not o <= allowed:
                rep.fail(f.qualname, f'keeps:signal:{"+".join(sorted(o))}', f'{f.qualname} ({kind}) closes its frame with {sorted(o)} on a '
                         f'ParseException exit; allowed {sorted(allowed)}', f.loc)
        if kind == 'option' and not any('merge' in o for o in signals):
            rep.fail(f.qualname, 'keeps:never-merges', f'{f.qualname} never merges its frame before signalling success', f.loc)
    if checked < 6:
        rep.fail('tatsu.contexts', 'constructs-missing', f'only {checked} documented frame constructs were found among the frame-pushing functions', None)
    return rep


class _Always(dict):
    def __init__(self, v):
        super().__init__()
        self.v = v

    def get(self, k, d=None):
        return self.v


def r8_leaf_protocol(a, tier):
    from ..modelinterp import Hook, ModelInterp, Recorder, Stub
    rep = RuleReport(
        'C01.R8',
        'leaf primitives of the parse context (every method of ParseContext without an expression parameter that consults the '
        'cursor and raises through the failure factory: token, pattern, @name/@int/@uint/@float/@bool, any-char, end-of-text and '
        'end-of-line checks), interpreted on a stand-in context with a scripted cursor: when the cursor answers with a value the '
        'primitive does not raise, and if it returns a value it returns the cursor\'s answer (token: the token) and appends exactly '
        'that value once to the state; when the cursor answers None/False it raises through newexcept and appends nothing',
        floor=8,
    )
    ctx = a.p.cls(CTX)
    prims = []
    for name, m in ctx.methods.items():
        if any(d.split('.')[-1] in ('contextmanager', 'property', 'deprecated') for d in m.decorators) or name.startswith('__'):
            continue
        params = [x.arg for x in m.node.args.args][1:]
        annos = [ast.unparse(x.annotation) if x.annotation is not None else '' for x in m.node.args.args][1:]
        if any('Func' in an for an in annos):
            continue
        calls_cursor = any(isinstance(n, ast.Call) and isinstance(n.func, ast.Attribute) and (
            norm(n.func.value) in ('self.cursor', 'self.state.cursor') or norm(n.func) == 'self._next') and n.func.attr != 'next_token'
            for n in walk_no_defs(m.node))
        raises_factory = any(isinstance(n, ast.Raise) and n.exc is not None and 'newexcept' in ast.unparse(n.exc) for n in walk_no_defs(m.node))
        if calls_cursor and raises_factory:
            prims.append((name, m, params))
    ANSWER = 7  # not a string: a primitive that converts the answer is noticed
    for name, m, params in sorted(prims):
        for answer in (ANSWER, None):
            state = Recorder('state')
            cursor = Recorder('cursor')
            cursor.results = _Always(answer)
            state.attrs['cursor'] = cursor
            me = Stub(CTX, state=state, cursor=cursor, tracer=Recorder('tracer'), next_token=Hook(lambda *x, **k: None))
            it = ModelInterp(a, {'regexpp': Hook(lambda x: x)})
            raised = None
            ret = None
            try:
                ret = it.call_bound(Bound_(me, m), ['OPERAND'] * len(params), {})
            except Raised as r:
                raised = r.cls_name
            except Unsupported as e:
                raise AnalysisError(f'C01.R8: cannot interpret ParseContext.{name}: {e}') from e
            appended = [t[1][0] for t in state.trace if t[0] in ('append', 'extend') and t[1]]
            rep.add({'primitive': name, 'cursor_answers': answer, 'raises': raised, 'returns': repr(ret), 'appends': [repr(x) for x in appended]})
            if answer is None:
                if raised is None or 'newexcept' not in raised:
                    rep.fail(m.qualname, f'leaf:{name}:no-failure', f'ParseContext.{name} does not raise through newexcept when the cursor finds no match '
                             f'(raises {raised}, returns {ret!r}): the element succeeds on text that does not match', m.loc)
                if appended:
                    rep.fail(m.qualname, f'leaf:{name}:append-on-failure', f'ParseContext.{name} appends {appended} although nothing matched', m.loc)
                continue
            if raised is not None:
                rep.fail(m.qualname, f'leaf:{name}:fails-on-match', f'ParseContext.{name} raises {raised} although the cursor matched', m.loc)
                continue
            allowed = {ANSWER, 'OPERAND'} if name in ('token', '_token') else {ANSWER}
            if ret is None or ret == ():
                if appended:
                    rep.fail(m.qualname, f'leaf:{name}:append-without-value', f'ParseContext.{name} returns no value but appends {appended}', m.loc)
            else:
                if ret not in allowed:
                    rep.fail(m.qualname, f'leaf:{name}:returns-other', f'ParseContext.{name} returns {ret!r}, not what the cursor matched', m.loc)
                if len(appended) != 1 or appended[0] is not ret and appended[0] != ret or type(appended[0]) is not type(ret):
                    rep.fail(m.qualname, f'leaf:{name}:append', f'ParseContext.{name} returns {ret!r} but appends {appended} to the state: the value '
                             f'of the element in the AST is not the matched value (exactly once)', m.loc)
    return rep


def r7b_negative_lookahead(a, tier):
    from .c05 import ScopeSem
    rep = RuleReport(
        'C01.R7b',
        'negative lookahead, per outcome of its body (path-state execution of ifnot_ with the body as a hole, and of any model '
        '_parse that implements it itself): the body matched -> a FailedParse is raised; the body failed with a ParseException -> '
        'normal exit; a foreign exception of the body is never swallowed; the frame is closed with undo on every exit',
        floor=1,
    )
    cands = [f for f in a.p.functions.values() if (f.name == 'ifnot_' and f.cls is not None and f.cls.qualname == CTX)
             or (f.name == '_parse' and f.cls is not None and f.cls.qualname.endswith('.NegativeLookahead') and f in pushing_functions(a))]
    for fn in cands:
        sem = ScopeSem(a, fn)
        ex = Executor(a.p, a.ct, a.resolver, sem, raises=a.raises)
        is_cm = any(d.split('.')[-1] == 'contextmanager' for d in fn.decorators)
        if not is_cm:
            continue  # a model method that pushes itself is compared through its frame signature (R7)

        def hole(state):
            d, fl = state
            return {Out('next', (d, frozenset(fl | {'body:matched'}))), Out('raise', (d, frozenset(fl | {'body:failed'})), Exc(PE, 'body@with')),
                    Out('raise', (d, frozenset(fl | {'body:foreign'})), Exc('builtins.ZeroDivisionError', 'body@with'))}
        outs = ex.run(fn, (0, frozenset()), hole=hole)
        table = {}
        for o in outs:
            _d, fl = o.state
            body = next((x for x in fl if x.startswith('body:')), 'body:not-run')
            fam = classify_exc(a, o.exc) if o.exc else '-'
            table.setdefault(body, set()).add((o.kind, fam))
        rep.add({'fn': fn.qualname, 'outcomes': {k: sorted(v) for k, v in sorted(table.items())}})
        m = table.get('body:matched', set())
        # (the construction of the failure may itself be summarised as able to raise something wider: any raise is 'not a success')
        if not m or any(k != 'raise' for k, fam in m) or not any(fam == 'failedparse' for k, fam in m):
            rep.fail(fn.qualname, 'neglook:match-accepted', f'{fn.qualname}: when the body matches the outcomes are {sorted(m)}; required: a FailedParse '
                     f'is raised (otherwise !e succeeds where e matches)', fn.loc)
        f_ = table.get('body:failed', set())
        if not f_ or any(k == 'raise' for k, _fam in f_):
            rep.fail(fn.qualname, 'neglook:failure-propagates', f'{fn.qualname}: when the body fails the outcomes are {sorted(f_)}; required: normal exit', fn.loc)
        g = table.get('body:foreign', set())
        if not g or any(k != 'raise' or fam != 'foreign' for k, fam in g):
            rep.fail(fn.qualname, 'neglook:foreign-swallowed', f'{fn.qualname}: a foreign exception of the body ends as {sorted(g)}; required: it propagates '
                     f'unchanged', fn.loc)
    if not rep.instances:
        rep.fail(CTX, 'neglook:missing', 'ParseContext.ifnot_ not found', None)
    return rep


from .c01_contracts import r9_engine_contracts, r10_model_values  # noqa: E402
from .c01_optimizer import r11_optimizer  # noqa: E402
from .c01_textmodel import r12_text_to_model  # noqa: E402

def r13_calls_keep_their_rule(a, tier):
    from .c01_optimizer import calls_keep_their_rule
    return calls_keep_their_rule(a, 'C01.R13')


def r14_separator_commits(a, tier):
    """s%{e} and s.{e} are both e {s ~ e}: the separator commits, whether or not it is kept in the AST"""
    from . import c05
    rep = c05.r4_join_commit(a, tier)
    rep.rule = 'C01.R14'
    for f in rep.findings:
        f.rule = 'C01.R14'
    rep.text = '[= C05.R4] ' + rep.text
    return rep


def r15_rule_and_grammar_optimized(a, tier):
    from .c01_optimizer import rule_and_grammar_optimized
    return rule_and_grammar_optimized(a, 'C01.R15')


def r16_whitespace_placement(a, tier):
    """whitespace is skipped before tokens and lower-case rules, never before patterns or at the entry of upper-case rules: the placement table, the guard of next_token(ri) and the derivation of is_tokn from the rule name in both back-ends (= C09.R1)"""
    from . import c09
    rep = c09.r1_placement(a, tier)
    rep.rule = 'C01.R16'
    for f in rep.findings:
        f.rule = 'C01.R16'
    rep.text = '[= C09.R1] ' + rep.text
    return rep


RULES = [r_chain, r1_frames, r1b_semantic_failures, r1c_control_containment, r2_cst, r3_ordered_choice, r4_progress, r5_state_stack,
         r6_defines_cover_operands, r7_what_a_frame_keeps, r7b_negative_lookahead,
         r8_leaf_protocol, r9_engine_contracts, r10_model_values, r11_optimizer, r12_text_to_model, r13_calls_keep_their_rule, r14_separator_commits, r15_rule_and_grammar_optimized, r16_whitespace_placement]
