"""C08 - bad input and bad grammars are reported as TatSu errors at valid positions (structural clauses)."""
from __future__ import annotations

import ast
import re

from ..loader import const_eval, AnalysisError, dotted, norm, walk_no_defs
from ..minieval import MiniEval, Obj, Unsupported
from ..paths import FP, PE, Executor, Out, Semantics
from ..report import RuleReport
from ..rules.common import attr_chain, run_flags
from . import c01

LEVEL = 'other'
TECHNIQUE = ('static: one-factory who-may-raise rule with a reviewed inventory of foreign raises on the parse/compile path, '
             'exhaustive finite-domain interpretation of the character-level scanners and their consumers (protocol: -1 or a '
             'strictly later offset, no exception, value = conversion of the consumed text), guard-before-index rule on the line caches of all cursor classes, '
             'check-before-use ordering in Grammar.initialize, loop-progress rules')
LEVEL_TEXT = ('Decides from the source: every FailedParse raised by the engine is built by the one factory that binds cursor and '
              'rule stack; every explicit raise of a non-TatSu exception in the engine/compile modules is in a reviewed table '
              '(API misuse only); each scanner returns -1 or a strictly later offset and each consumer converts exactly the text it consumed, '
              'without raising, for every string over a small alphabet (exhaustive up to length 3, thorough 4); every index into a line cache is dominated by an emptiness guard in all '
              'cursor classes; unknown rules are reported before any analysis dereferences rule names; repetition and skip-to '
              'loops make progress. Implicit exceptions in general, and agreement of line/column with the position, are not decided.')
TECHNIQUE += "; operand coverage of the undefined-rule analysis over every model class (every operand field is read), termination of the whitespace/comment eat loops under empty matches (interpreted with a scanner that answers empty matches), converter-guard rule (int/float/eval/re.compile of matched or grammar text sits under handlers covering the converter's exception set and raising a TatSu error), definite assignment on the error-rendering path"
LEVEL_TEXT += ' Added clauses: rules referenced from any operand (incl. join separators) are seen by the undefined-rule check; an empty match ends the skip loop; converters of matched or grammar text cannot leak ValueError/OverflowError/SyntaxError/re.error/UnicodeDecodeError; rendering a failure reads no possibly-unbound local.'
TECHNIQUE += '; line index (= C12.R3); include-cycle contract of Grammar.initialize on stand-in grammars; guard rule for parse-time converters (int of matched text, literal_eval of constants); totality of regexpp (= C02.R11)'
LEVEL_TEXT += " Added clauses: line/column/source line agree with the position (C12.R3); an include cycle is a GrammarError; digit runs beyond Python's limit and constants with unhashable keys fail the match; every valid pattern can be written into messages and generated code."
TECHNIQUE += '; termination of every eat entry (_eat_regex_list); fixpoint iteration of constant() under evaluators that never converge (= C17.R7)'
LEVEL_TEXT += ' Added clauses: comment-eating loops end on empty matches; deep evaluation of a constant ends.'
TECHNIQUE += '; totality of the message properties over None and text'
LEVEL_TEXT += ' Added clause: every failure message renders for what raise sites hand over (None included).'
LEVEL_TEXT += " Added clauses (rounds 9-11): constant indexes into possibly empty values on the compile/parse path are guarded; memento renders for every text x line x column of its domain and points at the position given; pattern text is validated where it is produced; re.compile's ValueError is covered."
TECHNIQUE += '; Model.expectingstr total over the number of expected elements'
TECHNIQUE += '; constant index into a possibly empty value on the compile / parse path is guarded (C08.R17, who-may rule with a positive self-check)'
TECHNIQUE += '; memento interpreted over texts x lines x columns: total, shows the given line, column and marker (R18)'
LEVEL_NOTE = 'Trusted: the exception hierarchy of tatsu/exceptions.py; int()/float() raise ValueError on an empty string.'
EXPLANATION = ('Static analysis of /repo sources, TatSu not imported. Raise sites are enumerated and classified through the static '
               'class table; scanner/consumer pairs of tatsu/input/cursor.py are analysed with the path engine and the '
               'mini-evaluator; Grammar.initialize is executed abstractly with flags.')
ASSUMPTIONS = [LEVEL_NOTE]

ENGINE_MODULES = ('tatsu.contexts', 'tatsu.peg.base', 'tatsu.peg.syntax', 'tatsu.peg.choice', 'tatsu.peg.closure', 'tatsu.peg.named',
                  'tatsu.peg.basic', 'tatsu.peg.pattern', 'tatsu.peg.meta', 'tatsu.peg.rulelike', 'tatsu.peg.semantics',
                  'tatsu.input', 'tatsu.parsing', 'tatsu.api.api', 'tatsu.boot.boot', 'tatsu.config', 'tatsu.util.configs',
                  'tatsu.util.boundeddict', 'tatsu.util.safeeval', 'tatsu.util.regextools')

# reviewed: explicit raises of non-TatSu classes on the compile/parse path  (function, class) -> why it is not an input error
REVIEWED_FOREIGN = {
    ('tatsu.contexts.core.ParserCore.find_rule', 'NotImplementedError'): 'abstract hook',
    ('tatsu.contexts.ctxlib.exp.ExpContext.func', 'RuntimeError'): 'generated-code protocol misuse (.exp not set)',
    ('tatsu.contexts.ctxlib.exp.ExpContext.exp', 'RuntimeError'): 'generated-code protocol misuse (.exp set twice)',
    ('tatsu.contexts.ctxlib.expsep.ExpWithSepContext.sep_func', 'RuntimeError'): 'generated-code protocol misuse',
    ('tatsu.contexts.ctxlib.expsep.ExpWithSepContext.sep', 'RuntimeError'): 'generated-code protocol misuse',
    ('tatsu.contexts.ctxlib.loopsep.LoopWithSepContext.sep_func', 'RuntimeError'): 'generated-code protocol misuse',
    ('tatsu.contexts.ctxlib.loopsep.LoopWithSepContext.sep', 'RuntimeError'): 'generated-code protocol misuse',
    ('tatsu.contexts.state.ParseState.__call__', 'TypeError'): 'API misuse of the state callable',
    ('tatsu.peg.base.Model.grammar', 'RuntimeError'): 'model used before Grammar.initialize linked it',
    ('tatsu.peg.base.Model.grammar', 'TypeError'): 'model linked to a non-grammar',
    ('tatsu.peg.base.Grammar.new_parse_config', 'TypeError'): 'semantics given as a class (API misuse)',
    ('tatsu.peg.named.Named.__post_init__', 'TypeError'): 'programmatic model construction without a name',
    ('tatsu.peg.pattern.Pattern.__post_init__', 'ValueError'): 'programmatic model construction with an invalid regex (the grammar path validates first, GrammarSemantics.pattern)',
    ('tatsu.api.api.compile', 'TypeError'): 'semantics given as a class (API misuse)',
    ('tatsu.boot.boot.TatSuParserGenerator.__init__', 'TypeError'): 'semantics given as a class (API misuse)',
    ('tatsu.config.ParserConfig.__post_init__', 'TypeError'): 'semantics given as a class (API misuse)',
    ('tatsu.util.configs.Config.override_config', 'TypeError'): 'config object of another class (API misuse)',
    ('tatsu.util.configs.Config.merge_config', 'TypeError'): 'config object of another class (API misuse)',
    ('tatsu.util.configs.Config._check_unknowns', 'ValueError'): 'unknown setting name (API misuse)',
    ('tatsu.util.boundeddict.BoundedDict.__init__', 'ValueError'): 'non-positive capacity (guarded by max(1.0, perlinememos))',
    ('tatsu.util.safeeval._check_safe_eval_cached', 'SecurityError'): 'sandbox rejection, caught by is_eval_safe / converted by constant()',
    ('tatsu.util.safeeval.safe_eval', 'SecurityError'): 'sandbox rejection, converted by constant()',
    ('tatsu.util.safeeval.scan_for_exceptions', 'SecurityError'): 'sandbox rejection',
    ('tatsu.util.safeeval.check_eval_context', 'SecurityError'): 'sandbox rejection',
    ('tatsu.util.regextools.regexpp', 'ValueError'): 'invalid regex given to the printer (patterns are validated when the model is built)',
    ('tatsu.util.regextools.regexpp', 'RuntimeError'): 'self-check of the emitted literal',
    ('tatsu.contexts.ast.AST.__setattr__', 'AttributeError'): 'AST objects are frozen (API misuse by semantic actions)',
    ('tatsu.input.buffer.Buffer.get_include', 'ValueError'): 'file-system error of an #include, not a property of the text',
}


def _via_factory(a, f, exc, depth=0) -> bool:
    """the raised value is built by newexcept()/expectedexcept(), directly or through a project function all of
    whose returns are such calls (a wrapper that adds tracing, say)"""
    if not isinstance(exc, ast.Call) or depth > 3:
        return False
    if dotted(exc.func).split('.')[-1] in ('newexcept', 'expectedexcept'):
        return True
    r = a.resolver.resolve_call(f, exc)
    if r.kind != 'project' or not r.targets:
        return False
    for t in r.targets:
        rets = [x.value for x in walk_no_defs(t.node) if isinstance(x, ast.Return)]
        if not rets or not all(v is not None and _via_factory(a, t, v, depth + 1) for v in rets):
            return False
    return True


def r1_one_factory(a, tier):
    rep = RuleReport(
        'C08.R1',
        'every raise of a FailedParse-family class in the engine (tatsu/contexts, Model classes, tatsu/parsing.py) goes through '
        'newexcept(), which binds the cursor (a position inside the text) and the rule stack; every explicit raise of a class '
        'outside the TatSu hierarchy in the engine/compile modules is in the reviewed table of API-misuse errors',
        floor=30,
    )
    ex = Executor(a.p, a.ct, a.resolver, Semantics())
    tatsu_exc = 'tatsu.exceptions.TatSuException'
    for f in a.p.functions.values():
        if not f.module.name.startswith(ENGINE_MODULES):
            continue
        for n in walk_no_defs(f.node):
            if not isinstance(n, ast.Raise) or n.exc is None:
                continue
            if isinstance(n.exc, ast.Attribute) or (isinstance(n.exc, ast.Name) and (
                    a.resolver._is_local_var(f, n.exc.id) or n.exc.id in f.params
                    or any(isinstance(h, ast.ExceptHandler) and h.name == n.exc.id for h in ast.walk(f.node))
                    or any(isinstance(m_, ast.MatchAs) and m_.name == n.exc.id for m_ in ast.walk(f.node)))):
                continue  # re-raise of a caught / stored exception object, not an originating raise
            tok = ex.raise_token(f, n.exc, None, {})
            cls = tok.bound
            mro = a.ct.mro(cls)
            short = cls.split('.')[-1]
            via_factory = _via_factory(a, f, n.exc)
            rep.add({'function': f.qualname, 'raises': short, 'via_factory': via_factory})
            if via_factory:
                continue
            if FP in mro and not via_factory:
                rep.fail(f.qualname, f'direct-failedparse:{short}', f'`{norm(n)[:80]}` constructs a {short} directly instead of through '
                         f'newexcept(): its position/rule stack are whatever the caller passes', f'{f.module.relpath}:{n.lineno}')
            elif tatsu_exc not in mro:
                reviewed = {q for (q, s_) in REVIEWED_FOREIGN if s_ == short}
                # a private helper reached only from reviewed functions raises on their behalf
                if not a.callgraph.only_reached_through(f.qualname, reviewed):
                    rep.fail(f.qualname, f'foreign-raise:{short}', f'`{norm(n)[:80]}` raises {short}, which is not a TatSu exception, on '
                             f'the compile/parse path and is not in the reviewed table of API-misuse errors', f'{f.module.relpath}:{n.lineno}')
    # the factory binds the cursor and the call stack
    ne = a.p.func('tatsu.contexts.core.ParserCore.newexcept')
    rets = [r.value for r in walk_no_defs(ne.node) if isinstance(r, ast.Return) and r.value is not None]
    ok = len(rets) == 1 and isinstance(rets[0], ast.Call) and [norm(x) for x in rets[0].args[:2]] == ['self.cursor', 'self.callstack']
    rep.add({'newexcept_binds_cursor_and_callstack': ok})
    if not ok:
        rep.fail(ne.qualname, 'factory-args', 'newexcept does not build the exception from (self.cursor, self.callstack, msg)', ne.loc)
    return rep


PAIRS = [
    # consumer, producer, via
    ('matchname', 'match_name', 'direct'),
    ('matchbool', 'match_bool', 'direct'),
    ('matchint', 'match_int', 'matchstr'),
    ('matchuint', 'match_uint', 'matchstr'),
    ('matchsigned', 'match_int', 'matchstr'),
    ('matchfloat', 'match_float', 'matchstr'),
]


class ProgressSem(Semantics):
    """flags: 'adv' once the scan position variable has been advanced."""

    def __init__(self, posvars: set[str]):
        self.posvars = posvars

    def stmt(self, ex, fn, node, state):
        if isinstance(node, ast.AugAssign) and isinstance(node.target, ast.Name) and node.target.id in self.posvars \
                and isinstance(node.op, ast.Add):
            return frozenset(state | {'adv'})
        if isinstance(node, ast.Assign) and isinstance(node.targets[0], ast.Name) and node.targets[0].id in self.posvars:
            v = node.value
            if not (isinstance(v, ast.Name) and v.id in ('pos',)):
                return frozenset(state | {'adv'})
        return state

    def test(self, ex, fn, test, state):
        # the scan position only grows: advanced <=> p > pos (the start offset parameter)
        if isinstance(test, ast.Compare) and len(test.ops) == 1 and isinstance(test.left, ast.Name) \
                and isinstance(test.comparators[0], ast.Name):
            l, r, op = test.left.id, test.comparators[0].id, test.ops[0]
            if l in self.posvars and r == 'pos':
                adv = 'adv' in state
                if isinstance(op, ast.Eq) or isinstance(op, ast.LtE):
                    return ([], [state]) if adv else ([state], [])
                if isinstance(op, (ast.NotEq, ast.Gt)):
                    return ([state], []) if adv else ([], [state])
        # (p := f(...)) <= 0  /  > 0 : the walrus binds a new end offset
        for n in ast.walk(test):
            if isinstance(n, ast.NamedExpr) and isinstance(n.target, ast.Name) and n.target.id in self.posvars:
                st = frozenset(state | {'adv'})
                return [st], [st]
        return [state], [state]


def _strings(alphabet, n):
    import itertools
    for k in range(0, n + 1):
        for t in itertools.product(alphabet, repeat=k):
            yield ''.join(t)


def r2_sentinels(a, tier):
    import math
    rep = RuleReport(
        'C08.R2',
        'the meta-expression scanners and their consumers in tatsu/input/cursor.py, interpreted for EVERY string over '
        '{1, _, -, ., e, a, superscript-2} up to length 3 (thorough: 4, plus {+, E, Arabic-Indic 3}) and the words true/True/false/False/t/x, at every position '
        'from 0 to len(s): a scanner match_X(s, pos) raises nothing and returns -1 or an end offset with pos < end <= len(s); a '
        'consumer matchX(cursor) raises nothing (no ValueError from int()/float() of the matched text, no IndexError), returns '
        'None leaving the position unchanged, or the value of the matched text with the position moved to its end',
        floor=1500,
    )
    mod = a.p.module('tatsu.input.cursor')
    fns = {n: f for n, f in mod.functions.items()}
    for need in {x for c, pr, _ in PAIRS for x in (c, pr)} | {'matchstr'}:
        if need not in fns:
            raise AnalysisError(f'anchor vanished: tatsu.input.cursor.{need}')
    # '\u00b2' (superscript two) is a digit for str.isdigit() but not for int(); '\u0663' (Arabic-Indic three) is a decimal digit for both
    alpha = '1_-.ea\u00b2' + ('+E\u0663' if tier == 'thorough' else '')
    nmax = 4 if tier == 'thorough' else 3
    numeric = list(_strings(alpha, nmax))
    words = [''.join(t) for k in (1, 2) for t in __import__('itertools').product(['true', 'True', 'false', 'False', 't', 'x', ' '], repeat=k)]
    names = list(_strings('a1_-', 3))
    domain = {'match_int': numeric, 'match_uint': numeric, 'match_float': numeric, 'match_bool': words, 'match_name': names}

    from ..minieval import module_constants
    consts = module_constants(mod)

    def ev():
        e = MiniEval(dict(consts))
        for n, f in fns.items():
            e.globals[n] = ('<func>', f.node, {})
        return e

    n_bad = 0
    # ---- scanners
    for producer in sorted({pr for _, pr, _ in PAIRS}):
        pf = fns[producer]
        extra = [set('-')] if producer == 'match_name' else []
        for s_ in domain[producer]:
            for pos in range(0, len(s_) + 1):  # a cursor position: 0 <= pos <= len
                try:
                    r = ev().call_function(pf.node, [s_, pos, *extra])
                    exc = None
                except Unsupported as e:
                    raise AnalysisError(f'cannot interpret {pf.qualname}: {e}') from e
                except Exception as e:  # noqa: BLE001 - an exception of the interpreted scanner (IndexError ...)
                    r, exc = None, type(e).__name__
                ok = exc is None and isinstance(r, int) and (r == -1 or (pos < r <= len(s_) and pos >= 0))
                rep.add({'scanner': producer, 'text': s_, 'pos': pos, 'result': r if exc is None else f'raises {exc}', 'ok': ok})
                if not ok and n_bad < 12:
                    n_bad += 1
                    rep.fail(pf.qualname, f'scan:{s_!r}:{pos}', f'{producer}({s_!r}, {pos}) ' + (f'raises {exc}' if exc else f'returns {r}') +
                             f'; the protocol is -1 for no match or an end offset with {pos} < end <= {len(s_)}', pf.loc)
    # ---- consumers
    convert = {'matchint': int, 'matchuint': int, 'matchsigned': int, 'matchfloat': float, 'matchbool': lambda t: t.lower() == 'true',
               'matchname': str}
    for consumer, producer, _via in PAIRS:
        cf = fns[consumer]
        for s_ in domain[producer]:
            for pos in range(0, len(s_) + 1):
                cur = Obj(textstr=s_, pos=pos, namechars=set('-'))

                def methods(recv, name, args, kwargs, cur=cur, s_=s_):
                    if recv is cur and name == 'goto':
                        cur.pos = max(0, min(len(s_), args[0]))
                        return None
                    if recv is cur and name == 'move':
                        cur.pos = max(0, min(len(s_), cur.pos + args[0]))
                        return None
                    return NotImplemented
                e_ = ev()
                e_.methods = methods
                try:
                    r = e_.call_function(cf.node, [cur])
                    exc = None
                except Unsupported as e:
                    raise AnalysisError(f'cannot interpret {cf.qualname}: {e}') from e
                except Exception as e:  # noqa: BLE001
                    r, exc = None, f'{type(e).__name__}: {e}'
                if exc is not None:
                    ok = False
                elif r is None:
                    ok = cur.pos == pos
                else:
                    try:
                        want = convert[consumer](s_[pos:cur.pos])
                        ok = cur.pos > pos and (r == want or (isinstance(r, float) and isinstance(want, float) and math.isnan(r) and math.isnan(want)))
                    except Exception:  # noqa: BLE001
                        ok = False
                rep.add({'consumer': consumer, 'text': s_, 'pos': pos, 'result': repr(r) if exc is None else f'raises {exc}', 'newpos': cur.pos, 'ok': ok})
                if not ok and n_bad < 12:
                    n_bad += 1
                    rep.fail(cf.qualname, f'consume:{s_!r}:{pos}', f'{consumer} on the text {s_!r} at {pos} ' + (
                        f'raises {exc}' if exc else f'returns {r!r} and leaves the position at {cur.pos}') +
                        ': a consumer returns None without moving, or the value of the text it consumed; it never lets the conversion '
                        'of a scanned text fail', cf.loc)
    return rep


def _is_const_int(e: ast.expr) -> bool:
    try:
        return isinstance(ast.literal_eval(e), int)
    except Exception:  # noqa: BLE001
        return False


class _WalrusEval(MiniEval):
    def __init__(self, walrus: ast.NamedExpr, value):
        super().__init__({})
        self.walrus = walrus
        self.value = value

    def expr(self, e, env):
        if e is self.walrus:
            env[e.target.id] = self.value
            return self.value
        return super().expr(e, env)


def _returns_with_state(a, fn, posvars) -> dict:
    """Map each Return statement of FN to the set of flag states with which it can be reached."""
    out: dict = {}

    class Sem(ProgressSem):
        def stmt(self, ex, f, node, state):
            return super().stmt(ex, f, node, state)

    sem = Sem(posvars)
    exq = Executor(a.p, a.ct, a.resolver, sem, raises=a.raises)
    orig_stmt = exq.stmt

    def spy(ctx, s, state, pend):
        if isinstance(s, ast.Return) and ctx.fn is fn:
            out.setdefault(s, set()).add(state)
        return orig_stmt(ctx, s, state, pend)

    exq.stmt = spy  # type: ignore
    exq.run(fn, frozenset())
    return out


CACHE_ATTRS = {'line_cache', 'linecache'}


def r3_cache_guards(a, tier):
    from .c12 import edge_positions
    rep = RuleReport(
        'C08.R3',
        'failure positions at the edges are answered: lineinfo / lineat (posline) / poscol of TextLinesCursor, BufferCursor and '
        'Buffer, interpreted at offset len(text) for every text over {a, LF} up to length 2 - including the EMPTY text, whose line '
        'cache is [] - return without an exception (an "unexpected end of input" failure is rendered through them)',
        floor=40,
    )
    for row in edge_positions(a):
        rep.add(row)
        if not row['ok']:
            rep.fail(row['fn'], f'edge:{row["text"]!r}:{row["offset"]}', f'{row["impl"]}.{row["query"]}({row["offset"]}) on the text '
                     f'{row["text"]!r} {row["result"]}: rendering a failure at the end of that text raises instead of showing it '
                     f'(e.g. parseinfo or an error message on an empty text)', a.p.func(row['fn']).loc)
    return rep


def r4_check_before_use(a, tier):
    rep = RuleReport(
        'C08.R4',
        'in Grammar.initialize the unknown-rule check (missing_rules -> GrammarError) is passed on every path before the '
        'analyses that dereference rule names (_calc_lookahead_sets, _mark_left_recursion, which reach rulemap[name])',
        floor=1,
    )
    fn = a.p.func('tatsu.peg.base.Grammar.initialize')

    analyses = ('_calc_lookahead_sets', '_mark_left_recursion', '_calc_first_sets', '_calc_follow_sets')

    class Sem(Semantics):
        """state = flags; the analyses are private helpers of initialize() that the executor runs in place: entering one is seen at its statements"""

        def _mark(self, state):
            return frozenset(state | {'analysis_before_check' if 'checked' not in state else 'analysis_after_check'})

        def stmt(self, ex, f, node, state):
            if getattr(f, '_specialised_from', f).name in analyses:
                return self._mark(state)
            return state

        def call(self, ex, f, node, state):
            nm = dotted(node.func)
            if nm == 'self.missing_rules' and ex.in_extent(f):  # in initialize() itself or in a private helper that exists only for it
                state = frozenset(state | {'checked'})
            elif f is fn and nm in tuple(f'self.{x}' for x in analyses):
                state = self._mark(state)
            return ex.default_call(f, node, state)

        def tracked(self, ex, f, node):
            return dotted(node.func) == 'self.missing_rules'
    outs = Executor(a.p, a.ct, a.resolver, Sem(), raises=a.raises).run(fn, frozenset())
    bad = any('analysis_before_check' in o.state for o in outs)
    raises_ge = any(isinstance(n, ast.Raise) and n.exc is not None and 'GrammarError' in norm(n.exc) for f_ in a.extents.of(fn) for n in walk_no_defs(f_.node))
    saw_analysis = any(('analysis_after_check' in o.state or 'analysis_before_check' in o.state) for o in outs)
    rep.add({'fn': fn.qualname, 'check_dominates_analyses': not bad, 'raises_GrammarError': raises_ge, 'analyses_seen_on_some_path': saw_analysis})
    if not saw_analysis:
        raise AnalysisError('C08.R4: no path through Grammar.initialize reaches the first/follow or left-recursion analyses any more (the rule would pass vacuously)')
    if bad:
        rep.fail(fn.qualname, 'analysis-before-check', 'the first/follow and left-recursion analyses run before the unknown-rule check: '
                 'a grammar that calls an undefined rule (e.g. inside {...}+) makes the analysis raise KeyError instead of GrammarError', fn.loc)
    if not raises_ge:
        rep.fail(fn.qualname, 'no-grammarerror', 'Grammar.initialize no longer raises GrammarError for unknown rules', fn.loc)
    return rep


def r6_scanner_bounds(a, tier):
    from ..rules.bounds import BoundsChecker, module_len_consts, return_bound
    rep = RuleReport(
        'C08.R6',
        'index-in-bounds in the character scanners (tatsu/input/cursor.py, tatsu/util/newlines.py, the cursor classes): every '
        'non-slice, non-constant index into the text is dominated by a bound `index < len(text)` established by a comparison, a '
        'range() bound, str.find() or a reviewed alias (self.len == len(self.textstr)), and not invalidated by a later '
        'assignment - so no text makes a scanner raise IndexError',
        floor=12,
    )
    fns = [f for f in a.p.functions.values() if f.module.name in ('tatsu.input.cursor', 'tatsu.util.newlines')]
    for c in ('tatsu.input.textlines.TextLinesCursor', 'tatsu.input.buffer.BufferCursor', 'tatsu.input.buffer.Buffer'):
        for m in ('current', 'peek', 'at', 'next'):
            f = a.p.functions.get(f'{c}.{m}')
            if f is not None:
                fns.append(f)
    fns = [f for f in fns if f.parent is None]
    # pass 1: helpers that index their own parameters get a precondition instead of a finding
    preconds: dict[str, list] = {}
    for f in fns:
        bc = BoundsChecker(f, module_len_consts(f.module))
        bc.run()
        if bc.param_violations and f.cls is None:
            preconds[f.name] = [(ti, ii, bc.param_kinds.get((ti, ii), 'lt')) for ti, ii, _, _ in bc.param_violations]
    rbounds = {}
    for f in fns:
        if f.cls is None:
            rb = return_bound(f, module_len_consts(f.module))
            if rb is not None:
                rbounds[f.name] = rb
    rep.notes.append(f'helpers whose result is a valid index of their text argument (or a negative sentinel): {rbounds}')
    for f in fns:
        bc = BoundsChecker(f, module_len_consts(f.module), preconds)
        bc.return_bounds = rbounds
        bc.run()
        rep.add({'function': f.qualname, 'text_indexings': bc.checked, 'unbounded': [m for _, m in bc.violations],
                 'precondition_for_callers': [m for *_, m in bc.param_violations]})
        for node, msg in bc.violations:
            rep.fail(f.qualname, f'unbounded-index:{norm(node)}', f'{msg}: for some text this raises IndexError (e.g. when the position '
                     f'is the last character)', f'{f.module.relpath}:{node.lineno}')
        if bc.param_violations and f.cls is not None:
            for _, _, node, msg in bc.param_violations:
                rep.fail(f.qualname, f'unbounded-index:{norm(node)}', msg, f'{f.module.relpath}:{node.lineno}')
    # a helper with a precondition must have at least one checked caller inside the analysed scope
    for name in preconds:
        called = any(isinstance(n, ast.Call) and isinstance(n.func, ast.Name) and n.func.id == name
                     for f in fns for n in ast.walk(f.node))
        if not called:
            hf = next(f for f in fns if f.name == name)
            rep.fail(hf.qualname, 'unchecked-precondition', f'{name}() indexes its text parameter without a bound and no caller in the '
                     f'scanner modules establishes one', hf.loc)
    return rep


def r5_progress(a, tier):
    rep = c01.r4_progress(a, tier)
    rep.rule = 'C08.R5'
    for f in rep.findings:
        f.rule = 'C08.R5'
    return rep


RECURSIONS = ('missing_rules', '_used_rule_names')


def r7_operand_coverage(a, tier):
    rep = RuleReport(
        'C08.R7',
        'the reference checks see every operand: for every grammar-expression class, the implementation of missing_rules() and '
        '_used_rule_names() that the class resolves to (through the MRO) reads every operand field of the class (fields typed Model, '
        'list[Model] or Option lists; a field folded into `exp` by __post_init__ counts as read through exp). An operand declared '
        'below the class that implements the check is invisible to it: an undefined rule used only there is not reported at compile '
        'time and surfaces later as a foreign error or a silently failing element',
        floor=40,
    )
    from ..rules.operands import operand_coverage
    for c, mname, impl, operands, missing, loc in operand_coverage(a, RECURSIONS):
        rep.add({'class': c.split('.')[-1], 'check': mname, 'implemented_in': impl.qualname.rsplit('.', 1)[0].split('.')[-1],
                 'operands': operands, 'not_visited': missing})
        for f in missing:
            rep.fail(c, f'operand:{mname}:{f}', f'{c.split(".")[-1]}.{mname}() is {impl.qualname.rsplit(".", 2)[-2]}.{mname}, which never '
                     f'looks at the operand `{f}`: a rule that is referenced only in the `{f}` of a {c.split(".")[-1]} is not reported as '
                     f'missing when the grammar is compiled (and not counted as used)', loc)
    return rep


def r8_eat_loops_terminate(a, tier):
    from ..modelinterp import Hook, ModelInterp, Stub
    rep = RuleReport(
        'C08.R8',
        'skipping loops terminate for every regex: _eat_regex and _eat_regex_list (whitespace and comments) of TextLinesCursor, BufferCursor and Buffer, interpreted on a stand-in '
        'cursor whose scanner answers with scripted matches, stops when the regex matches the EMPTY string at the current position '
        '(a whitespace or comment regex such as /\\s*/ matches empty everywhere): an empty match is no progress and must end the '
        'loop, otherwise next_token() never returns',
        floor=9,
    )
    impls = ['tatsu.input.textlines.TextLinesCursor', 'tatsu.input.buffer.BufferCursor', 'tatsu.input.buffer.Buffer']

    class M:
        def __init__(self, start, end):
            self.s, self.e = start, end

    class Diverges(Exception):
        pass

    scripts = [('an empty match every time', [0] * 1000), ('two characters, then empty matches', [2] + [0] * 1000), ('one character, then no match', [1, None])]
    for c, entry in [(c, e) for c in impls for e in ('_eat_regex', '_eat_regex_list') if a.ct.lookup(c, e) is not None]:
        fn = a.ct.lookup(c, entry)
        for what, script in scripts:
            calls = [0]
            text = 'x' * 10

            def make(c=c, script=script, calls=calls, text=text):
                if c.endswith('.Buffer'):
                    me = Stub(c, pos=0, text=text, len=len(text))
                else:
                    inp = Stub('tatsu.input.textlines.TextLines', textstr=text, len=len(text), _namechar_set=set()) if 'textlines' in c else \
                        Stub('tatsu.input.buffer.Buffer', text=text, len=len(text), pos=0)
                    me = Stub(c)
                    it0 = ModelInterp(a)
                    it0.apply(it0.get_attr(me, '__init__'), [inp, 0], {})

                def scan(_pattern, me=me):
                    i = calls[0]
                    calls[0] += 1
                    if calls[0] > 60:
                        raise Diverges()
                    k = script[i] if i < len(script) else None
                    if k is None:
                        return None
                    p0 = me._attrs['pos']
                    return M(p0, p0 + k)
                me._attrs['_scanre'] = Hook(scan)
                return me
            me = make()
            it = ModelInterp(a, {'cached_re_compile': Hook(lambda r, *x, **k: r), 'str_from_match': Hook(lambda m, *x: 'x' * (m.e - m.s))})

            def methods(recv, name, args, kwargs):
                if isinstance(recv, M):
                    if name == 'end':
                        return recv.e
                    if name == 'start':
                        return recv.s
                    if name == 'group':
                        return 'x' * (recv.e - recv.s)
                    if name == 'span':
                        return (recv.s, recv.e)
                return NotImplemented
            it.methods = methods

            class _TruthyM(ModelInterp):
                pass
            try:
                it.apply(it.get_attr(me, entry), ['RX'], {})
                ended = True
            except Diverges:
                ended = False
            except Unsupported as e:
                raise AnalysisError(f'cannot interpret {fn.qualname}: {e}') from e
            rep.add({'impl': c.split('.')[-1] + '.' + entry, 'scanner_answers': what, 'terminates': ended, 'scanner_calls': calls[0], 'position': me._attrs.get('pos')})
            if not ended:
                rep.fail(fn.qualname, f'eat-loop:{what}', f'{c.split(".")[-1]}.{entry} keeps looping when the scanner answers with {what} '
                         f'(more than 60 rounds at position {me._attrs.get("pos")}): with @@whitespace :: /\\s*/ or a comments regex that can '
                         f'match the empty string, parsing any text hangs', fn.loc)
    return rep


# functions of the standard library (and their repo wrappers) that turn TEXT into a value, with the exceptions they raise on text
# that is not in their language (trusted base: CPython 3.12 documentation and behaviour)
CONVERTERS = {
    # re.compile: re.error for a malformed pattern, OverflowError for a huge repeat count, ValueError for incompatible inline flags (`(?u)(?a)x`)
    're.compile': ('re.error', 'OverflowError', 'ValueError'), 'cached_re_compile': ('re.error', 'OverflowError', 'ValueError'),
    'eval_escapes': ('UnicodeDecodeError',), 'codecs.decode': ('UnicodeDecodeError',),
    'int': ('ValueError',), 'float': ('ValueError',), 'literal_eval': ('SyntaxError', 'ValueError'),
}
_BUILTIN_EXC_PARENTS = {'UnicodeDecodeError': ('UnicodeError', 'ValueError', 'Exception', 'BaseException'), 'ValueError': ('Exception', 'BaseException'),
                        'OverflowError': ('ArithmeticError', 'Exception', 'BaseException'), 're.error': ('error', 'PatternError', 're.PatternError', 'Exception', 'BaseException'),
                        'SyntaxError': ('Exception', 'BaseException')}


def r9_converters_guarded(a, tier):
    from ..minieval import Obj
    from ..modelinterp import Hook, ModelInterp, Stub
    rep = RuleReport(
        'C08.R9',
        'grammar text that is not in the language of a converter is a grammar error: inside the semantic actions of the grammar '
        'parser (GrammarSemantics) every call that turns matched text into a value - re.compile / cached_re_compile (re.error, '
        'OverflowError for a huge repetition count), eval_escapes (UnicodeDecodeError for \\xZZ or \\N{bogus}), int / float '
        '(ValueError beyond the digit limit), literal_eval of matched text (SyntaxError, ValueError) - sits in a try whose handlers cover those classes and raise a TatSu exception; and '
        'every @@directive whose setting is used as a regex (whitespace, comments, eol_comments) is validated as a pattern before '
        'the grammar object is built, whatever syntactic form its value had',
        floor=6,
    )
    gs = a.p.cls('tatsu.peg.semantics.GrammarSemantics')
    ex = Executor(a.p, a.ct, a.resolver, Semantics())
    for mname, m in gs.methods.items():
        pm = a.resolver.parents(m)
        for n in walk_no_defs(m.node):
            if not isinstance(n, ast.Call):
                continue
            nm = dotted(n.func)
            key = nm if nm in CONVERTERS else nm.split('.')[-1] if nm.split('.')[-1] in ('cached_re_compile', 'eval_escapes') else None
            if key is None or not n.args:
                continue
            if all(isinstance(x, ast.Constant) for x in n.args):
                continue
            if key == 'literal_eval' and isinstance(n.args[0], ast.Call) and dotted(n.args[0].func) == 'repr':
                continue  # literal_eval(repr(x)) of a str/number never fails
            need = CONVERTERS[key]
            covered: set[str] = set()
            converts = True
            cur: ast.AST = n
            while id(cur) in pm:
                par = pm[id(cur)]
                if isinstance(par, ast.Try) and any(cur is s_ or any(x is cur for x in ast.walk(s_)) for s_ in par.body):
                    for h in par.handlers:
                        htype = h.type
                        if isinstance(htype, ast.Name) and htype.id in m.module.assigns and isinstance(m.module.assigns[htype.id], ast.Tuple):
                            htype = m.module.assigns[htype.id]  # `except _PATTERN_ERRORS:` - a module-level tuple of exception classes
                        names = ['BaseException'] if htype is None else [norm(t) for t in (htype.elts if isinstance(htype, ast.Tuple) else [htype])]
                        raises_tatsu = any(isinstance(x, ast.Raise) and x.exc is not None and
                                           any('tatsu.exceptions' in c for c in [ex.raise_token(m, x.exc, None, {}).bound]) for x in ast.walk(h))
                        for e_ in need:
                            if e_ in names or e_.split('.')[-1] in names or any(p_ in names for p_ in _BUILTIN_EXC_PARENTS.get(e_, ())):
                                if raises_tatsu:
                                    covered.add(e_)
                                else:
                                    converts = False
                cur = par
            missing = [e_ for e_ in need if e_ not in covered]
            rep.add({'action': m.qualname, 'converter': norm(n)[:60], 'raises_on_bad_text': list(need), 'converted_to_tatsu_error': not missing})
            for e_ in missing:
                rep.fail(m.qualname, f'unguarded:{key}:{e_}', f'`{norm(n)[:70]}` in the grammar action {mname}() can raise {e_} for text the '
                         f'grammar language accepts at that place, and no enclosing handler turns it into a TatSu error: '
                         f'tatsu.compile() lets a {e_.split(".")[-1]} escape', f'{m.module.relpath}:{n.lineno}')
    # directives used as regexes are validated whatever their syntactic form
    gm = gs.methods.get('grammar')
    if gm is None:
        raise AnalysisError('GrammarSemantics.grammar not found')
    ebnf = (a.p.root / 'tatsu' / '_tatsu.ebnf').read_text(encoding='utf-8')
    m_ = re.search(r'^directive\s*:\s*(.*?)(?:\n\s*\n|\Z)', ebnf, re.S | re.M)
    if not m_:
        raise AnalysisError('tatsu/_tatsu.ebnf: directive production not found')
    alts = re.split(r'\n\s*\|\s*name=', m_.group(1))
    for setting in ('whitespace', 'comments', 'eol_comments'):
        alt = next((x for x in alts if re.search(rf"'{setting}'", x.split('value=')[0])), None)
        if alt is None:
            raise AnalysisError(f'tatsu/_tatsu.ebnf: no directive alternative names {setting!r}')
        value_forms = set(re.findall(r'\b(regex|string|word|boolean)\b', alt.split('value=', 1)[1] if 'value=' in alt else ''))
        rep.add({'directive': setting, 'value_forms_in_the_grammar_language': sorted(value_forms)})
        if value_forms <= {'regex'}:
            continue  # the `regex` action validates it (first part of this rule)
        validated = []
        me = Stub('tatsu.peg.semantics.GrammarSemantics', name='g', rulemap={}, context=None, _validate_pattern=Hook(lambda v: validated.append(v)),
                  _validate_literal=Hook(lambda v: None))
        astv = Obj(directives=[Obj(name=setting, value='(')], keywords=[])
        it = ModelInterp(a, {'flatten': Hook(lambda x: list(x) if x else []), 'literal_eval': Hook(lambda x: x), 'g': Obj(Grammar=None),
                             'getattr': Hook(lambda o, n, *d: d[0] if d else None)})

        def methods(recv, name, args, kwargs):
            if isinstance(recv, Obj) and name == 'Grammar':
                return ('grammar', kwargs.get('directives'))
            return NotImplemented
        it.methods = methods
        try:
            it.call_fn(gm, [me, astv])
        except Unsupported as e:
            raise AnalysisError(f'cannot interpret GrammarSemantics.grammar: {e}') from e
        ok = '(' in validated
        rep.add({'directive': setting, 'string_value_validated_as_pattern_before_Grammar_is_built': ok})
        if not ok:
            rep.fail(gm.qualname, f'directive-unvalidated:{setting}', f'@@{setting} :: "(" (a string value that is not a valid regex) reaches '
                     f'the Grammar constructor without pattern validation: the re.error is raised by the configuration code and escapes '
                     f'from tatsu.compile()', gm.loc)
    return rep


def r10_message_renders(a, tier):
    from ..rules.defassign import possibly_unbound
    rep = RuleReport(
        'C08.R10',
        'a failure message always renders: in every function reachable from the rendering entry points of the exception classes '
        '(__str__, render, message) - memento(), the colour helpers - no local name is read on a path on which it has not been '
        'bound (definite assignment: a loop body may run zero times, e.g. for a text without lines; a try body may stop anywhere)',
        floor=10,
    )
    starts = [q for q in a.p.functions if q.startswith('tatsu.exceptions.') and q.rsplit('.', 1)[1] in ('__str__', 'render', 'message')]
    if not starts:
        raise AnalysisError('tatsu.exceptions: no rendering entry points (__str__/render/message) found')
    reach = a.callgraph.reach(starts)
    for q in sorted(reach):
        f = a.p.functions.get(q)
        if f is None:
            continue
        hits = possibly_unbound(f)
        rep.add({'function': q, 'possibly_unbound_reads': [(n, node.lineno) for node, n in hits]})
        for node, name in hits:
            rep.fail(q, f'unbound:{name}', f'`{name}` is read at {f.module.relpath}:{node.lineno} on a path on which nothing has bound it (e.g. '
                     f'the loop that binds it does not run for an empty text): rendering the failure raises UnboundLocalError instead of '
                     f'showing the message', f'{f.module.relpath}:{node.lineno}')
    return rep


def r12_include_cycles(a, tier):
    import types

    from ..minieval import Raised
    from ..modelinterp import Bound, Hook, ModelInterp, Stub
    from ..rules.leftrec import Q
    rep = RuleReport(
        'C08.R12',
        'rule includes have a finite expansion: every traversal of a grammar follows RuleInclude.exp (the parser, the generator, the '
        'left-recursion analysis, the defined names), so a `>rule` that reaches itself - possible in grammar text through @override - '
        'recurses without bound. Grammar.initialize (which every way of building a grammar runs: it links the includes, then analyses), '
        'interpreted on stand-in grammars with the lookahead and left-recursion analyses stubbed out, raises one of TatSu\'s own '
        'exceptions for every include cycle (self, two and three rules, a cycle closed by a second include) and accepts every acyclic '
        'arrangement (chain, the same rule included twice, diamond), leaving each include linked to the body of its rule',
        floor=6,
    )
    INC, RULE, GRAM = 'tatsu.peg.rulelike.RuleInclude', 'tatsu.peg.base.Rule', 'tatsu.peg.base.Grammar'
    fn = a.ct.lookup(GRAM, 'initialize')
    if fn is None or a.ct.lookup(INC, 'link') is None:
        raise AnalysisError('C08.R12: Grammar.initialize / RuleInclude.link not found')

    def leafy(stub, kids=()):
        stub._attrs['children'] = Hook(lambda *x, **k: tuple(kids))
        stub._attrs['children_list'] = Hook(lambda *x, **k: list(kids))
        return stub

    def build(spec: dict[str, list[str]]):
        """spec: rule name -> names it includes (its body is `>n1 >n2 't'`)"""
        incs, rules = {}, {}
        for name, names in spec.items():
            items = []
            for i, n in enumerate(names):
                incs[name, i] = leafy(Stub(INC, name=n, _exp=None, ast=n))
                items.append(incs[name, i])
            items.append(leafy(Stub(Q['Token'], token='t')))
            body = leafy(Stub(Q['Sequence'], sequence=items), items)
            rules[name] = leafy(Stub(RULE, name=name, exp=body, params=(), kwparams={}), [body])
        gram = leafy(Stub(GRAM, rules=tuple(rules.values())), rules.values())
        gram._attrs['missing_rules'] = Hook(lambda *x, **k: set())
        for h in ('_calc_lookahead_sets', '_mark_left_recursion', '_calc_first_sets', '_calc_follow_sets'):
            gram._attrs[h] = Hook(lambda *x, **k: None)  # the analyses that follow linking are not part of this obligation
        return gram, incs, rules
    cases = [
        ('a includes itself (@override a = >a ...)', {'a': ['a']}, True),
        ('a includes b, b includes a', {'a': ['b'], 'b': ['a']}, True),
        ('a -> b -> c -> a', {'a': ['b'], 'b': ['c'], 'c': ['a']}, True),
        ('a cycle entered from outside: s -> a -> b -> a', {'s': ['a'], 'a': ['b'], 'b': ['a']}, True),
        ('the second include of a rule closes the cycle', {'a': ['c', 'b'], 'b': ['a'], 'c': []}, True),
        ('chain a -> b -> c', {'a': ['b'], 'b': ['c'], 'c': []}, False),
        ('the same rule included twice', {'a': ['c', 'c'], 'c': []}, False),
        ('diamond a -> b, c -> d', {'a': ['b', 'c'], 'b': ['d'], 'c': ['d'], 'd': []}, False),
    ]
    for what, spec, cyclic in cases:
        gram, incs, rules = build(spec)
        it = ModelInterp(a, {'weakref': Hook(None, ref=Hook(lambda x, *y: x)), 'id': Hook(id), 'SimpleNamespace': Hook(types.SimpleNamespace)})
        try:
            it.call_bound(Bound(gram, fn), [], {})
            unlinked = [f'>{spec[r][i]} in {r}' for (r, i), inc in incs.items() if inc._attrs.get('_exp') is not rules[spec[r][i]]._attrs['exp']]
            outcome = 'linked' if not unlinked else f'returns with {unlinked} not linked to the body of the rule'
        except Raised as r:
            short = r.cls_name.split('(')[0].split('.')[-1]
            own = any(q.split('.')[-1] == short and a.ct.is_subclass(q, 'tatsu.exceptions.TatSuException') for q in a.p.classes)
            outcome = f'raises {short}' + ('' if own else ' (not a TatSu exception)')
        except Unsupported as e:
            raise AnalysisError(f'C08.R12: cannot interpret Grammar.initialize ({what}): {e}') from e
        ok = (outcome.startswith('raises') and not outcome.endswith(')')) if cyclic else outcome == 'linked'
        rep.add({'includes': what, 'cyclic': cyclic, 'initialize': outcome, 'ok': ok})
        if not ok:
            rep.fail(fn.qualname, f'include-cycle:{what}', f'{what}: Grammar.initialize {outcome}; required: ' + (
                'a TatSu exception - the cycle is otherwise followed without bound by every traversal of the grammar (RecursionError when '
                'compiling the grammar text)' if cyclic else 'every include linked to the body of its rule, no error (the arrangement is acyclic)'), fn.loc)
    return rep


_PARSE_TIME_CONVERTERS = {
    # converter -> the exception classes it raises for text the matchers / the grammar language let through
    'int': ('ValueError',),  # more digits than sys.get_int_max_str_digits()
    'literal_eval': ('SyntaxError', 'ValueError', 'TypeError'),  # documented for malformed literals; TypeError: unhashable key / set element
}


def r13_input_converters(a, tier):
    rep = RuleReport(
        'C08.R13',
        'text that reaches a converter while PARSING and that Python does not convert is a failed match: in the input layer '
        '(tatsu/input) and the parse engine (tatsu/contexts) every int() of matched text - the matchers accept any number of digits, '
        'int() raises ValueError beyond sys.get_int_max_str_digits() - and every literal_eval() of a constant expression (ValueError, '
        'SyntaxError for malformed text, TypeError for an unhashable key or set element) sits in a try / contextlib.suppress that covers '
        'those classes and leaves by falling through, returning, or raising a TatSu exception (float() has no digit limit and accepts '
        'every string of the float matcher; it is listed, not required)',
        floor=2,
    )
    ex = Executor(a.p, a.ct, a.resolver, Semantics())
    n_req = 0

    def covers(names, e_):
        return e_ in names or any(p_ in names for p_ in _BUILTIN_EXC_PARENTS.get(e_, ('Exception', 'BaseException')))
    for f in a.p.functions.values():
        if not (f.module.name.startswith('tatsu.input.') or f.module.name.startswith('tatsu.contexts.')):
            continue
        pm = a.resolver.parents(f)
        for n in walk_no_defs(f.node):
            if not (isinstance(n, ast.Call) and n.args):
                continue
            key = dotted(n.func).split('.')[-1] if isinstance(n.func, (ast.Name, ast.Attribute)) else ''
            if key not in ('int', 'float', 'literal_eval') or (key != 'literal_eval' and not isinstance(n.func, ast.Name)):
                continue
            arg = n.args[0]
            if isinstance(arg, ast.Constant) or isinstance(arg, (ast.BinOp, ast.Compare, ast.BoolOp)):
                continue  # a number computed from lengths / positions, not text
            if isinstance(arg, ast.Call) and dotted(arg.func) in ('max', 'min', 'len', 'repr', 'round', 'abs'):
                continue
            need = _PARSE_TIME_CONVERTERS.get(key, ())
            covered: set[str] = set()
            why = ''
            cur: ast.AST = n
            while id(cur) in pm:
                par = pm[id(cur)]
                inside_body = isinstance(par, (ast.Try, ast.With)) and any(cur is s_ or any(x is cur for x in ast.walk(s_)) for s_ in par.body)
                if isinstance(par, ast.With) and inside_body:
                    for item in par.items:
                        c = item.context_expr
                        if isinstance(c, ast.Call) and dotted(c.func).split('.')[-1] == 'suppress':
                            names = [norm(x) for x in c.args]
                            covered |= {e_ for e_ in need if covers(names, e_)}
                if isinstance(par, ast.Try) and inside_body:
                    for h in par.handlers:
                        names = ['BaseException'] if h.type is None else [norm(t) for t in (h.type.elts if isinstance(h.type, ast.Tuple) else [h.type])]
                        hit = {e_ for e_ in need if covers(names, e_)} - covered
                        if not hit:
                            continue
                        raises = [x for x in ast.walk(h) if isinstance(x, ast.Raise)]
                        foreign = [x for x in raises if x.exc is None or 'tatsu.exceptions' not in str(ex.raise_token(f, x.exc, None, {}).bound)]
                        if foreign:
                            why = f'; the handler for {sorted(hit)} raises an exception that is not TatSu\'s own'
                        else:
                            covered |= hit
                cur = par
            missing = [e_ for e_ in need if e_ not in covered]
            n_req += bool(need)
            rep.add({'function': f.qualname, 'conversion': norm(n)[:60], 'can_raise': list(need), 'all_covered': not missing})
            for e_ in missing:
                rep.fail(f.qualname, f'unguarded-parse-time:{key}:{e_}', f'`{norm(n)[:60]}` converts text at parse time and no enclosing try / suppress turns its {e_} '
                         f'into a failed match{why}: parse() lets a {e_} escape (int: a run of more digits than Python converts, 4300 by default; '
                         f'literal_eval: a constant such as `{{[1]: 2}}`)', f'{f.module.relpath}:{n.lineno}')
    if n_req < 2:
        raise AnalysisError('C08.R13: the int() of matched text in tatsu/input and the literal_eval() of constants in tatsu/contexts were not both found (anchor moved)')
    return rep


def r14_pattern_literals(a, tier):
    """regexpp runs when a grammar is compiled (Pattern.__str__ in the lookahead sets), when a parser is generated and when a failed
    pattern is reported: it must return for every valid regular expression (totality part of C02.R11)"""
    from . import c02
    rep = c02.regexpp_literals(a, tier, 'C08.R14', totality_only=True)
    rep.text = '[= C02.R11, totality only: regexpp returns, it does not raise] ' + rep.text
    return rep


def r15_constant_terminates(a, tier):
    """`no text makes them hang`: the deep evaluation of constants is a fixpoint iteration over values that may hold input text (= C17.R7)"""
    from . import c17
    rep = c17.constant_terminates(a, tier, 'C08.R15')
    rep.text = '[= C17.R7] ' + rep.text
    return rep


def r16_messages_total(a, tier):
    from ..minieval import Raised
    from ..modelinterp import Bound, ModelInterp, Stub
    rep = RuleReport(
        'C08.R16',
        'the message of a failure is computed from what the raise site handed over, and raise sites hand over None as well as text (the '
        'any-character atom at end of text reports the character it read: None): the `message` property of every exception class in '
        'tatsu/exceptions.py that defines one, interpreted (helpers of the repository included) with its fields holding None, "", a '
        'token and a 200-character text, returns a string - it never raises',
        floor=4,
    )
    n = 0
    for q, ci in sorted(a.p.classes.items()):
        if not q.startswith('tatsu.exceptions.') or 'message' not in ci.methods:
            continue
        m = ci.methods['message']
        fields = sorted({x.attr for x in ast.walk(m.node) if isinstance(x, ast.Attribute) and isinstance(x.value, ast.Name) and x.value.id == 'self'})
        for v in (None, '', 'tok', 'x' * 200):
            me = Stub(q, **dict.fromkeys(fields, v))
            try:
                got = ModelInterp(a).call_bound(Bound(me, m), [], {})
                outcome = 'returns ' + type(got).__name__
                ok = isinstance(got, str) or (got is None and v is None)  # the base class hands its msg field on as it is
            except Raised as r:
                outcome, ok = f'raises {r.cls_name}', False
            except Unsupported as e:
                raise AnalysisError(f'C08.R16: cannot interpret {q}.message: {e}') from e
            except (TypeError, AttributeError, ValueError) as e:  # a builtin of the interpreted code failed on the value
                outcome, ok = f'raises {type(e).__name__}: {e}', False
            n += 1
            rep.add({'class': q.split('.')[-1], 'fields': fields, 'value': repr(v)[:20], 'message': outcome, 'ok': ok})
            if not ok:
                rep.fail(m.qualname, f'message-total:{q.split(".")[-1]}:{v!r:.12}', f'{q.split(".")[-1]}.message with {fields} = {v!r:.30}: {outcome}; a failure that is raised '
                         f'correctly cannot be printed (str(e), e.message and e.render() raise)', m.loc)
    if not n:
        raise AnalysisError('C08.R16: no message property found in tatsu/exceptions.py')
    # the text a failed choice reports (Model.expectingstr), for every size of the list of expected elements - a choice whose options all
    # begin with elements that have no first token (meta expressions, $, constants) expects an EMPTY list
    es = a.ct.lookup('tatsu.peg.base.Model', 'expectingstr')
    if es is not None:
        for exp in ([], ['x'], ['x', 'y'], ["it's", '"q"', 'z']):
            me = Stub('tatsu.peg.choice.Choice' if 'tatsu.peg.choice.Choice' in a.p.classes else 'tatsu.peg.base.Model', expecting=list(exp), lookaheadlist=list(exp))
            try:
                got = ModelInterp(a).call_bound(Bound(me, es), [], {})
                outcome, ok = 'returns ' + type(got).__name__, isinstance(got, str)
            except Raised as r:
                outcome, ok = f'raises {r.cls_name}', False
            except Unsupported as e:
                raise AnalysisError(f'C08.R16: cannot interpret Model.expectingstr: {e}') from e
            except (TypeError, AttributeError, ValueError, IndexError) as e:
                outcome, ok = f'raises {type(e).__name__}: {e}', False
            rep.add({'text': 'Model.expectingstr', 'expected_elements': exp, 'outcome': outcome, 'ok': ok})
            if not ok:
                rep.fail(es.qualname, f'expectingstr:{len(exp)}', f'Model.expectingstr with {len(exp)} expected element(s) {exp}: {outcome}; the failure of a choice is built from '
                         f'this text, so parse() raises that exception instead of a FailedParse', es.loc)
    return rep


def r11_line_index(a, tier):
    """the position a failure carries is turned into line, column and source line by the line index: the clause "whose line, column and
    source line agree with it" is the line-index rule of C12"""
    from . import c12
    rep = c12.r3_line_index_exhaustive(a, tier)
    rep.rule = 'C08.R11'
    for f in rep.findings:
        f.rule = 'C08.R11'
    rep.text = '[= C12.R3] ' + rep.text
    return rep


_CAN_BE_EMPTY = {'strip', 'lstrip', 'rstrip', 'removeprefix', 'removesuffix', 'replace', 'join', 'splitlines', 'expandtabs', 'lower', 'upper', 'casefold', 'translate'}
_R17_SCOPE = ('tatsu.peg', 'tatsu.contexts', 'tatsu.input', 'tatsu.boot.boot', 'tatsu.api', 'tatsu.util', 'tatsu.exceptions', 'tatsu.config', 'tatsu.parsing')


def _const_index_sites(tree: ast.AST):
    """(subscript node, why its base can be too short for the constant index)"""
    for n in ast.walk(tree):
        if not isinstance(n, ast.Subscript) or isinstance(n.slice, ast.Slice):
            continue
        idx = n.slice
        if isinstance(idx, ast.UnaryOp) and isinstance(idx.op, ast.USub) and isinstance(idx.operand, ast.Constant) and isinstance(idx.operand.value, int):
            k = -idx.operand.value
        elif isinstance(idx, ast.Constant) and isinstance(idx.value, int) and not isinstance(idx.value, bool):
            k = idx.value
        else:
            continue
        b = n.value
        if isinstance(b, ast.Subscript) and isinstance(b.slice, ast.Slice):
            yield n, k, 'a slice, which is empty when its bounds lie outside the sequence'
        elif isinstance(b, ast.Call) and isinstance(b.func, ast.Attribute):
            m = b.func.attr
            if m in _CAN_BE_EMPTY and (m != 'join' or True):
                yield n, k, f'the result of .{m}(), which is empty for some operands'
            elif m in ('split', 'rsplit'):
                if not b.args and not b.keywords:
                    yield n, k, f'the result of .{m}() without separator, which is [] for a blank string'
                elif k not in (0, -1):
                    yield n, k, f'the result of .{m}(sep), which has a single element when the separator does not occur'


def r17_constant_index(a, tier):
    from ..rules.common import dominating_conditions
    rep = RuleReport(
        'C08.R17',
        'no text or grammar makes the compile / parse path index an empty value: in the modules that path runs through (tatsu/peg, contexts, '
        'input, api, util, boot/boot.py, exceptions, config) a subscript by a CONSTANT index whose operand is the result of an operation that '
        'can come back empty or shorter - strip / lstrip / rstrip / removeprefix / replace / join ..., a slice, split() without separator, or '
        'split(sep)[k] with k not in {0, -1} - lies under a test that mentions the operand\'s variable (an enclosing `if` / early exit / `and` / '
        'conditional expression). `name.lstrip("_")[0]` on a rule named `_` is an IndexError out of tatsu.compile(); `[:1]` is the total form',
        floor=1,
    )
    n_sites = 0
    for mod in a.p.modules.values():
        if not mod.name.startswith(_R17_SCOPE):
            continue
        for f in [f for f in a.p.functions.values() if f.module is mod and f.parent is None]:
            pm = None
            for n, k, why in _const_index_sites(f.node):
                if pm is None:
                    pm = a.resolver.parents(f)
                n_sites += 1
                roots = {x.id for x in ast.walk(n.value) if isinstance(x, ast.Name)} | {norm(x) for x in ast.walk(n.value) if isinstance(x, ast.Attribute)}
                conds = list(dominating_conditions(f, pm, n))
                cur = n
                while id(cur) in pm and not isinstance(pm[id(cur)], ast.stmt):
                    par = pm[id(cur)]
                    if isinstance(par, ast.BoolOp) and isinstance(par.op, ast.And):
                        conds += [v for v in par.values[:[id(v) for v in par.values].index(id(cur))]] if any(v is cur for v in par.values) else []
                    if isinstance(par, ast.IfExp) and par.body is cur:
                        conds.append(par.test)
                    cur = par
                guarded = any(({x.id for x in ast.walk(c) if isinstance(x, ast.Name)} | {norm(x) for x in ast.walk(c) if isinstance(x, ast.Attribute)}) & roots for c in conds)
                rep.add({'function': f.qualname, 'indexing': norm(n)[:80], 'operand': why, 'guards': [norm(c)[:60] for c in conds][:4], 'guarded': guarded})
                if not guarded:
                    rep.fail(f.qualname, f'constant-index:{norm(n)[:60]}', f'`{norm(n)[:80]}` indexes {why}, under no test of that operand: for some grammar or text this is an '
                             f'IndexError, which is not one of TatSu\'s exception types', f'{mod.relpath}:{n.lineno}')
    probe = ast.parse("def f(name):\n    return name.lstrip('_')[0].isupper(), name[1:][0], name.split()[0], name.split(',')[1], name.split(',')[0]\n")
    hits = [k for _, k, _ in _const_index_sites(probe)]
    rep.add({'detector_self_check': len(hits)})
    if len(hits) != 4:
        raise AnalysisError('C08.R17: the detector no longer recognises its positive examples')
    return rep


def r18_memento_total(a, tier):
    """the rendering of a failure (memento) is total and shows the line and column it was given"""
    import itertools

    from ..minieval import Raised
    from ..modelinterp import Hook, ModelInterp
    rep = RuleReport(
        'C08.R18',
        'the message of a parse failure always renders, and shows the position it carries: tatsu.contexts.memento.memento, interpreted with '
        'styles that leave text as it is, for every text in {"", "a", "ab\\ncd", "a\\n", "\\n\\nx", "a\\tb\\r\\nc", a seven-line text} x line 0..7 x column 0, 1, 5 '
        'x source present / absent x empty / non-empty rule stack: returns a string (raises nothing), the string holds the message and '
        '[line+1:col+1], the source line of that index when the text has one, and a marker row whose caret stands col columns to the '
        'right of where the source lines start',
        floor=100,
    )
    fn = a.p.func('tatsu.contexts.memento.memento')

    class S(str, Hook):
        """a style and a styled text at once: calling it styles a text (= the text), its modifiers return it, it formats as its text"""

        def __new__(cls, text='', **kw):
            o = str.__new__(cls, text)
            o.fn = o._style
            o.attrs = {}
            return o

        def __init__(self, *x, **k):
            pass

        def _style(self, text='', *x, **k):
            return S(str(text))

        __call__ = _style

        def __getattr__(self, name):
            if name.startswith('__'):
                raise AttributeError(name)
            return lambda *x, **k: self

    class CS:
        def __getattr__(self, name):
            if name.startswith('__'):
                raise AttributeError(name)
            return S()

    class SIO:
        def __init__(self):
            self.parts = []

        def write(self, s_):
            self.parts.append(s_)

        def getvalue(self):
            return ''.join(self.parts)

    def _print(*args, file=None, end='\n', sep=' '):
        file.write(sep.join(str(x) for x in args) + end)

    def slicetowidth(s_, n):
        return str(s_)[:n]
    texts = ['', 'a', 'ab\ncd', 'a\n', '\n\nx', 'a\tb\r\nc', '\n'.join(f'line{i}' for i in range(7))]
    n_bad = 0
    for text, line, col, source, stack in itertools.product(texts, range(0, 8), (0, 1, 5), ('demo.txt', None), ([], ['start', 'expr'])):
        if tier != 'thorough' and (line + col + len(text)) % 2 and line > 2:
            continue
        info = Obj(line=line, col=col, source=source, filename=source, start=0, end=0, text='')
        cs = Hook(lambda *x, **k: CS())
        it = ModelInterp(a, {'_ColorSet': cs, 'Style': Hook(lambda *x, **k: S()), 'StringIO': Hook(SIO), 'print': Hook(_print), 'slicetowidth': Hook(slicetowidth),
                             'MEMENTO_DEFAULT_COLOR': None})
        it.methods = lambda recv, name, args, kwargs: ((recv._style(*args, **kwargs) if isinstance(recv, S) and name == '__call__' else getattr(recv, name)(*args, **kwargs)) if isinstance(recv, (S, SIO, CS)) else NotImplemented)
        try:
            out = it.call_fn(fn, ['unexpected thing', text, info, stack], {})
            raised = None
        except Unsupported as e:
            raise AnalysisError(f'C08.R18: cannot interpret memento: {e}') from e
        except Raised as e:
            out, raised = None, e.cls_name
        problems = []
        if raised or not isinstance(out, str):
            problems.append(f'raises {raised}' if raised else f'returns {type(out).__name__}')
        else:
            rows = out.split('\n')
            if 'unexpected thing' not in out:
                problems.append('the message is missing')
            if f'[{line + 1}:{col + 1}]' not in out:
                problems.append(f'the position [{line + 1}:{col + 1}] is missing')
            src = text.splitlines()
            if line < len(src):
                want = src[line].expandtabs()
                hits = [r for r in rows if r.endswith(want) and str(line + 1) in r.split('│')[0]] if '│' in out else [r for r in rows if r.endswith(want)]
                if not hits:
                    problems.append(f'source line {line + 1} ({want!r}) is not shown')
                caret = next((r for r in rows if '⌃' in r), None)
                if caret is None:
                    problems.append('no marker row')
                elif hits and '│' in caret and '│' in hits[0]:
                    c0 = hits[0].index('│') + 2
                    if caret.index('⌃') - (caret.index('│') + 2) != col or caret.index('│') != hits[0].index('│'):
                        problems.append(f'the caret stands at column {caret.index("⌃") - c0}, the failure is at column {col}')
            if stack and not all(any(nm in r for r in rows) for nm in stack):
                problems.append('the rule stack is missing')
        rep.add({'text': text, 'line': line, 'col': col, 'source': source, 'stack': stack, 'problems': problems})
        if problems and n_bad < 6:
            n_bad += 1
            rep.fail(fn.qualname, f'memento:{text!r}:{line}:{col}:{bool(source)}:{bool(stack)}', f'memento(msg, {text!r}, line={line}, col={col}, source={source!r}, stack={stack}): ' +
                     '; '.join(problems) + ' - the message of a failure at that position does not render, or points somewhere else', fn.loc)
    return rep


def r19_pattern_text_validated(a, tier):
    rep = RuleReport(
        'C08.R19',
        'a regular expression written in a grammar is validated where its text is produced: the model constructor (Pattern.__post_init__) answers an '
        'invalid expression with ValueError, which is not a TatSu error, so the grammar actions that hand on pattern text and are live (a rule of that '
        'name exists in _tatsu.ebnf: regex, deprecated_regex) pass _validate_pattern, which raises FailedSemantics, on every path to a normal exit, '
        'directly or through another such action [paths]',
        floor=2,
    )
    gs = a.p.cls('tatsu.peg.semantics.GrammarSemantics')
    vp = gs.methods.get('_validate_pattern')
    if vp is None:
        raise AnalysisError('C08.R19: GrammarSemantics._validate_pattern not found')
    raises_fs = any(isinstance(n, ast.Raise) and n.exc is not None and 'FailedSemantics' in norm(n.exc) for n in walk_no_defs(vp.node))
    compiles = any(isinstance(n, ast.Call) and dotted(n.func) in ('re.compile', 'cached_re_compile') for n in walk_no_defs(vp.node))
    rep.add({'validator': vp.qualname, 'compiles_the_text': compiles, 'raises_FailedSemantics': raises_fs})
    if not (raises_fs and compiles):
        rep.fail(vp.qualname, 'validator', '_validate_pattern no longer compiles the text and raises FailedSemantics for an invalid expression', vp.loc)
    validating = {'_validate_pattern'}
    # an action runs only for a rule of that name: the rules of the grammar file decide which of the pattern-producing actions are live
    ebnf_rules = set(re.findall(r'^([A-Za-z_][A-Za-z_0-9]*)(?:\[[^\]]*\])?\s*:', (a.p.root / 'tatsu' / '_tatsu.ebnf').read_text(encoding='utf-8'), re.M))
    for name in ('regex', 'regexes', 'deprecated_regex'):
        m = gs.methods.get(name)
        if m is None:
            continue
        if name not in ebnf_rules:
            rep.add({'action': m.qualname, 'live': False, 'note': f'no rule `{name}` in _tatsu.ebnf: the action is never called'})
            continue

        def flagger(ex, f, call, state, m=m):
            nm = dotted(call.func).split('.')[-1]
            if nm in validating:
                return ('validated',)
            return ()
        outs = run_flags(a, m, flagger)
        bad = [o for o in outs if o.kind in ('return', 'next') and 'validated' not in o.state]
        rep.add({'action': m.qualname, 'normal_exits': len([o for o in outs if o.kind in ('return', 'next')]), 'exits_without_validation': len(bad)})
        if bad:
            rep.fail(m.qualname, f'pattern-not-validated:{name}', f'the grammar action {name}() has a normal exit that has not passed _validate_pattern: an invalid regular expression '
                     f'reaches Pattern.__post_init__, and tatsu.compile() raises ValueError instead of a grammar error', m.loc)
        else:
            validating.add(name)  # an action that always validates validates for the actions that delegate to it
    return rep


RULES = [r1_one_factory, r2_sentinels, r3_cache_guards, r4_check_before_use, r5_progress, r6_scanner_bounds, r7_operand_coverage,
         r8_eat_loops_terminate, r9_converters_guarded, r10_message_renders, r11_line_index, r12_include_cycles, r13_input_converters, r14_pattern_literals, r15_constant_terminates, r16_messages_total, r17_constant_index, r18_memento_total, r19_pattern_text_validated]
