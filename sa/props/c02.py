"""C02 - generated Python parsers behave identically to the grammar model (structural clauses)."""
from __future__ import annotations

import ast
import re

from ..classes import dataclass_fields
from ..loader import AnalysisError, dotted, norm, walk_no_defs
from ..loader import ANCHORED as _ANCHORED
from ..minieval import Unsupported
from ..modelinterp import Bound, ClassRef, FuncRef, Hook, ModelInterp, Recorder, Stub
from ..report import Finding, RuleReport
from ..rules.leftrec import B, Q

LEVEL = 'other'
TECHNIQUE = ('static translation validation of the GENERATOR: dispatch simulation over the class table (handler exhaustiveness), '
             'primitive correspondence between Model._parse traces and the code each walk_* method emits (both interpreted on '
             'stand-in nodes) through the context-manager wrappers, rule-flag/parameter transfer, context-free-emission rule (no branch on generator state mutated during the walk), leaf operands read back from the emitted call, taint of model strings to the '
             'emitter through enumerated sanitizers whose escape tables must cover the printer\'s hazard characters')
LEVEL_TEXT = ('Decides from the source, for every node class at once: the parser generator has a handler for every node class a '
              'grammar can contain and every class has its own _parse; for each node class the runtime primitive the model '
              'calls and the primitive the generated code calls (after unfolding the with-block wrappers of ParseContext) are '
              'the same primitive with the same flags and constant arguments; rule decorators and parameters emitted equal what '
              'the model puts into RuleInfo; every model string reaches the emitted source only through repr/regexpp/safe_name, '
              'regexpp escapes every character the printer would alter (line-boundary characters, TAB), Optional settings are '
              'emitted as None. Equality of results for concrete grammar x input pairs is not decided.')
TECHNIQUE += '; operand correspondence (operand fields read from <Class>._parse vs operand stand-ins the interpreted generator handler hands to walk())'
LEVEL_TEXT += ' Added clauses: literal operands and the generated configuration are read back from the emitted text; for every node class the generator walks the same operand fields the model parses (a based rule: base expression followed by its own).'
TECHNIQUE += '; named-value agreement (naming context managers clear last_node before their block, every emitted wrapper is a frame or delegates to a primitive, leaf value = last_node, values returned from discarded frames)'
LEVEL_TEXT += ' Added clause: a name binds the value of its own expression in generated code (not a stale last node, not the last element of a group); the residual `x:&e` difference is a known finding.'
TECHNIQUE += '; frames of the generated-only context managers (= C05.R3)'
TECHNIQUE += '; exhaustive interpretation of regexpp over the quoting alphabet (every valid regex over {backslash, \', ", a} <= 5/6 and with LF <= 4/5): returns, and the literal parses to the same regex tree'
LEVEL_TEXT += " Added clause: a pattern literal never fails to be written and means the model's pattern (two verbose-mode inputs are known findings)."
TECHNIQUE += '; declaration of defined names: the argument pairs of the model (_add_defined) and of the emitted ctx.define(...) through the real AST._define give the same defaults'
LEVEL_TEXT += ' Added clause: a list name that receives nothing is [] on both back-ends.'
TECHNIQUE += '; run-time names of generated rules are distinct (safe_name, RuleInfo.new and the @rule decorator interpreted)'
TECHNIQUE += '; per-call state of a reused parser object: every exit of bound() restores the attributes whose per-call value is derived from their own previous value (C02.R13 = C10.R11, path-state execution)'
TECHNIQUE += "; names declared per option of a choice in both back-ends (R9 A5); a freshly defaulted configuration is never the overriding side over the rule source's directives (R14, who-may / data-flow rule over override_config sites)"
LEVEL_TEXT += ' Added clause: two rules never share a run-time name in generated code.'
LEVEL_TEXT += " Added clauses (rounds 9-11): per-call configuration of a reused generated parser object ends with the call on every exit; names are declared per option of a choice as in the model; the model hands leaf primitives the operand text itself; a freshly defaulted configuration overriding the rule source's directives is a recorded known finding."
LEVEL_NOTE = ('Trusted: repr() escapes every non-printable character; str.splitlines() breaks at \\n \\r \\v \\f \\x1c \\x1d \\x1e \\x85 '
              '\\u2028 \\u2029; str.expandtabs() rewrites TAB.')
EXPLANATION = ('Static analysis of /repo sources, TatSu not imported. walk_* methods of PythonParserGenerator and _parse methods '
               'of the model classes are interpreted by the whitelisted evaluator on checker-built stand-in nodes (print/walk/'
               'indent of the generator and the parse context are recorders).')
ASSUMPTIONS = [LEVEL_NOTE]

GEN = 'tatsu.ngcodegen.ngparser_gen.PythonParserGenerator'
CTX = 'tatsu.contexts.context.ParseContext'
MODEL = 'tatsu.peg.base.Model'
ABSTRACT = {'Model', 'Leaf', 'Box', 'NamedBox', 'Synth', 'Patterns', 'Meta'}
LINE_BOUNDARIES = ['\n', '\r', '\x0b', '\x0c', '\x1c', '\x1d', '\x1e', '\x85', ' ', ' ']


def _camel_to_snake(name: str) -> str:
    s = re.sub(r'(.)([A-Z][a-z]+)', r'\1_\2', name)
    return re.sub(r'([a-z0-9])([A-Z])', r'\1_\2', s).lower()


def _find_walker(a, walker_cls: str, node_cls: str):
    it = ModelInterp(a, {'pythonize_name': Hook(_camel_to_snake)})
    fn = a.p.func('tatsu.walkers.NodeWalker._find_walker')
    me = Stub(walker_cls, _walker_cache={})
    node = Stub(node_cls)
    r = it.call_bound(Bound(me, fn), [node], {})
    return r


def r1_exhaustive(a, tier):
    rep = RuleReport(
        'C02.R1',
        'handler exhaustiveness: NodeWalker._find_walker, interpreted on the static class table, resolves every concrete '
        'grammar-model class in PythonParserGenerator to a walk_* method other than walk_default (which raises); every such '
        'class also resolves _parse to something other than Model._parse (which matches nothing and returns ())',
        floor=40,
    )
    gen_default = a.p.func(f'{GEN}.walk_default')
    raises = any(isinstance(n, ast.Raise) for n in walk_no_defs(gen_default.node))
    rep.notes.append(f'PythonParserGenerator.walk_default raises: {raises}')
    no_parse_ok = {'Comment', 'EOLComment', 'Option', 'Grammar', 'RuleInclude'} | ABSTRACT
    for c in sorted(a.ct.subclasses(MODEL)):
        short = c.split('.')[-1]
        try:
            w = _find_walker(a, GEN, c)
        except Unsupported as e:
            raise AnalysisError(f'cannot interpret _find_walker for {short}: {e}') from e
        wname = w.fn.name if isinstance(w, (FuncRef, Bound)) else str(w)
        p = a.ct.lookup(c, '_parse')
        powner = p.cls.qualname.split('.')[-1] if p and p.cls else None
        rep.add({'class': short, 'generator_handler': wname, '_parse_defined_by': powner})
        if short in ABSTRACT:
            continue
        if wname == 'walk_default' or w is None:
            rep.fail(c, 'no-generator-handler', f'PythonParserGenerator has no walk_* handler for {short} (dispatch falls through to '
                     f'walk_default, which raises): a grammar containing this node cannot be compiled to Python', a.p.classes[c].loc)
        if powner == 'Model' and short not in no_parse_ok:
            rep.fail(c, 'no-parse', f'{short} inherits Model._parse, which matches nothing and returns (): the model silently accepts '
                     f'where the generated parser does something else', a.p.classes[c].loc)
    return rep


class _NullCM:
    pass


def _emit(a, node: Stub, method: str | None = None):
    out: list[str] = []
    it = ModelInterp(a, {'regexpp': Hook(lambda x: f'<regexpp:{x!r}>')})
    gen = Stub(GEN, ctx='ctx', ctx_stack=['ctx'], loopn='cl', blockn=0, parser_name='',
               print=Hook(lambda *args, **kw: out.append(' '.join(str(x) for x in args))),
               indent=Hook(lambda *args, **kw: _NullCM()),
               walk=Hook(lambda n, *args, **kw: out.append(f'<walk {n._cls.split(".")[-1] if isinstance(n, Stub) else type(n).__name__}>')),
               pfold=Hook(lambda *args, **kw: None),
               new_choice_number=Hook(lambda: 0), prev_choice_number=Hook(lambda: None), reset_counters=Hook(lambda: None),
               fitsfmt=Hook(lambda *args, **kw: True))
    name = method or ('walk_' + node._cls.split('.')[-1])
    w = _find_walker(a, GEN, node._cls) if method is None else None
    if w is not None and isinstance(w, FuncRef):
        it.call_bound(Bound(gen, w.fn), [node], {})
    else:
        it.apply(it.get_attr(gen, name), [node], {})
    return out


def _la(n: Stub) -> Stub:
    n._attrs['lookaheadlist'] = [('t',)]
    return n


def _wrapper_table(a):
    """generated-code primitive (ParseContext method used as `with ctx.X() as v`) -> (core primitive, constant kwargs)."""
    table = {}
    ctx_cls = a.p.cls(CTX)
    for name, m in ctx_cls.methods.items():
        if not any(d.split('.')[-1] == 'contextmanager' for d in m.decorators):
            continue
        after_yield = False
        core = None
        _ANCHORED.add(m.qualname)
        for s in m.node.body:
            for n in walk_no_defs(s):
                if isinstance(n, (ast.Yield, ast.YieldFrom)):
                    after_yield = True
            if after_yield and isinstance(s, ast.Expr) and isinstance(s.value, ast.Call) and isinstance(s.value.func, ast.Attribute) \
                    and norm(s.value.func.value) == 'self':
                call = s.value
                kws = {k.arg: ast.literal_eval(k.value) for k in call.keywords if k.arg and _is_lit(k.value)}
                argtext = ' '.join(norm(x) for x in [*call.args, *[k.value for k in call.keywords]])
                needs = [d for d, att in (('exp', '.func'), ('sep', '.sep_func')) if att in argtext]
                kws['__registers__'] = needs
                core = (call.func.attr, kws)
        if core:
            table[name] = core
    return table


def _is_lit(e):
    try:
        ast.literal_eval(e)
        return True
    except Exception:  # noqa: BLE001
        return False


def _resolve_core(a, name: str, kwargs: dict, depth=0):
    """Follow plain delegating methods of ParseContext: gather -> closure(sep=, omitsep=True) ..."""
    m = a.ct.lookup(CTX, name)
    if m is None or depth > 4:
        return name, kwargs
    _ANCHORED.add(m.qualname)
    body = [s for s in m.node.body if not (isinstance(s, ast.Expr) and isinstance(s.value, ast.Constant))]
    if len(body) == 1 and isinstance(body[0], ast.Return) and isinstance(body[0].value, ast.Call):
        call = body[0].value
        if isinstance(call.func, ast.Attribute) and norm(call.func.value) == 'self' and call.func.attr != name:
            kws = dict(kwargs)
            for k in call.keywords:
                if k.arg and _is_lit(k.value):
                    kws[k.arg] = ast.literal_eval(k.value)
                elif k.arg:
                    kws[k.arg] = '<arg>'
            return _resolve_core(a, call.func.attr, kws, depth + 1)
    # left_join / right_join: self.cst = left_assoc(self.positive_join(exp, sep))
    for n in walk_no_defs(m.node):
        if isinstance(n, ast.Call) and dotted(n.func) in ('left_assoc', 'right_assoc') and n.args and isinstance(n.args[0], ast.Call):
            inner = n.args[0]
            if isinstance(inner.func, ast.Attribute) and norm(inner.func.value) == 'self':
                core, kws = _resolve_core(a, inner.func.attr, dict(kwargs), depth + 1)
                return core, {**kws, 'assoc': dotted(n.func)}
    return name, kwargs


def _model_primitive(a, node: Stub):
    """(primitive name, constant args, kwargs) of the first ctx call N._parse makes."""
    it = ModelInterp(a)
    ctx = Recorder('ctx')
    it.apply(it.get_attr(node, '_parse'), [ctx], {})
    calls = [t for t in ctx.trace if not t[0].startswith('set')]
    if not calls:
        return None
    name, args, kwargs = calls[0]
    consts = tuple(x for x in args if isinstance(x, (str, int, float, bool, type(None))))
    kws = {k: (v if isinstance(v, (str, int, float, bool, type(None))) else '<arg>') for k, v in kwargs.items()}
    return name, consts, kws


def _generated_primitive(a, node: Stub, wrappers):
    lines = _emit(a, node)
    text = '\n'.join(lines)
    m = re.search(r'ctx\.(\w+)\((.*?)\)(?: as \w+)?:?$', lines[0]) if lines else None
    if not m:
        return None, lines
    name, argtext = m.group(1), m.group(2)
    consts: tuple = ()
    if argtext.strip():
        try:
            v = ast.literal_eval(f'({argtext},)')
            consts = tuple(v)
        except Exception:  # noqa: BLE001
            consts = (argtext,)
    kws: dict = {}
    if name in wrappers:
        core, wk = wrappers[name]
        name, kws = core, dict(wk)
        needs = kws.pop('__registers__', [])
        var = re.search(r' as (\w+):', lines[0])
        for d in needs:
            if not var or f'@{var.group(1)}.{d}' not in text:
                kws[f'unregistered_{d}'] = True
    return (name, consts, kws), lines


def r2_primitives(a, tier):
    rep = RuleReport(
        'C02.R2',
        'primitive correspondence: for every node class that maps to one runtime primitive, the primitive (with constant '
        'arguments and flags) reached from Model._parse equals the primitive named by the code walk_<Node> emits, after '
        'unfolding the with-block wrappers of ParseContext (loopopt -> closure(omitsep=False), gatherplus -> '
        'positive_closure(sep, omitsep=True), joinleft -> left_assoc(positive_closure(...)) ...) and its delegating methods',
        floor=25,
    )
    b = B(a)
    wrappers = _wrapper_table(a)
    rep.notes.append(f'with-block wrappers: { {k: v for k, v in sorted(wrappers.items())} }')
    T = lambda: _la(b.tok())  # noqa: E731
    PEG = 'tatsu.peg'
    nodes = [
        b.leaf('Token', token='tok'), Stub(Q['Pattern'], pattern='pat'), b.leaf('Constant', literal='lit'),
        Stub(Q['Alert'], literal='msg', level=2), b.leaf('Dot'), b.leaf('Fail'), b.leaf('Void'), b.leaf('Cut'), b.leaf('EOF'),
        Stub(f'{PEG}.basic.EOL'), b.leaf('EmptyClosure'),
        Stub(f'{PEG}.meta.NameMeta'), Stub(f'{PEG}.meta.IntMeta'), Stub(f'{PEG}.meta.UIntMeta'), Stub(f'{PEG}.meta.FloatMeta'),
        Stub(f'{PEG}.meta.BoolMeta'),
        b.box('Closure', T()), b.box('PositiveClosure', T()),
        b.join('Join', T(), T()), b.join('PositiveJoin', T(), T()), b.join('Gather', T(), T()), b.join('PositiveGather', T(), T()),
        Stub(f'{PEG}.deprecated.LeftJoin', exp=T(), sep=T()), Stub(f'{PEG}.deprecated.RightJoin', exp=T(), sep=T()),
        b.box('SkipTo', T()), b.box('Lookahead', T()), b.box('NegativeLookahead', T()), b.box('SkipGroup', T()),
    ]
    for node in nodes:
        short = node._cls.split('.')[-1]
        try:
            gp, lines = _generated_primitive(a, node, wrappers)
        except Unsupported as e:
            raise AnalysisError(f'cannot interpret {short}: {e}') from e
        try:
            mp = _model_primitive(a, node)
        except Unsupported as e:
            # the model's _parse does not call ONE primitive of the context (e.g. it pushes and discards the lookahead frame
            # itself): it corresponds to the generated primitive when it treats the state stack the same way on every exit
            from .c05 import frame_signature
            mfn = a.ct.lookup(node._cls, '_parse')
            pfn = a.ct.lookup(CTX, gp[0]) if gp else None
            try:
                msig = frame_signature(a, mfn) if mfn is not None else None
                psig = frame_signature(a, pfn) if pfn is not None else None
            except Exception:  # noqa: BLE001
                msig = psig = None
            proj = lambda sg: {(k, fam, ops, d) for (k, fam, ops, d) in sg if fam in ('-', 'failedparse')}  # noqa: E731
            if msig and psig and any(ops for _k, _f, ops, _d in msig) and proj(msig) <= proj(psig):
                rep.add({'node': short, 'model': f'inline frame handling {sorted(proj(msig))}', 'generated': gp[0], 'same': True,
                         'via': 'frame signature of the model method is contained in that of the primitive'})
                continue
            raise AnalysisError(f'cannot interpret {short}: {e}') from e
        if mp is None or gp is None:
            rep.add({'node': short, 'model': mp, 'generated': gp, 'emitted': lines[:2]})
            rep.fail(node._cls, 'no-primitive', f'{short}: model primitive {mp}, generated primitive {gp} (emitted {lines[:2]})', a.p.classes[node._cls].loc)
            continue
        mname, mconsts, mk = mp
        gname, gconsts, gk = gp
        mcore, mkw = _resolve_core(a, mname, dict(mk))
        gcore, gkw = _resolve_core(a, gname, dict(gk))
        core_fn = a.ct.lookup(CTX, mcore) or a.ct.lookup('tatsu.contexts.engine.ParserEngine', mcore)
        if core_fn is not None:
            args = core_fn.node.args
            names = [x.arg for x in args.args][1:]
            defaults = {n_: ast.literal_eval(dv) for n_, dv in zip(names[len(names) - len(args.defaults):] if args.defaults else [], args.defaults) if _is_lit(dv)}
            for d, consts in ((mkw, mconsts), (gkw, gconsts)):
                # bind positional constants to parameter names (only parameters that take constants: not exp/sep callables)
                const_names = [n_ for n_ in names if n_ not in ('exp', 'sep', 'prefix')]
                for n_, v_ in zip(const_names, consts):
                    d.setdefault(n_, v_)
                for k_, v_ in defaults.items():
                    d.setdefault(k_, v_)
            mconsts, gconsts = (), ()
        mkw = {k: _unwrap(v) for k, v in mkw.items()}
        gkw = {k: _unwrap(v) for k, v in gkw.items()}
        same = (mcore == gcore) and _flags(mkw) == _flags(gkw) and _norm_consts(mconsts) == _norm_consts(gconsts)
        rep.add({'node': short, 'model': [mcore, list(map(repr, mconsts)), _flags(mkw)], 'generated': [gcore, list(map(repr, gconsts)), _flags(gkw)],
                 'emitted_first_line': lines[0] if lines else None, 'same': same})
        if not same:
            w = a.ct.lookup(GEN, f'walk_{short}')
            rep.fail(node._cls, f'primitive-mismatch:{short}',
                     f'{short}: the model runs {mcore}{_flags(mkw)} with constants {list(mconsts)}, the generated code '
                     f'(`{lines[0] if lines else ""}`) runs {gcore}{_flags(gkw)} with constants {list(gconsts)}: the two back-ends '
                     f'parse this construct differently', (w.loc if w else a.p.classes[node._cls].loc))
    return rep


def _flags(kw: dict) -> dict:
    out = {}
    for k, v in kw.items():
        if k == 'sep':
            out[k] = 'given' if v not in (None,) else None
        else:
            out[k] = v
    if out.get('sep') is None:
        out.pop('sep', None)
    return dict(sorted(out.items()))


def _unwrap(v):
    if isinstance(v, str) and v.startswith('<regexpp:') and v.endswith('>'):
        try:
            return ast.literal_eval(v[len('<regexpp:'):-1])
        except Exception:  # noqa: BLE001
            return v
    return v


def _norm_consts(c: tuple) -> tuple:
    return tuple('<regex>' if isinstance(x, str) and x.startswith('<regexpp:') else x for x in c)


def r3_rule_transfer(a, tier):
    rep = RuleReport(
        'C02.R3',
        'rule flags and parameters: for a rule with parameters, keyword parameters and every flag combination, the decorators '
        'walk_Rule emits (@tatsu.rule(<params>), @tatsu.leftrec, @tatsu.nomemo, @tatsu.name, @tatsu.token) carry exactly what '
        'Rule.ruleinfo puts into RuleInfo (params, kwparams, is_lrec, memoizable, is_name, is_tokn), and the method is named '
        'safe_name(rule.name)',
        floor=4,
    )
    b = B(a)
    cases = [
        dict(name='expr', params=(), kwparams={}, is_lrec=False, is_memo=True, no_memo=False, is_name=False, is_tokn=False),
        dict(name='expr', params=('Add', 7), kwparams={'k': 'v'}, is_lrec=True, is_memo=False, no_memo=False, is_name=False, is_tokn=False),
        dict(name='Ident', params=(), kwparams={}, is_lrec=False, is_memo=True, no_memo=True, is_name=True, is_tokn=True),
        dict(name='node', params=('Derived::Base',), kwparams={}, is_lrec=False, is_memo=True, no_memo=False, is_name=False, is_tokn=False),
    ]
    wr = a.p.func(f'{GEN}.walk_Rule')
    for c in cases:
        rule = Stub(Q['Rule'], exp=b.tok(), decorators=[], base=None, no_stak=False, **c)
        it = ModelInterp(a)
        memoizable = bool(it.get_attr(rule, 'memoizable'))
        out: list[str] = []
        it2 = ModelInterp(a, {'safe_name': Hook(lambda s, *x: s)})
        gen = Stub(GEN, ctx='ctx', ctx_stack=['ctx'],
                   print=Hook(lambda *args, **kw: out.append(' '.join(str(x) for x in args))),
                   indent=Hook(lambda *args, **kw: _NullCM()), walk=Hook(lambda n, *args, **kw: ''), reset_counters=Hook(lambda: None))
        it2.call_bound(Bound(gen, wr), [rule], {})
        text = '\n'.join(out)
        decs = re.findall(r'@tatsu\.(\w+)(\([^\n]*\))?', text)
        got = {d: args for d, args in decs}
        want_flags = {'leftrec': c['is_lrec'], 'nomemo': not memoizable, 'name': c['is_name'], 'token': c['is_tokn']}
        ok = 'rule' in got
        for d, w in want_flags.items():
            if (d in got) != w:
                ok = False
                rep.fail(wr.qualname, f'flag:{d}:{c["name"]}', f'rule {c}: generated decorators {sorted(got)}; @tatsu.{d} must be '
                         f'{"present" if w else "absent"} (model RuleInfo: is_lrec={c["is_lrec"]} memoizable={memoizable} '
                         f'is_name={c["is_name"]} is_tokn={c["is_tokn"]})', wr.loc)
        # parameters
        emitted_params: tuple = ()
        emitted_kw: dict = {}
        if got.get('rule'):
            try:
                tree = ast.parse(f'f{got["rule"]}', mode='eval').body
                emitted_params = tuple(ast.literal_eval(x) for x in tree.args)
                emitted_kw = {k.arg: ast.literal_eval(k.value) for k in tree.keywords}
            except Exception as e:  # noqa: BLE001
                rep.fail(wr.qualname, f'params-syntax:{c["name"]}', f'emitted `@tatsu.rule{got["rule"]}` is not a valid call: {e}', wr.loc)
        same_params = tuple(emitted_params) == tuple(c['params']) and emitted_kw == c['kwparams']
        rep.add({'rule': c['name'], 'model_params': list(c['params']), 'emitted_params': list(emitted_params), 'model_kwparams': c['kwparams'],
                 'emitted_kwparams': emitted_kw, 'decorators': sorted(got), 'ok': ok and same_params})
        if not same_params:
            rep.fail(wr.qualname, f'params:{c["params"]}', f'rule parameters {c["params"]} {c["kwparams"]} are emitted as '
                     f'@tatsu.rule{got.get("rule")}: semantic actions of the generated parser receive {list(emitted_params)} where the '
                     f'model passes {list(c["params"])}', wr.loc)
        if f'def {c["name"]}(' not in text:
            rep.fail(wr.qualname, f'method-name:{c["name"]}', f'no method `def {c["name"]}(` emitted for rule {c["name"]}', wr.loc)
    return rep


def _table_keys(a, fn, node: ast.expr, depth=0) -> set[str] | None:
    """Characters escaped by a dict / str.maketrans table expression."""
    if isinstance(node, ast.Dict):
        out = set()
        for k in node.keys:
            try:
                v = ast.literal_eval(k)
            except Exception:  # noqa: BLE001
                return None
            out.add(chr(v) if isinstance(v, int) else v)
        return out
    if isinstance(node, ast.Call) and dotted(node.func).split('.')[-1] in ('maketrans', 'MappingProxyType', 'dict') and node.args:
        return _table_keys(a, fn, node.args[0], depth + 1)
    if isinstance(node, ast.Name) and depth < 3:
        for n in walk_no_defs(fn.node):
            if isinstance(n, (ast.Assign, ast.AnnAssign)):
                tg = n.targets[0] if isinstance(n, ast.Assign) else n.target
                if isinstance(tg, ast.Name) and tg.id == node.id and n.value is not None:
                    return _table_keys(a, fn, n.value, depth + 1)
        q = a.p.resolve(fn.module.name, node.id)
        m, _, nm = q.rpartition('.')
        mod = a.p.modules.get(m)
        if mod and nm in mod.assigns:
            return _table_keys(a, fn, mod.assigns[nm], depth + 1)
    return None


def _table_items(a, fn, node: ast.expr, depth=0):
    """(character, replacement) pairs of a dict escape table (same resolution as _table_keys)"""
    if isinstance(node, ast.Dict):
        out = []
        for k, v in zip(node.keys, node.values):
            try:
                kk, vv = ast.literal_eval(k), ast.literal_eval(v)
            except Exception:  # noqa: BLE001
                return None
            out.append((chr(kk) if isinstance(kk, int) else kk, vv))
        return out
    if isinstance(node, ast.Call) and dotted(node.func).split('.')[-1] in ('maketrans', 'MappingProxyType', 'dict') and node.args:
        return _table_items(a, fn, node.args[0], depth + 1)
    if isinstance(node, ast.Name) and depth < 3:
        for n in walk_no_defs(fn.node):
            if isinstance(n, (ast.Assign, ast.AnnAssign)):
                tg = n.targets[0] if isinstance(n, ast.Assign) else n.target
                if isinstance(tg, ast.Name) and tg.id == node.id and n.value is not None:
                    return _table_items(a, fn, n.value, depth + 1)
        q = a.p.resolve(fn.module.name, node.id)
        m, _, nm = q.rpartition('.')
        mod = a.p.modules.get(m)
        if mod and nm in mod.assigns:
            return _table_items(a, fn, mod.assigns[nm], depth + 1)
    return None


def _regex_means_literal(escape: str, ch: str, follower: str) -> bool:
    """the escape, followed by FOLLOWER, is read by the regex parser as the literal CH followed by the literal FOLLOWER"""
    import re._parser as rp
    try:
        items = list(rp.parse(escape + follower))
    except Exception:  # noqa: BLE001
        return False
    return [(str(op), av) for op, av in items] == [('LITERAL', ord(ch)), ('LITERAL', ord(follower))]


def r4_emission(a, tier):
    rep = RuleReport(
        'C02.R4',
        'injection-free emission: (a) the escape table of regexpp covers every character the code printer would alter - the '
        'line-boundary characters of str.splitlines() (the printer splits and re-indents lines) and TAB (trim() expands tabs); '
        '(b) every model string interpolated into an f-string anywhere in the generator module passes repr (!r), regexpp, safe_name or '
        'is a number/boolean; (c) an Optional configuration value is never pushed through a stringifying sanitizer (regexpp(None) '
        'is the pattern "None")',
        floor=9,
    )
    # ---- (a) hazard set of the printer
    mixin = a.p.cls('tatsu.util.indent.IndentPrintMixin')
    splits = any(isinstance(n, ast.Call) and isinstance(n.func, ast.Attribute) and n.func.attr == 'splitlines'
                 for m in mixin.methods.values() for n in walk_no_defs(m.node))
    trim = a.p.func('tatsu.util.strtools.trim')
    expands = any(isinstance(n, ast.Call) and isinstance(n.func, ast.Attribute) and n.func.attr == 'expandtabs' for n in walk_no_defs(trim.node))
    trim_splits = any(isinstance(n, ast.Call) and isinstance(n.func, ast.Attribute) and n.func.attr == 'splitlines' for n in walk_no_defs(trim.node))
    prints_trim = any(isinstance(n, ast.Call) and dotted(n.func) == 'trim' for n in walk_no_defs(mixin.methods['print'].node))
    hazard = set()
    if splits or (prints_trim and trim_splits):
        hazard |= set(LINE_BOUNDARIES)
    if prints_trim and expands:
        hazard.add('\t')
    rep.add({'printer_splits_lines': splits or trim_splits, 'printer_expands_tabs': prints_trim and expands, 'hazard_characters': sorted(map(repr, hazard))})
    rp = a.p.func('tatsu.util.regextools.regexpp')
    # regexpp and the module-level private helpers it hands work to (a callback of re.sub, a quoting helper ...), transitively
    scope, todo = [rp], [rp]
    while todo:
        g = todo.pop()
        for nm_ in {x.id for x in ast.walk(g.node) if isinstance(x, ast.Name) and isinstance(x.ctx, ast.Load)}:
            h = rp.module.functions.get(nm_)
            if h is not None and h not in scope and nm_.startswith('_'):
                scope.append(h)
                todo.append(h)
    tables = []
    for n in [x for g in scope for x in ast.walk(g.node)]:  # the table may be applied inside a lambda / nested helper (re.sub callback)
        if isinstance(n, ast.Call) and isinstance(n.func, ast.Attribute) and n.func.attr in ('get', 'translate') and \
                isinstance(n.func.value, ast.Name if n.func.attr == 'get' else ast.expr):
            src = n.func.value if n.func.attr == 'get' else (n.args[0] if n.args else None)
            if src is not None:
                ks = _table_keys(a, rp, src)
                if ks is not None:
                    tables.append(ks)
    if not tables:
        raise AnalysisError('regexpp: cannot find its escape table (dict .get / str.translate)')
    # (a2) every replacement MEANS the character it replaces, as a regex, whatever follows it: the pattern of the generated parser is
    #      the pattern of the model (`\\b` is a word boundary, not a backspace; `\\0` followed by a digit is an octal escape)
    for n in [x for g in scope for x in ast.walk(g.node)]:
        for src in ([n.func.value] if isinstance(n, ast.Call) and isinstance(n.func, ast.Attribute) and n.func.attr == 'get' else
                    [n.args[0]] if isinstance(n, ast.Call) and isinstance(n.func, ast.Attribute) and n.func.attr == 'translate' and n.args else []):
            items = _table_items(a, rp, src)
            for ch, repl in items or []:
                if not isinstance(repl, str) or not isinstance(ch, str) or len(ch) != 1:
                    continue
                bad = [f for f in ('a', '1', '7') if not _regex_means_literal(repl, ch, f)]
                rep.add({'regexpp_replaces': repr(ch), 'by': repl, 'same_regex_meaning': not bad})
                if bad:
                    rep.fail(rp.qualname, f'escape-meaning:{ch!r}', f'regexpp writes the character {ch!r} as `{repl}`, which the regex parser does not read as that '
                             f'character when it is followed by {bad[0]!r}: the pattern in the generated parser differs from the pattern of the model', rp.loc)
    covered = set().union(*tables)
    missing = sorted(hazard - covered)
    rep.add({'regexpp_escapes': sorted(map(repr, covered)), 'missing': [repr(m) for m in missing]})
    for ch in missing:
        rep.fail(rp.qualname, f'unescaped:{ch!r}', f'regexpp does not escape {ch!r}: a pattern (or @@whitespace/@@comments regex) '
                 f'containing that character literally is emitted raw, and the code printer '
                 + ('expands it to spaces (the generated parser matches spaces where the model matches a TAB)' if ch == '\t'
                    else 'breaks the emitted line there (the generated source is not valid Python)'), rp.loc)
    # ---- (b) taint of model strings in f-strings of the generator
    gen = a.p.cls(GEN)
    str_fields = {'token', 'pattern', 'literal', 'name', 'comment', 'base'}
    safe_calls = {'regexpp', 'safe_name', 'repr', 'param_repr', '_param_repr', 'len', 'int', 'str_int'}
    for m in [f for f in a.p.functions.values() if f.module is gen.module]:  # methods, module-level helpers, nested functions
        safe_locals: set[str] = set()
        unsafe_locals: dict[str, str] = {}
        for n in walk_no_defs(m.node):
            if isinstance(n, ast.Assign) and isinstance(n.targets[0], ast.Name):
                v = n.value
                nm = n.targets[0].id
                if isinstance(v, ast.Call) and dotted(v.func).split('.')[-1] in safe_calls:
                    safe_locals.add(nm)
                elif isinstance(v, ast.Attribute) and v.attr in str_fields | {'name'} and not isinstance(v.value, ast.Name) is False:
                    unsafe_locals[nm] = norm(v)
        for n in walk_no_defs(m.node):
            if not isinstance(n, ast.JoinedStr):
                continue
            for fv in n.values:
                if not isinstance(fv, ast.FormattedValue):
                    continue
                e = fv.value
                via = None
                if fv.conversion == ord('r'):
                    via = '!r'
                elif isinstance(e, ast.Call) and dotted(e.func).split('.')[-1] in safe_calls:
                    via = dotted(e.func).split('.')[-1]
                elif isinstance(e, ast.Attribute) and e.attr in str_fields and isinstance(e.value, ast.Name) and e.value.id != 'self':
                    via = None
                else:
                    continue  # not a model string field
                is_field = (isinstance(e, ast.Attribute) and e.attr in str_fields) or (
                    isinstance(e, ast.Call) and e.args and isinstance(e.args[0], ast.Attribute) and e.args[0].attr in str_fields) or fv.conversion == ord('r')
                if not is_field:
                    continue
                rep.add({'emitter': m.qualname, 'interpolates': norm(e), 'sanitizer': via})
                if via is None:
                    rep.fail(m.qualname, f'raw-field:{norm(e)}', f'`{{{norm(e)}}}` interpolates a model string into emitted code without '
                             f'repr/regexpp/safe_name: quotes, backslashes or newlines in it change the generated program', f'{m.module.relpath}:{fv.lineno}')
    # ---- (c) Optional settings through stringifying sanitizers
    gi = a.p.func(f'{GEN}._gen_init')
    cfg_fields = {f.name: f.annotation for f in dataclass_fields(a.ct, 'tatsu.config.ParserConfig')}
    for n in walk_no_defs(gi.node):
        if isinstance(n, ast.Call) and dotted(n.func) == 'regexpp' and n.args:
            arg = n.args[0]
            fld = arg.attr if isinstance(arg, ast.Attribute) else None
            optional = bool(fld and 'None' in cfg_fields.get(fld, ''))
            guarded = False
            if isinstance(arg, ast.Name):
                # local: guarded by `elif x is not None`
                pm = a.resolver.parents(gi)
                cur = n
                while id(cur) in pm:
                    par = pm[id(cur)]
                    if isinstance(par, ast.If) and f'{arg.id} is not None' in norm(par.test):
                        guarded = True
                    cur = par
                optional = True
            else:
                pm = a.resolver.parents(gi)
                par = pm.get(id(n))
                if isinstance(par, ast.IfExp) and 'is not None' in norm(par.test) or isinstance(par, ast.IfExp) and norm(par.test) == norm(arg):
                    guarded = True
            rep.add({'setting_through_regexpp': norm(arg), 'optional': optional, 'None_guarded': guarded})
            if optional and not guarded:
                rep.fail(gi.qualname, f'none-through-regexpp:{norm(arg)}', f'`regexpp({norm(arg)})` is emitted for an Optional setting without a '
                         f'None guard: when the grammar sets no such pattern the generated parser is configured with the regex '
                         f'r\'None\' (it then skips the text "None" as a comment)', f'{gi.module.relpath}:{n.lineno}')
    return rep


FORMAT_QUERIES = {'fitsfmt'}  # line-width queries: they choose between two layouts of the same code
MUTATORS = {'add', 'append', 'extend', 'update', 'pop', 'remove', 'discard', 'clear', 'insert', 'setdefault', 'popitem'}


def r5_context_free_emission(a, tier):
    rep = RuleReport(
        'C02.R5',
        'emission is a function of the node: in PythonParserGenerator no branch test (if / conditional expression / while / '
        'comprehension filter / match guard) of a walk_* or _gen* method reads a generator attribute that is rebound or mutated '
        'outside __init__ (counters, context stack, anything remembering what was emitted before), and the only generator methods '
        'called in a test are line-width queries; otherwise the code emitted for a node depends on what was emitted earlier, '
        'while the model evaluates every node the same way wherever it occurs',
        floor=10,
    )
    gen = a.p.cls(GEN)
    chain = [c for c in a.ct.mro(GEN) if c in a.p.classes]
    mutable: dict[str, str] = {}
    for c in chain:
        for mname, m in a.p.classes[c].methods.items():
            if mname == '__init__':
                continue
            for n in walk_no_defs(m.node):
                t = None
                if isinstance(n, (ast.Assign, ast.AnnAssign, ast.AugAssign)):
                    for tg in (n.targets if isinstance(n, ast.Assign) else [n.target]):
                        base = tg.value if isinstance(tg, ast.Subscript) else tg
                        if isinstance(base, ast.Attribute) and norm(base.value) == 'self':
                            t = base.attr
                elif isinstance(n, ast.Call) and isinstance(n.func, ast.Attribute) and n.func.attr in MUTATORS \
                        and isinstance(n.func.value, ast.Attribute) and norm(n.func.value.value) == 'self':
                    t = n.func.value.attr
                if t:
                    mutable.setdefault(t, m.qualname)
    rep.notes.append(f'generator attributes rebound or mutated outside __init__: {sorted(mutable)}')
    for mname, m in gen.methods.items():
        tests = []
        for n in walk_no_defs(m.node):
            if isinstance(n, (ast.If, ast.IfExp, ast.While)):
                tests.append(n.test)
            elif isinstance(n, ast.comprehension):
                tests += n.ifs
            elif isinstance(n, ast.match_case) and n.guard is not None:
                tests.append(n.guard)
            elif isinstance(n, ast.Assert):
                continue
        for t in tests:
            reads = sorted({x.attr for x in ast.walk(t) if isinstance(x, ast.Attribute) and norm(x.value) == 'self' and x.attr in mutable})
            calls = sorted({x.func.attr for x in ast.walk(t) if isinstance(x, ast.Call) and isinstance(x.func, ast.Attribute)
                            and norm(x.func.value) == 'self' and x.func.attr not in FORMAT_QUERIES})
            rep.add({'method': m.qualname, 'test': norm(t)[:80], 'reads_mutable_generator_state': reads, 'calls_generator_methods': calls})
            for r in reads:
                rep.fail(m.qualname, f'stateful-test:{r}', f'`{norm(t)[:80]}` decides what {mname} emits from self.{r}, which '
                         f'{mutable[r].split(".")[-1]}() changes while the grammar is walked: the code generated for a node depends on '
                         f'what was generated before it (the model parses every occurrence of a node the same way)',
                         f'{m.module.relpath}:{t.lineno}')
            for c in calls:
                rep.fail(m.qualname, f'stateful-call:{c}', f'`{norm(t)[:80]}` decides what {mname} emits by calling self.{c}(), which is '
                         f'not a reviewed line-width query', f'{m.module.relpath}:{t.lineno}')
    return rep


LEAF_VALUES = [None, False, True, 0, 1, -3, 1.5, '', 'x', "it's", 'say "hi"', 'a\\b', 'two\nlines', 'tab\there', '{x}', 'é']


def r6_leaf_literals(a, tier, rule_id='C02.R6'):
    import contextlib

    from ..minieval import Unsupported
    from ..modelinterp import Hook, ModelInterp, Stub
    rep = RuleReport(
        rule_id,
        'literal operands survive code generation: walk_Token / walk_Constant / walk_Alert / walk_Call, interpreted on stand-in nodes '
        'for a table of operand values (None, False, 0, the empty string, quotes, backslashes, line breaks, braces, non-ASCII), print '
        'one call `ctx.<primitive>(<literal>...)` whose argument, read back with ast.literal_eval, is the node\'s operand with the '
        'same type - a falsy operand is not replaced by a default',
        floor=40,
    )
    gen_cls = a.p.cls(GEN)
    specs = [
        ('walk_Token', 'tatsu.peg.basic.Token', 'token', 'token', [v for v in LEAF_VALUES if isinstance(v, str) and v]),
        ('walk_Constant', 'tatsu.peg.basic.Constant', 'literal', 'constant', LEAF_VALUES),
        ('walk_Alert', 'tatsu.peg.basic.Alert', 'literal', 'alert', LEAF_VALUES),
    ]
    for mname, cls_q, fld, prim, values in specs:
        m = gen_cls.methods.get(mname)
        if m is None:
            raise AnalysisError(f'anchor vanished: {GEN}.{mname}')
        a.p.cls(cls_q)
        for v in values:
            out = []
            gen = Stub(GEN, ctx_stack=['ctx'], ctx='ctx', print=Hook(lambda *x, **_k: out.append(' '.join(str(y) for y in x))),
                       indent=Hook(lambda *_a, **_k: contextlib.nullcontext()))
            node = Stub(cls_q, **{fld: v, 'level': 2, 'ast': v})
            try:
                ModelInterp(a).call_fn(m, [gen, node])
            except Unsupported as e:
                raise AnalysisError(f'cannot interpret {m.qualname}: {e}') from e
            text = '\n'.join(out).strip()
            got, ok = '<unparsable>', False
            try:
                call = ast.parse(text, mode='eval').body
                if isinstance(call, ast.Call) and dotted(call.func) == f'ctx.{prim}' and call.args:
                    got = ast.literal_eval(call.args[0])
                    ok = got == v and type(got) is type(v)
                    if prim == 'alert':
                        ok = ok and len(call.args) == 2 and ast.literal_eval(call.args[1]) == 2
            except (SyntaxError, ValueError):
                pass
            rep.add({'emitter': mname, 'operand': repr(v), 'emitted': text[:80], 'read_back': repr(got), 'ok': ok})
            if not ok:
                rep.fail(m.qualname, f'literal:{mname}:{v!r}', f'{mname} for the operand {v!r} prints `{text[:90]}`, which reads back as '
                         f'{got!r}: the generated parser passes another value to ctx.{prim}() than the model does', m.loc)
    # the MODEL side of the same operands: <Leaf>._parse hands the context primitive the operand itself - the pattern TEXT, not an object compiled
    # from it (a precompiled regex carries flags and a cache the generated parser, which passes the text, does not have)
    from ..modelinterp import Bound, Recorder
    compiled = Stub('tatsu.peg.pattern.Pattern', pattern='<compiled from the text>')
    for cls_q, fld, prim, values in (('tatsu.peg.pattern.Pattern', 'pattern', 'pattern', ['a+', '^x$', '(?m)^y', '\\d+ ']), ('tatsu.peg.basic.Token', 'token', 'token', ['tok', 'if', '+'])):
        pm = a.ct.lookup(cls_q, '_parse')
        if pm is None:
            raise AnalysisError(f'anchor vanished: {cls_q}._parse')
        for v in values:
            ctx = Recorder('ctx')
            node = Stub(cls_q, **{fld: v, 'ast': v, '_regex': compiled, 'regex': compiled})
            try:
                ModelInterp(a).call_bound(Bound(node, pm), [ctx], {})
            except Unsupported as e:
                raise AnalysisError(f'cannot interpret {pm.qualname}: {e}') from e
            calls = [t for t in ctx.trace if t[0] == prim]
            arg = calls[0][1][0] if calls and calls[0][1] else '<no call>'
            ok = len(calls) == 1 and type(arg) is str and arg == v
            rep.add({'model': pm.qualname, 'operand': repr(v), f'ctx.{prim}_receives': repr(arg)[:60], 'ok': ok})
            if not ok:
                rep.fail(pm.qualname, f'model-operand:{prim}:{v!r}', f'{pm.qualname} hands ctx.{prim}() {arg!r} for the operand {v!r}: the generated parser passes the text {v!r} '
                         f'itself (read back above), so the two back-ends match with different ' + ('regular expressions (flags of the precompiled object)' if prim == 'pattern' else 'tokens'), pm.loc)
    return rep


def r7_generated_configuration(a, tier, rule_id='C02.R7'):
    import itertools
    import textwrap

    from ..minieval import Obj, Unsupported
    from ..modelinterp import Hook, ModelInterp, Stub
    rep = RuleReport(
        rule_id,
        'the generated parser is configured like the model: _gen_init, interpreted on stand-in grammars for every combination of '
        'whitespace (default / None / a regex), nameguard (unset / True / False), namechars, ignorecase, parseinfo and comments, prints '
        'a ParserConfig.new(...) call whose keyword values, read back with ast.literal_eval, are the settings of the model - an unset '
        'setting stays unset (None) so that the run-time default rules of the input classes decide, exactly as for the model',
        floor=30,
    )
    gi = a.p.func(f'{GEN}._gen_init')
    und = object()
    n_bad = 0
    for ws, ng, nc, ic, pi, cm in itertools.product((und, None, '[ ]+'), (None, True, False), ('', '-'), (False, True), (False, True), (None, '#.*')):
        cfg = Obj(start='other', whitespace=ws, nameguard=ng, namechars=nc, ignorecase=ic, parseinfo=pi, comments=cm, eol_comments=None)
        grammar = Stub('tatsu.peg.base.Grammar', config=cfg, directives={}, name='G', rules=[Obj(name='expr'), Obj(name='other')])
        out = []
        gen = Stub(GEN, print=Hook(lambda *x, **_k: out.append(' '.join(str(y) for y in x))))
        it = ModelInterp(a, {'Undefined': und, 'regexpp': Hook(lambda r_: repr(r_))})
        try:
            it.call_fn(gi, [gen, grammar])
        except Unsupported as e:
            raise AnalysisError(f'cannot interpret {gi.qualname}: {e}') from e
        text = textwrap.dedent('\n'.join(out))
        got = {}
        try:
            for n in ast.walk(ast.parse(text)):
                if isinstance(n, ast.Call) and dotted(n.func) == 'ParserConfig.new':
                    for k in n.keywords:
                        try:
                            got[k.arg] = ast.literal_eval(k.value)
                        except ValueError:
                            got[k.arg] = norm(k.value)
        except SyntaxError:
            got = {'<unparsable>': text[:80]}
        want = {'name': 'G', 'whitespace': None if ws is und else ws, 'nameguard': ng, 'ignorecase': ic, 'namechars': nc, 'parseinfo': pi,
                'comments': cm, 'eol_comments': None, 'keywords': 'KEYWORDS', 'start': 'other', 'config': 'config'}
        diff = {k: (got.get(k, '<missing>'), v) for k, v in want.items() if got.get(k, '<missing>') != v or type(got.get(k)) is not type(v)}
        rep.add({'model_settings': {'whitespace': 'default' if ws is und else ws, 'nameguard': ng, 'namechars': nc, 'ignorecase': ic, 'parseinfo': pi, 'comments': cm},
                 'generated_differs_in': {k: list(map(repr, v)) for k, v in diff.items()}})
        if diff and n_bad < 6:
            n_bad += 1
            k0 = sorted(diff)[0]
            rep.fail(gi.qualname, f'generated-config:{k0}:{diff[k0][0]!r}', f'for a model with whitespace={"default" if ws is und else repr(ws)}, '
                     f'nameguard={ng}, namechars={nc!r}, ignorecase={ic}, parseinfo={pi}, comments={cm!r} the generated parser is configured '
                     f'with {", ".join(f"{k}={v[0]!r} (model: {v[1]!r})" for k, v in sorted(diff.items()))}: it accepts other inputs than the '
                     f'model (e.g. nameguard=False written out for a grammar that leaves it unset matches `null` as a prefix of `nullable`)',
                     gi.loc)
    return rep


def _model_operand_reads(a, cls: str, operands: set[str]) -> set[str]:
    """operand fields read (as self.<field>) on the way from <cls>._parse through the self-methods it calls and super()._parse."""
    reads: set[str] = set()
    seen: set[str] = set()
    mro = a.ct.mro(cls)

    def visit(fn):
        if fn is None or fn.qualname in seen:
            return
        seen.add(fn.qualname)
        for n in walk_no_defs(fn.node):
            if isinstance(n, ast.Attribute) and norm(n.value) == 'self' and n.attr in operands:
                reads.add(n.attr)
            if isinstance(n, ast.Call) and isinstance(n.func, ast.Attribute):
                if norm(n.func.value) == 'self':
                    visit(a.ct.lookup(cls, n.func.attr))
                elif isinstance(n.func.value, ast.Call) and dotted(n.func.value.func) == 'super' and fn.cls is not None \
                        and fn.cls.qualname in mro:
                    for q in mro[mro.index(fn.cls.qualname) + 1:]:
                        k = a.p.classes.get(q)
                        if k and n.func.attr in k.methods:
                            visit(k.methods[n.func.attr])
                            break
    visit(a.ct.lookup(cls, '_parse'))
    return reads


def _walker_operand_reads(a, fn, operands: set[str]) -> set[str]:
    """operand fields of the node parameter read by a walk_* method, following self.<method>(node) delegations."""
    reads: set[str] = set()
    seen: set[tuple[str, int]] = set()

    def visit(f, idx):
        if f is None or (f.qualname, idx) in seen:
            return
        seen.add((f.qualname, idx))
        params = [x.arg for x in f.node.args.args]
        if idx >= len(params):
            return
        p = params[idx]
        for n in ast.walk(f.node):
            if isinstance(n, ast.Attribute) and isinstance(n.value, ast.Name) and n.value.id == p and n.attr in operands:
                reads.add(n.attr)
            if isinstance(n, ast.Call) and isinstance(n.func, ast.Attribute) and norm(n.func.value) == 'self':
                for i, arg in enumerate(n.args):
                    if isinstance(arg, ast.Name) and arg.id == p:
                        visit(a.ct.lookup(GEN, n.func.attr), i + 1)
    visit(fn, 1)
    return reads


_RULE_ATTRS = dict(name='r', params=(), kwparams={}, is_lrec=False, is_memo=True, no_memo=False, is_name=False, is_tokn=False,
                   decorators=[], base=None, no_stak=False)
_EXTRA_ATTRS = {'name': 'n', 'lookaheadlist': [('t',)], 'defines_single': [], 'defines_list': []}


def _walker_operands_interpreted(a, cls: str, fields) -> set[str]:
    """Interpret the generator handler of <cls> on a stand-in node whose operand fields hold distinguishable stand-ins; the
    result is the set of operand fields whose stand-in reached self.walk()."""
    owner: dict[int, str] = {}
    attrs: dict = {}
    keep = []
    for f in fields:
        def marker(tag=f.name):
            m = _la(Stub(Q['Token'], token=tag))
            owner[id(m)] = tag
            keep.append(m)
            return m
        if 'Option' in f.annotation:
            opts = []
            for _ in range(2):
                opt = Stub(Q['Option'], exp=marker(), lookaheadlist=[('t',)])
                owner[id(opt)] = f.name
                keep.append(opt)
                opts.append(opt)
            attrs[f.name] = opts
        elif f.annotation.replace(' ', '').startswith(('list[', 'tuple[', 'Sequence[')):
            attrs[f.name] = [marker(), marker()]
        else:
            attrs[f.name] = marker()
    extra = dict(_EXTRA_ATTRS)
    if 'tatsu.peg.base.Rule' in a.ct.mro(cls):
        extra.update(_RULE_ATTRS)
    node = Stub(cls, **{**extra, **attrs})
    walked: set[str] = set()
    events: list = []
    index = {id(m): i for i, m in enumerate(keep)}

    def walk(n, *args, **kw):
        for x in (n if isinstance(n, (list, tuple)) else [n]):
            if id(x) in owner:
                walked.add(owner[id(x)])
                events.append(('walk', owner[id(x)], index.get(id(x), -1)))
        return ''

    it = ModelInterp(a, {'regexpp': Hook(lambda x: repr(x)), 'safe_name': Hook(lambda s_, *x: s_)})
    gen = Stub(GEN, ctx='ctx', ctx_stack=['ctx'], loopn='cl', blockn=0, parser_name='',
               print=Hook(lambda *args, **kw: events.append(('print', ' '.join(str(x) for x in args)))), indent=Hook(lambda *args, **kw: _NullCM()), walk=Hook(walk),
               pfold=Hook(lambda *args, **kw: None), new_choice_number=Hook(lambda: 0), prev_choice_number=Hook(lambda: None),
               reset_counters=Hook(lambda: None), fitsfmt=Hook(lambda *args, **kw: True))
    w = _find_walker(a, GEN, cls)
    it.call_bound(Bound(gen, w.fn), [node], {})
    _walker_operands_interpreted.events = events
    return walked


def r8_operand_correspondence(a, tier):
    rep = RuleReport(
        'C02.R8',
        'operand correspondence: for every concrete node class with operand fields (fields typed Model, list[Model] or Option '
        'lists), the operand fields read on the way from <Class>._parse (through the self-methods it calls and super()) are the '
        'operand fields whose value the generator handler for the class hands to self.walk() (handler interpreted on a stand-in '
        'node with distinguishable operands; def-use over the handler and its self.walk_X(node) delegations where the handler is '
        'outside the interpreter). A handler that walks another operand than the one the model parses (BasedRule parses `rhs` = '
        'base expression followed by its own; walking `exp` drops the base) emits a parser for a different expression',
        floor=20,
    )
    no_parse_ok = {'Comment', 'EOLComment', 'Option', 'Grammar', 'RuleInclude'} | ABSTRACT
    for c in sorted(a.ct.subclasses(MODEL)):
        short = c.split('.')[-1]
        if short in no_parse_ok or c not in a.p.classes:
            continue
        fields = [f for f in dataclass_fields(a.ct, c) if not f.name.startswith('_') and f.annotation
                  and any(t in f.annotation for t in ('Model', 'Option')) and 'ref' not in f.annotation]
        operands = {f.name for f in fields}
        if not operands:
            continue
        try:
            w = _find_walker(a, GEN, c)
        except Unsupported as e:
            raise AnalysisError(f'cannot interpret _find_walker for {short}: {e}') from e
        wfn = w.fn if isinstance(w, (FuncRef, Bound)) else None
        if wfn is None:
            continue  # reported by R1
        m = _model_operand_reads(a, c, operands)
        try:
            g = _walker_operands_interpreted(a, c, fields)
            how = 'interpreted'
        except Unsupported as e:
            g = _walker_operand_reads(a, wfn, operands)
            how = f'def-use ({e})'
        order_ok, roles_ok, role_map = True, True, {}
        if how == 'interpreted':
            ev = getattr(_walker_operands_interpreted, 'events', [])
            last_decor = None
            per_field: dict[str, list[int]] = {}
            for e in ev:
                if e[0] == 'print':
                    d = re.search(r'@\w+\.(exp|sep)\b', e[1])
                    if d:
                        last_decor = d.group(1)
                else:
                    per_field.setdefault(e[1], []).append(e[2])
                    if last_decor and e[1] in ('exp', 'sep'):
                        role_map[e[1]] = last_decor
                        last_decor = None
            order_ok = all(v == sorted(v) for v in per_field.values())
            roles_ok = all(k == v for k, v in role_map.items())
        rep.add({'class': short, 'operand_fields': sorted(operands), 'model_parses': sorted(m), 'handler': wfn.name,
                 'generator_walks': sorted(g), 'how': how, 'elements_in_model_order': order_ok, 'roles': role_map})
        if not order_ok:
            rep.fail(c, f'operand-order:{short}', f'{wfn.name} walks the elements of a list operand of {short} in another order than the model holds '
                     f'(and parses) them: the generated parser tries options / matches elements in a different order', wfn.loc)
        if not roles_ok:
            rep.fail(c, f'operand-roles:{short}', f'{wfn.name} registers the operands of {short} under the wrong roles {role_map} (field -> role): the '
                     f'generated parser repeats the separator and separates with the element', wfn.loc)
        if m != g:
            rep.fail(c, f'operands:{short}:{",".join(sorted(m))}!={",".join(sorted(g))}',
                     f'{short}._parse parses the operand(s) {sorted(m)} but the generator handler {wfn.name} walks {sorted(g)}: the generated '
                     f'parser runs a different expression than the model for every grammar containing a {short}', wfn.loc)
    return rep


def _after_yield_calls(fn):
    """calls made after the (first) yield statement of a generator function, in source order (own statements only)"""
    seen_yield = False
    out = []
    for n in ast.walk(fn.node):
        pass
    def visit(block):
        nonlocal seen_yield
        for st in block:
            if isinstance(st, (ast.FunctionDef, ast.AsyncFunctionDef, ast.ClassDef)):
                continue
            has_yield = any(isinstance(x, (ast.Yield, ast.YieldFrom)) for x in ast.walk(st))
            if has_yield and not isinstance(st, (ast.Try, ast.With, ast.If, ast.For, ast.While)):
                seen_yield = True
                continue
            if isinstance(st, (ast.Try, ast.With, ast.If, ast.For, ast.While)):
                for fld in ('body', 'handlers', 'orelse', 'finalbody'):
                    sub = getattr(st, fld, None) or []
                    for h in sub:
                        if isinstance(h, ast.ExceptHandler):
                            visit(h.body)
                    visit([x for x in sub if isinstance(x, ast.stmt)])
                continue
            if seen_yield:
                out.extend(x for x in ast.walk(st) if isinstance(x, ast.Call))
    visit(fn.node.body)
    return out


def _before_yield_stmts(fn):
    out = []
    for st in fn.node.body:
        if any(isinstance(x, (ast.Yield, ast.YieldFrom)) for x in ast.walk(st)):
            break
        out.append(st)
    return out


def r9_named_value(a, tier):
    from ..rules.frames import pushing_functions
    rep = RuleReport(
        'C02.R9',
        'a named element binds the value of ITS expression in both back-ends. The model binds what exp._parse returns; generated '
        'code binds state.last_node after the with-block. Necessary for agreement: (A) every naming context manager (one that '
        'calls state.nameset/nameadd after its yield) clears state.last_node before the block - otherwise an expression that adds '
        'nothing (failed optional, lookahead, cut, void, end of text) binds the value of an EARLIER element; (B) every other '
        'context manager the generator wraps around sub-expressions opens a state frame (closed by merge/extend, which makes the '
        'whole block ONE last_node) or delegates to a primitive after the block - a wrapper that only yields leaves the last '
        'ELEMENT of a group as the value; (C) a leaf primitive that returns a value leaves that value in last_node; (D) a model '
        'class that returns the value seen inside a discarded frame (lookahead) has no counterpart in generated code',
        floor=8,
    )
    b = B(a)
    T = lambda: _la(b.tok())  # noqa: E731
    PEG = 'tatsu.peg'
    boxes = [b.box('Group', T()), b.box('Optional', T()), b.box('Closure', T()), b.box('PositiveClosure', T()), b.box('SkipGroup', T()),
             b.box('Lookahead', T()), b.box('NegativeLookahead', T()), b.box('SkipTo', T()),
             b.join('Join', T(), T()), b.join('PositiveJoin', T(), T()), b.join('Gather', T(), T()), b.join('PositiveGather', T(), T()),
             Stub(f'{PEG}.deprecated.LeftJoin', exp=T(), sep=T()), Stub(f'{PEG}.deprecated.RightJoin', exp=T(), sep=T()),
             Stub(Q['Named'], name='n', exp=T()), Stub(Q['NamedList'], name='n', exp=T()), Stub(Q['Override'], exp=T()), Stub(Q['OverrideList'], exp=T()),
             b.choice(T(), T())]
    wrappers: dict[str, set[str]] = {}
    for node in boxes:
        try:
            lines = _emit(a, node)
        except Unsupported:
            # handler outside the interpreter (walk_Choice builds tables): the wrappers it names as `Ctx.<method>`
            w_ = _find_walker(a, GEN, node._cls)
            lines = [f'with ctx.{n_.attr}(' for n_ in ast.walk(w_.fn.node)
                     if isinstance(n_, ast.Attribute) and isinstance(n_.value, ast.Name) and n_.value.id == 'Ctx']
        for ln in lines:
            for m in re.finditer(r'with ctx\.(\w+)\(', ln):
                wrappers.setdefault(m.group(1), set()).add(node._cls.split('.')[-1])
    pushers = {f.qualname for f in pushing_functions(a)}
    for w, users in sorted(wrappers.items()):
        fn = a.ct.lookup(CTX, w)
        if fn is None:
            rep.fail(CTX, f'wrapper-unknown:{w}', f'the generator emits `with ctx.{w}()` but ParseContext has no such method', None)
            continue
        after = _after_yield_calls(fn)
        binds = [c for c in after if isinstance(c.func, ast.Attribute) and c.func.attr in ('nameset', 'nameadd') and 'state' in norm(c.func.value)]
        if binds:
            reset = any(isinstance(st, ast.Assign) and any(isinstance(t, ast.Attribute) and t.attr == 'last_node' and 'state' in norm(t.value) for t in st.targets)
                        and isinstance(st.value, ast.Constant) and st.value.value is None for st in _before_yield_stmts(fn))
            rep.add({'wrapper': w, 'emitted_for': sorted(users), 'kind': 'naming', 'clears_last_node_before_block': reset})
            if not reset:
                rep.fail(fn.qualname, f'stale-value:{w}', f'ParseContext.{w} binds state.last_node after the block without clearing it before: '
                         f'`x:[e]` with e not matching (and x:&e, x:!e, x:~, x:$ ...) binds the value of the element BEFORE the named one, the '
                         f'model binds None', fn.loc)
            continue
        is_frame = fn.qualname in pushers
        delegates = [c for c in after if isinstance(c.func, ast.Attribute) and (norm(c.func.value) == 'self' or isinstance(c.func.value, ast.Name))]
        kind = 'frame' if is_frame else ('delegating' if delegates else 'plain')
        rep.add({'wrapper': w, 'emitted_for': sorted(users), 'kind': kind, 'delegates_to': sorted({c.func.attr for c in delegates})})
        if kind == 'plain':
            rep.fail(fn.qualname, f'wrapper-without-frame:{w}', f'ParseContext.{w} (emitted for {sorted(users)}) neither opens a state frame nor '
                     f'calls a primitive after the block: after `with ctx.{w}(): a b` state.last_node is the value of b, the model\'s value of '
                     f'the construct is [a, b]; a name around it binds different values in the two back-ends', fn.loc)
    # (A2) the wrapper emitted for each binding class binds the way the model class does: single vs list, name vs override key
    want_kind = {'Named': ('nameset', 'name'), 'NamedList': ('nameadd', 'name'), 'Override': ('nameset', 'override'), 'OverrideList': ('nameadd', 'override')}
    for node in boxes:
        short = node._cls.split('.')[-1]
        if short not in want_kind:
            continue
        lines = _emit(a, node)
        m_ = re.search(r'with ctx\.(\w+)\(([^)]*)\)', lines[0]) if lines else None
        w = m_.group(1) if m_ else None
        fn = a.ct.lookup(CTX, w) if w else None
        got_kind = None
        if fn is not None:
            binds = [c for c in _after_yield_calls(fn) if isinstance(c.func, ast.Attribute) and c.func.attr in ('nameset', 'nameadd') and 'state' in norm(c.func.value)]
            if len(binds) == 1:
                arg = binds[0].args[0] if binds[0].args else None
                got_kind = (binds[0].func.attr, 'name' if isinstance(arg, ast.Name) and arg.id in fn.params else 'override')
        passes_name = bool(m_) and (("'n'" in m_.group(2)) == (want_kind[short][1] == 'name'))
        ok = got_kind == want_kind[short] and passes_name
        rep.add({'binding_class': short, 'emitted': lines[0] if lines else None, 'wrapper_binds': got_kind, 'model_binds': want_kind[short], 'ok': ok})
        if not ok:
            wfn = _find_walker(a, GEN, node._cls).fn
            rep.fail(wfn.qualname, f'binding-kind:{short}', f'for {short} the generator emits `{lines[0] if lines else ""}`, whose wrapper binds as {got_kind}; the model class binds as '
                     f'{want_kind[short]} (single value vs list, the given name vs the override key)', wfn.loc)
    # (A3) a sequence declares the keys of its named elements before it parses (names that do not match are None / [])
    seqnode = Stub(Q['Sequence'], sequence=[T(), T()], defines_single=['k', 'x'], defines_list=['l'])
    lines = _emit(a, seqnode)
    decl = next((ln for ln in lines if 'define(' in ln), None)
    okd = False
    if decl:
        try:
            call = ast.parse(decl.strip()).body[0].value
            vals = [ast.literal_eval(x) for x in call.args]
            okd = len(vals) == 2 and sorted(vals[0]) == ['k', 'x'] and sorted(vals[1]) == ['l'] and lines.index(decl) == 0
        except Exception:  # noqa: BLE001
            okd = False
    rep.add({'sequence_defining': {'single': ['k', 'x'], 'list': ['l']}, 'emitted_first': lines[0] if lines else None, 'ok': okd})
    if not okd:
        wfn = _find_walker(a, GEN, Q['Sequence']).fn
        rep.fail(wfn.qualname, 'sequence-defines', f'for a sequence defining k, x (single) and l (list) the generator emits {lines[:2]}; required first: '
                 f'ctx.define([k, x], [l]) - without it a name that does not match is missing from the AST instead of None / []', wfn.loc)
    # (A4) what the declaration MEANS: the argument pairs the model (Model._add_defined) and the generated code (ctx.define(...) as emitted
    #      for the same sequence, its defined names computed by the real defines_single / defines_list) hand to AST._define give the same
    #      defaults: None for single names, [] for list names (a `name+:` is a Named too: the generator lists it in both arguments)
    from ..minieval import MiniEval as _ME
    from .c01 import _run_ast_define
    mk_named = lambda cls, n: Stub(Q[cls], name=n, exp=T())  # noqa: E731
    seq2 = Stub(Q['Sequence'], sequence=[mk_named('Named', 'k'), Stub(Q['Optional'], exp=mk_named('NamedList', 'l')), mk_named('Named', 'x'),
                                        Stub(Q['Closure'], exp=mk_named('NamedList', 'm'))])
    try:
        lines2 = _emit(a, seq2)
        decl2 = next((ln for ln in lines2 if 'define(' in ln), None)
        gen_args = [ast.literal_eval(x) for x in ast.parse(decl2.strip()).body[0].value.args] if decl2 else None
        ctxrec = Recorder('ctx')
        itm = ModelInterp(a)
        itm.call_bound(Bound(seq2, a.ct.lookup(Q['Sequence'], '_add_defined')), [ctxrec], {})
        mod_args = next(([list(x) for x in t[1]] for t in ctxrec.trace if t[0] == 'define'), None)
    except Unsupported as e:
        raise AnalysisError(f'C02.R9: cannot interpret the declaration of defined names: {e}') from e
    astc = a.p.cls('tatsu.contexts.ast.AST')
    amethods = {n: m.node for n, m in astc.methods.items()}
    res = {}
    for side, args in (('model', mod_args), ('generated', gen_args)):
        res[side] = _run_ast_define(_ME({}), amethods, {}, args[0], args[1] if len(args) > 1 else None) if args else None
    want_defaults = {'k': None, 'x': None, 'l': [], 'm': []}
    okm = res['model'] == want_defaults and res['generated'] == want_defaults
    rep.add({'declaration_of': "k:'t' [l+:'t'] x:'t' {m+:'t'}", 'model_define_args': mod_args, 'generated_define_args': gen_args,
             'model_defaults': repr(res['model']), 'generated_defaults': repr(res['generated']), 'ok': okm})
    if not okm:
        wfn = a.p.func('tatsu.contexts.ast.AST._define')
        rep.fail(wfn.qualname, 'define-defaults', f"for k:'t' [l+:'t'] x:'t' {{m+:'t'}} the model declares {mod_args} -> {res['model']} and the generated parser "
                 f'declares {gen_args} -> {res["generated"]} (AST._define interpreted); required on both sides {want_defaults}: a list name that receives '
                 f'nothing is [] in the model and must be [] in the generated parser', wfn.loc)
    # (A5) names are declared per OPTION: the model (Choice._parse) declares the names of an option in the option's frame before it parses it, whatever
    #      the option is; the generator declares through walk_Sequence only, so an option that is NOT a sequence (one named element, an optional
    #      around one, a closure of list names - what the optimizer leaves of a one-element sequence) must get its declaration elsewhere
    chp = a.ct.lookup(Q['Choice'], '_parse')
    for what, mk_opt in (("[a:'t']", lambda: Stub(Q['Optional'], exp=mk_named('Named', 'a'))),
                         ("{l+:'t'}", lambda: Stub(Q['Closure'], exp=mk_named('NamedList', 'l')))):
        opt_exp = mk_opt()
        names = sorted(set(ModelInterp(a).get_attr(opt_exp, 'defines_single')) | set(ModelInterp(a).get_attr(opt_exp, 'defines_list')))
        option = Stub(Q['Option'], exp=opt_exp)
        choice = _la(Stub(Q['Choice'], options=[option, Stub(Q['Option'], exp=T())]))
        ctxrec = Recorder('ctx', raising={})
        ctxrec.attrs['states'] = Recorder('states', trace=ctxrec.trace)
        ctxrec.attrs['ast'] = {}
        try:
            ModelInterp(a).call_bound(Bound(choice, chp), [ctxrec], {})
        except Unsupported as e:
            raise AnalysisError(f'C02.R9: cannot interpret Choice._parse: {e}') from e
        model_declares = sorted({n_ for t in ctxrec.trace if t[0] == 'define' for part in t[1] for n_ in part})
        # the generated side: a declaration is printed only by _gen_defines_declaration; it reaches this option iff the handler of the choice or the
        # handler the option's own class resolves to calls it
        def declares(fn_, depth=0, seen=None) -> bool:
            # through the generator's own helper methods (`self._gen_anon_block(.., defines=opt)`), not through the generic dispatch `self.walk(..)`
            seen = seen if seen is not None else set()
            if fn_ is None or fn_.qualname in seen or depth > 3:
                return False
            seen.add(fn_.qualname)
            for n_ in walk_no_defs(fn_.node):
                if isinstance(n_, ast.Call) and isinstance(n_.func, ast.Attribute) and norm(n_.func.value) == 'self':
                    if n_.func.attr == '_gen_defines_declaration':
                        return True
                    if n_.func.attr not in ('walk', 'print', 'indent'):
                        callee = a.ct.lookup(GEN, n_.func.attr)
                        if callee is not None and declares(callee, depth + 1, seen):
                            return True
            return False
        w_opt = _find_walker(a, GEN, opt_exp._cls)
        gen_declares = names if (declares(a.p.func(f'{GEN}.walk_Choice')) or declares(getattr(w_opt, 'fn', None))) else []
        ok = set(names) <= set(model_declares) and set(names) <= set(gen_declares) or (set(model_declares) & set(names)) == (set(gen_declares) & set(names))
        rep.add({'option_of_a_choice': what, 'names': names, 'model_declares': model_declares, 'generated_declares': gen_declares, 'ok': ok})
        if not ok:
            wfn = a.p.func(f'{GEN}.walk_Choice')
            rep.fail(wfn.qualname, f'option-declaration:{what}', f'an option `{what}` of a choice (not a sequence): the model declares {model_declares} in the option\'s frame before '
                     f'parsing it, the generated parser declares {gen_declares}: when the option matches without binding, the model returns {{name: None}} and the generated '
                     f'parser returns None (`start: [a:\'x\'] | b:\'y\'` on the text `y`)', wfn.loc)
    # (B2) what generated parsers bind is whatever last_node holds, None and falsy values included (shared with C01.R2)
    from .c01 import binding_values
    binding_values(a, rep, 'C02.R9')
    # (C) leaf primitives: returned value == last_node
    from ..modelinterp import Recorder as _Rec
    for pname in ('void', 'empty', 'dot', 'token', 'pattern'):
        fn = a.ct.lookup(CTX, pname)
        if fn is None:
            continue
        # ParseState.append / extend hand the node back (tatsu/contexts/state.py)
        state = _Rec('state', results={'append': lambda interp, node, *x: node, 'extend': lambda interp, node, *x: node})
        cursor = _Rec('cursor')

        class _A(dict):
            def get(self, k, d=None):
                return 7
        cursor.results = _A()
        state.attrs['cursor'] = cursor
        me = Stub(CTX, state=state, cursor=cursor, tracer=_Rec('tracer'), next_token=Hook(lambda *x, **k: None))
        it = ModelInterp(a, {'regexpp': Hook(lambda x: x), 'closedlist': Hook(lambda x: ('closed', tuple(x)))})
        try:
            ret = it.call_bound(Bound(me, fn), ['OPERAND'] * (len(fn.node.args.args) - 1), {})
        except Unsupported as e:
            raise AnalysisError(f'C02.R9: cannot interpret ParseContext.{pname}: {e}') from e
        last = [t[1][0] for t in state.trace if t[0] in ('append', 'extend', 'set:last_node') and t[1]]
        ok = (ret is None and not last) or (bool(last) and last[-1] == ret)
        rep.add({'primitive': pname, 'returns': repr(ret), 'last_node_after': repr(last[-1]) if last else 'unchanged', 'agree': ok})
        if not ok:
            rep.fail(fn.qualname, f'value-not-in-last-node:{pname}', f'ParseContext.{pname} returns {ret!r} (what the model binds for `x:{pname}`) but leaves '
                     f'state.last_node {"unchanged" if not last else repr(last[-1])} (what generated code binds)', fn.loc)
    # (D) model classes that return a value from inside a discarded frame
    for cname in ('Lookahead', 'NegativeLookahead'):
        c = f'{PEG}.syntax.{cname}'
        fn = a.ct.lookup(c, '_parse') if c in a.p.classes else None
        if fn is None:
            continue
        inside = [r for w_ in ast.walk(fn.node) if isinstance(w_, ast.With)
                  and any(isinstance(i.context_expr, ast.Call) and isinstance(i.context_expr.func, ast.Attribute) and i.context_expr.func.attr in ('if_', '_if')
                          for i in w_.items)
                  for r in ast.walk(w_) if isinstance(r, ast.Return) and r.value is not None]
        rep.add({'model_class': cname, 'returns_value_from_discarded_frame': bool(inside)})
        if inside:
            rep.fail(fn.qualname, 'named-lookahead-value', f'{cname}._parse returns the value its expression produced inside the lookahead frame: '
                     f'`x:&e` binds the value of e in the model and None in generated code (the frame is undone before the name is bound)', fn.loc)
    return rep


def r10_generated_frames(a, tier):
    """the context managers only generated parsers use (group, skipgroup ...) treat the cut flag like the model constructs"""
    from . import c05
    rep = c05.r3_frame_classification(a, tier)
    rep.rule = 'C02.R10'
    for f in rep.findings:
        f.rule = 'C02.R10'
    rep.text = '[= C05.R3] ' + rep.text
    return rep


def regexpp_literals(a, tier, rule_id, totality_only=False):
    """regexpp, interpreted on every valid regex over the characters that decide its quoting"""
    import itertools
    import re._parser as sre_parse  # noqa: PLC2701 - regex parse trees, to compare meanings
    import warnings

    from ..minieval import Raised, module_constants
    n = 6 if tier == 'thorough' else 5
    rep = RuleReport(
        rule_id,
        f'pattern literals are total and faithful: tatsu.util.regextools.regexpp, interpreted on EVERY string over {{backslash, single '
        f'quote, double quote, a}} up to length {n}, every string over those and LF up to length {n - 1}, and three verbose-mode patterns with a literal line break, that is a valid regular expression (its re.compile / eval / re.sub run by the '
        'interpreter of the checker), returns a raw-string literal - it does not raise - and that literal evaluates to a pattern the '
        'regex parser reads as the same regular expression: the generated parser matches what the model matches, and a failure '
        'message that quotes the pattern renders',
        floor=300,
    )
    rp = a.p.func('tatsu.util.regextools.regexpp')
    consts = dict(module_constants(rp.module))

    def tree(pat):
        with warnings.catch_warnings():
            warnings.simplefilter('ignore')
            return str(sre_parse.parse(pat))

    def _compile(pat, *x, **k):
        try:
            with warnings.catch_warnings():
                warnings.simplefilter('ignore')
                return re.compile(pat, *x, **k)
        except re.error as e:
            raise Raised('PatternError', rp.node) from e
        except (OverflowError, RecursionError) as e:
            raise Raised(type(e).__name__, rp.node) from e

    def _eval(src, *x):
        try:
            with warnings.catch_warnings():
                warnings.simplefilter('ignore')
                v = ast.literal_eval(src)
        except SyntaxError as e:
            raise Raised('SyntaxError', rp.node) from e
        except ValueError as e:
            raise Raised('ValueError', rp.node) from e
        if not isinstance(v, str):
            raise Raised('TypeError', rp.node)
        return v
    n_bad = n_all = 0
    # every string over the four quoting characters up to length n, every string with line feeds up to length n - 1, and
    # verbose-mode patterns with a literal line break (whitespace that (?x) ignores)
    words = [''.join(t) for k in range(1, n + 1) for t in itertools.product('\\\'"a', repeat=k)]
    words += [w for k in range(1, n) for t in itertools.product('\\\'"a\n', repeat=k) if '\n' in (w := ''.join(t))]
    words += ['(?x)a\nb', '(?x)\na', '(?x)a\\\nb']
    for pat in words:
        if True:
            try:
                want = tree(pat)
            except re.error:
                continue
            n_all += 1
            it = ModelInterp(a, {**consts, 're': Hook(None, compile=Hook(_compile), error=re.error, Pattern=re.Pattern, **{f: getattr(re, f) for f in ('DOTALL', 'S', 'M', 'MULTILINE', 'I', 'IGNORECASE', 'X', 'VERBOSE', 'A', 'ASCII')}), 'eval': Hook(_eval), 'PatternError': re.error,
                                 'hasattr': Hook(lambda o, nm: hasattr(o, nm) if isinstance(o, (str, re.Pattern)) else False)})

            def methods(recv, name, args, kwargs, it=it):
                if recv is it.globals['re'] and name in ('sub', 'escape', 'fullmatch', 'match', 'search', 'split', 'findall'):
                    args = [x if isinstance(x, (str, bytes, int, re.Pattern)) or x is None else it.as_callable(x) for x in args]
                    return getattr(re, name)(*args, **kwargs)
                if isinstance(recv, re.Match) and name in ('group', 'groups', 'start', 'end', 'span'):
                    return getattr(recv, name)(*args)
                if isinstance(recv, re.Pattern) and name in ('sub', 'match', 'search', 'fullmatch'):
                    args = [x if isinstance(x, (str, bytes, int, re.Pattern)) or x is None else it.as_callable(x) for x in args]
                    return getattr(recv, name)(*args, **kwargs)
                return NotImplemented
            it.methods = methods
            try:
                out = it.call_fn(rp, [pat])
                lit = _eval(out) if isinstance(out, str) else None
                got = tree(lit) if lit is not None else None
                outcome = 'same regular expression' if got == want else f'another regular expression ({lit!r})'
            except Raised as r:
                out, outcome = None, f'raises {r.cls_name}'
            except re.error as e:
                outcome = f'a literal that is not a valid pattern ({e})'
            except Unsupported as e:
                raise AnalysisError(f'{rule_id}: cannot interpret regexpp on {pat!r}: {e}') from e
            ok = outcome == 'same regular expression' or (totality_only and not outcome.startswith('raises'))
            rep.add({'pattern': pat, 'literal': out, 'outcome': outcome})
            if not ok and n_bad < 6:
                n_bad += 1
                rep.fail(rp.qualname, f'regexpp:{pat!r}', f'regexpp({pat!r}) - a valid regular expression - {outcome}' + (f', literal {out}' if out else '') +
                         ': compiling a grammar with this pattern, generating its parser or rendering a failure that quotes it does not '
                         'give the pattern of the model', rp.loc)
    rep.add({'valid_patterns_checked': n_all, 'failing': n_bad})
    return rep


def r11_regexpp_literals(a, tier):
    return regexpp_literals(a, tier, 'C02.R11')


def r12_generated_rule_names(a, tier):
    import keyword as _kw
    rep = RuleReport(
        'C02.R12',
        'a generated parser knows its rules apart: the name a rule gets at run time in generated code - the method name the generator '
        'writes (safe_name of the rule name), read by RuleInfo.new and passed through the @rule decorator (both interpreted) - is different '
        'for different rules (x, x_, x__, _x, _x_, X, if, class ...): memo entries, left-recursion guards and semantic actions are found '
        'by that name, so two rules that share it are one rule to the engine while the model keeps them apart',
        floor=1,
    )
    # the function behind @tatsu.rule that builds the RuleInfo of a method (whatever it is called)
    dmod = a.p.modules.get('tatsu.contexts.decorator.rule')
    wrapper_fn = next((f for f in (dmod.functions.values() if dmod else ()) if any(
        isinstance(x, ast.Call) and dotted(x.func).endswith('RuleInfo.new') for x in walk_no_defs(f.node))), None)
    sn = a.p.functions.get('tatsu.util.strtools.safe_name')
    if wrapper_fn is None or sn is None:
        raise AnalysisError('C02.R12: the rule decorator / safe_name not found')
    names = ['x', 'x_', 'x__', '_x', '_x_', 'X', 'xy', 'if', 'class', 'match', 'rule1']
    run_names = {}
    RI = 'tatsu.contexts.infos.RuleInfo'
    new_fn, bind_fn = a.p.func(f'{RI}.new'), a.p.func(f'{RI}.bind')

    def mk_ri(**kw):
        st = Stub(RI, **kw)
        st._attrs['_replace'] = Hook(lambda **ch: mk_ri(**{k: v for k, v in {**st._attrs, **ch}.items() if k != '_replace'}))
        return st
    for n in names:
        holder: dict = {}
        ri_hook = Hook(mk_ri, q=RI, new=Hook(lambda *x, **k: holder['it'].call_fn(new_fn, list(x), k)), bind=Hook(lambda *x, **k: holder['it'].call_fn(bind_fn, list(x), k)))
        it = holder['it'] = ModelInterp(a, {'RuleInfo': ri_hook, 're': Hook(None, sub=Hook(re.sub)), 'keyword': Hook(None, iskeyword=Hook(_kw.iskeyword), issoftkeyword=Hook(_kw.issoftkeyword), kwlist=_kw.kwlist,
                                                                                softkwlist=_kw.softkwlist),
                             'functools': Hook(None, wraps=Hook(lambda f: (lambda g_: g_))),
                             'getattr': Hook(lambda o, nm, *d: (o._attrs[nm] if isinstance(o, Stub) and nm in o._attrs else (d[0] if d else None)))})
        try:
            method = it.call_fn(sn, [n])
            func = Stub('tatsu.contexts.infos.CommentInfo', **{'__name__': method})
            wrapper = it.call_fn(wrapper_fn, [func])
            ctx = Recorder('ctx')
            it.as_callable(wrapper)('INSTANCE', ctx)
        except Unsupported as e:
            raise AnalysisError(f'C02.R12: cannot interpret the rule decorator for {n!r}: {e}') from e
        ris = [t[1][0] for t in ctx.trace if t[0] == 'call' and t[1]]
        rn = None
        if len(ris) == 1:
            ri = ris[0]
            rn = ri._attrs.get('name') if isinstance(ri, Stub) else getattr(ri, 'name', None)
        run_names[n] = (method, rn)
        rep.add({'rule': n, 'method': method, 'run_time_name': rn})
        if rn is None:
            raise AnalysisError(f'C02.R12: the decorated method of rule {n!r} did not hand one RuleInfo to ctx.call (got {ris!r})')
    # ... and it is the rule's own name: the model's RuleInfo carries Rule.name, and parse information, traces and the memo key show it
    for n, (method, rn) in run_names.items():
        if rn != n:
            rep.fail(wrapper_fn.qualname, f'rule-name:{n}', f'the rule `{n}` (method `{method}`) runs under the name {rn!r} in a generated parser and under {n!r} in the model: '
                     f'ParseInfo.rule (part of the AST when parseinfo is on) and the traces differ between the two', wrapper_fn.loc)
    by_name: dict = {}
    for n, (method, rn) in run_names.items():
        by_name.setdefault(rn, []).append(n)
    for rn, ns in sorted(by_name.items()):
        methods_ = {run_names[n][0] for n in ns}
        if len(ns) > 1 and len(methods_) > 1:
            rep.fail(wrapper_fn.qualname, f'rule-name-collision:{rn}', f'the rules {ns} (methods {sorted(methods_)}) all run under the name {rn!r} in a generated parser: '
                     f'they share memo entries, left-recursion guards and the semantic action, which the model keeps apart', wrapper_fn.loc)
    return rep


def r13_per_call_state(a, tier):
    # a generated parser object IS the parsing context and lives across parse() calls; the model builds a fresh one per parse
    from ..rules.common import per_call_state_ends_with_the_call
    return per_call_state_ends_with_the_call(a, 'C02.R13')


def r14_defaults_do_not_override_directives(a, tier, rule_id='C02.R14'):
    from ..rules.common import through_locals
    rep = RuleReport(
        rule_id,
        'the directives a generated parser was generated with survive its constructor: Config.override_config(other) applies every non-None field of '
        '`other`, and a configuration made by ParserConfig.new(...) carries the built-in defaults as non-None fields (parseinfo=False, left_recursion=True, '
        'memoization=True, trace=False), so such an object is never the OVERRIDING side over the configuration that carries the grammar\'s directives '
        '(the rule source\'s _config): every `X.override_config(Y)` in tatsu/parsing.py, tatsu/contexts and the parser templates is listed with the origin '
        'of Y - a caller-supplied object (may be None: nothing is overridden) or a freshly defaulted one',
        floor=2,
    )
    sites = 0
    for f in a.p.functions.values():
        if not f.module.name.startswith(('tatsu.parsing', 'tatsu.contexts', 'tatsu.peg.base')):
            continue
        for n in walk_no_defs(f.node):
            if not (isinstance(n, ast.Call) and isinstance(n.func, ast.Attribute) and n.func.attr == 'override_config' and n.args):
                continue
            sites += 1
            arg = n.args[0]
            origins = [arg]
            if isinstance(arg, ast.Name):
                origins = [x.value for x in walk_no_defs(f.node) if isinstance(x, ast.Assign) and any(isinstance(t, ast.Name) and t.id == arg.id for t in x.targets)] or [arg]
            fresh = [o for o in origins if isinstance(o, ast.Call) and dotted(o.func).endswith(('ParserConfig.new', 'ParserConfig'))]
            recv_fresh_from_source = 'srcconfig' in norm(n.func.value) or '_config' in norm(through_locals(f, n.func.value))
            rep.add({'site': f'{f.qualname}: {norm(n)[:70]}', 'overriding_side_is_freshly_defaulted': bool(fresh), 'overridden_side': norm(n.func.value)})
            if fresh:
                rep.fail(f.qualname, 'defaults-override:rule-source-configuration', f'`{norm(n)}` in {f.qualname}: the overriding side was made by `{norm(fresh[0])[:60]}` and carries the built-in '
                         f'defaults as values, the overridden side `{norm(n.func.value)}` carries the settings of the rule source (the grammar\'s directives): @@parseinfo :: True and '
                         f'@@left_recursion :: False are lost in every generated parser, which the model honours', f'{f.module.relpath}:{n.lineno}')
    if sites < 2:
        raise AnalysisError(f'{rule_id}: only {sites} override_config call sites found (hand-confirmed: 3)')
    return rep


RULES = [r1_exhaustive, r2_primitives, r3_rule_transfer, r4_emission, r5_context_free_emission, r6_leaf_literals, r7_generated_configuration,
         r8_operand_correspondence, r9_named_value, r10_generated_frames, r11_regexpp_literals, r12_generated_rule_names, r13_per_call_state, r14_defaults_do_not_override_directives]
